//! Compile-fail witnesses: properties of mila that hold by typing alone.  Every `compile_fail`
//! example is paired with a compiling twin that differs only in the offending line, so that a
//! witness which fails for the wrong reason (bad path, missing import) is detected.
//! Run with `cargo +nightly test --doc --offline` (error codes are only checked on nightly).

/// W04a: typed writes need `&mut BinArchive`; a shared reference cannot mutate (no interior mutability).
/// ```compile_fail,E0596
/// let a = mila::BinArchive::new(mila::Endian::Little);
/// let r = &a;
/// r.write_u8(0, 1).ok();
/// ```
/// twin:
/// ```
/// let mut a = mila::BinArchive::new(mila::Endian::Little);
/// let r = &mut a;
/// r.write_u8(0, 1).ok();
/// ```
pub struct W04a;

/// W04b: a `BinArchiveReader` only hands out a shared `&BinArchive`.
/// ```compile_fail,E0596
/// let a = mila::BinArchive::new(mila::Endian::Little);
/// let rd = mila::BinArchiveReader::new(&a, 0);
/// rd.archive().allocate_at_end(4);
/// ```
/// twin:
/// ```
/// let a = mila::BinArchive::new(mila::Endian::Little);
/// let rd = mila::BinArchiveReader::new(&a, 0);
/// let _ = rd.archive().size();
/// ```
pub struct W04b;

/// W04c: reads take `&self`: an archive behind a shared reference can be read.
/// ```
/// let a = mila::BinArchive::new(mila::Endian::Little);
/// let r = &a;
/// let _ = r.read_u8(0);
/// let _ = r.read_bytes(0, 4);
/// let _ = r.read_string(0);
/// ```
pub struct W04c;

/// W07: `get_entries` hands out `&IndexMap`; callers cannot reorder the entries.
/// ```compile_fail,E0596
/// let t = mila::TextArchive::new(mila::TextArchiveFormat::Unicode, mila::Endian::Little);
/// t.get_entries().swap_indices(0, 1);
/// ```
/// twin (a local map can be reordered, so the method exists and the path is right):
/// ```
/// let t = mila::TextArchive::new(mila::TextArchiveFormat::Unicode, mila::Endian::Little);
/// let mut m = t.get_entries().clone();
/// m.insert("a".to_string(), "1".to_string());
/// m.insert("b".to_string(), "2".to_string());
/// m.swap_indices(0, 1);
/// ```
pub struct W07;

/// W12a: the layer list of a `LayeredFilesystem` is private.
/// ```compile_fail,E0616
/// fn f(fs: &mila::LayeredFilesystem) { let _ = &fs.layers; }
/// ```
/// twin:
/// ```
/// fn f(fs: &mila::LayeredFilesystem) { let _ = fs.endian(); }
/// ```
pub struct W12a;

/// W12b: the compression format cannot be replaced from outside.
/// ```compile_fail,E0616
/// fn f(fs: &mut mila::LayeredFilesystem) { fs.compression_format = mila::CompressionFormat::LZ10(mila::LZ10CompressionFormat {}); }
/// ```
/// twin:
/// ```
/// fn f(_fs: &mut mila::LayeredFilesystem) { let _ = mila::CompressionFormat::LZ10(mila::LZ10CompressionFormat {}); }
/// ```
pub struct W12b;

/// W12c: endianness / text encoding configured per game cannot be changed after construction.
/// ```compile_fail,E0616
/// fn f(fs: &mut mila::LayeredFilesystem) { fs.endian = mila::Endian::Big; }
/// ```
/// twin:
/// ```
/// fn f(fs: &mut mila::LayeredFilesystem) { let _e: mila::Endian = fs.endian(); }
/// ```
pub struct W12c;
