"""C11 — decompression: dispatch, guarded access to the input, totality of the delegated decoder."""
import os
from mir import Facts, fmt, walk, strip_refs, norm, callee_names
from flow import enum_paths, PathLimit, cond_truth
from common import Report
from c04 import is_err_term
import c05
import extract

EXPLANATION = ("Dispatch tables of CompressionFormat and of the LZ13 first-byte classes; every raw index/slice of the "
               "caller's bytes needs a dominating length test; the decoder the work is delegated to "
               "(nintendo_lz::decompress_arr, analysed from its own MIR with the same finder as C05) must have no "
               "definite panic pattern on input-derived values, otherwise each unguarded mila call site is reported; "
               "decoder errors are mapped, not unwrapped. Correct expansion of conforming streams is not decided.")
ASSUMPTIONS = ["the dependency expands conforming streams correctly (value-level)",
               "nintendo_lz's header-sized Vec::reserve (up to 4 GiB for an LZ11 extended header) is reported as a note, not as a panic"]

CF = "mila::compression_format::CompressionFormat"
LZ10 = "mila::lz10::LZ10CompressionFormat"
LZ13 = "mila::lz13::LZ13CompressionFormat"
DEC = "nintendo_lz::decompress_arr"
DECS = (DEC, "nintendo_lz::decompress")      # decompress_arr is `decompress(&mut Cursor::new(input))`


def run(facts, rep, ctx):
    R1 = rep.rule("R11.1", "dispatch: CompressionFormat variant -> the matching format's method; LZ13 first byte 0 / 0x13 / other -> stored / wrapper stripped / bare", floor=9)
    R2 = rep.rule("R11.2", "the caller's bytes are never indexed or sliced without a dominating length test", floor=2)
    R3 = rep.rule("R11.3", "the delegated decoder has no definite panic pattern on input-derived values, or its call sites are guarded", floor=2)
    R4 = rep.rule("R11.4", "decoder errors are mapped to CompressionError::InvalidInput, never unwrapped", floor=2)
    dispatch(facts, rep, R1)
    lz13_classes(facts, rep, R1, R2)
    decoder_totality(facts, rep, R3, ctx)
    error_mapping(facts, rep, R4)
    R5 = rep.rule("R11.5", "every Ok result is the decoder's output (LZ13 stored form excepted): no shortcut decides the content", floor=2)
    ok_provenance(facts, rep, R5)
    R6 = rep.rule("R11.6", "no check of mila's own rejects a conforming stream before the decoder sees it (evaluated at extreme conforming streams)", floor=3)
    pre_decoder_rejections(facts, rep, R6)
    R7 = rep.rule("R11.7", "LZ13 entry point: every input shorter than the 4-byte header is rejected, whatever its first byte (decision table over lengths 0..3 x first byte)", floor=1)
    short_input_rule(facts, rep, R7)


# Conforming streams at the edge of what the formats allow: one literal, then the longest run the format can express
# at displacement 1.  (type, 24-bit LE size, flag byte 0x40 = second token is a reference, literal, reference)
LZ11_EDGE = (0x11, 0x11, 0x01, 0x01, 0x40, 0x41, 0x1F, 0xFF, 0xF0, 0x00)        # 1 + 0x10110 bytes from 10
LZ10_EDGE = (0x10, 0x13, 0x00, 0x00, 0x40, 0x41, 0xF0, 0x00)                    # 1 + 18 bytes from 8
LZ10_EMPTY = (0x10, 0x00, 0x00, 0x00)          # what compress(&[]) emits: a header that declares zero bytes
LZ11_EMPTY = (0x11, 0x00, 0x00, 0x00)
LZ10_ONE = (0x10, 0x01, 0x00, 0x00, 0x00, 0x41)  # one literal
WITNESSES = {LZ10: [("the longest LZ10 run", LZ10_EDGE), ("the empty LZ10 stream", LZ10_EMPTY), ("a one-byte LZ10 stream", LZ10_ONE)],
             LZ13: [("the longest LZ11 run (bare)", LZ11_EDGE), ("the longest LZ11 run (0x13 wrapper)", (0x13, 0x11, 0x01, 0x01) + LZ11_EDGE),
                    ("a bare LZ10 stream", LZ10_EDGE), ("the stored form", (0x00, 0x02, 0x00, 0x00, 0x41, 0x42)),
                    ("the empty stored form", (0x00, 0x00, 0x00, 0x00)), ("the empty LZ11 stream (bare)", LZ11_EMPTY),
                    ("the empty LZ11 stream (0x13 wrapper)", (0x13, 0x00, 0x00, 0x00) + LZ11_EMPTY), ("the empty LZ10 stream (bare)", LZ10_EMPTY)]}


def pre_decoder_rejections(facts, rep, R6):
    from summ import Evaluator, Ref, Adt, Unknown, Panic
    E = Evaluator(facts)
    for fmtn in (LZ10, LZ13):
        b = facts.ibody(fmtn + "::decompress", combinators=True)
        if b is None:
            continue
        for what, stream in WITNESSES[fmtn]:
            try:
                outs = E.outcomes(b, [Ref(Adt("opaque", "S")), Ref(tuple(stream))])
            except (Unknown, Panic, RecursionError, PathLimit) as u:
                rep.inconc(R6, "%s at %s: not evaluable (%s)" % (b.name, what, u))
                continue
            rejected = None
            for o in outs:
                p = o["path"]
                if o["panic"] and o["definite"]:
                    rejected = "panics (%s)" % o["panic"]
                if p.end == "ret" and is_err_term(p.ret) is True and o["definite"] and not [e for e in p.events if e["k"] == "call" and e["callee"] in DECS]:
                    rejected = "returns an error without running the decoder (under [%s])" % "; ".join(fmt(c[1])[:50] for c in p.conds[-2:])
            alive = [o for o in outs if not (o["definite"] and (o["panic"] or (is_err_term(o["path"].ret) is True and not [e for e in o["path"].events if e["k"] == "call" and e["callee"] in DECS])))]
            if rejected and not alive:
                rep.violation(R6, b.name, "rejects-conforming:" + what.split(" (")[0].replace(" ", "-"), "%s %s on %s: %d bytes %s" % (
                    b.name.rsplit("::", 2)[-2] + "::decompress", rejected, what, len(stream), " ".join("%02x" % x for x in stream)), "%s:%s" % (b.file, b.line))
            elif outs:
                rep.ok(R6, {"fn": b.name, "stream": what, "reaches": "the decoder / the stored copy"})


def short_input_rule(facts, rep, R7):
    """Input shorter than the 4-byte header yields an error, whatever its first byte says it is: the LZ13 entry
    point evaluated at every length 0..3 for the first bytes 0x00 (stored), 0x10, 0x11 (bare), 0x13 (wrapper), 0x42."""
    from summ import Evaluator, Ref, Adt, Unknown, Panic, SeqVal, deref

    def _first(ev, args, depth):
        v = deref(args[0])
        v = v.items if isinstance(v, SeqVal) else v
        if not isinstance(v, (tuple, bytes, list)):
            raise Unknown("first of %r" % (type(v).__name__,))
        return Adt("core::option::Option", "Some", (Ref(v[0]),)) if len(v) else Adt("core::option::Option", "None", ())
    E = Evaluator(facts)
    # (models local to this rule: the byte strings here are concrete tuples)
    E.models["core::slice::<impl [T]>::first"] = _first
    E.models["core::slice::<impl [T]>::to_vec"] = lambda ev, args, depth: deref(args[0])
    b = facts.ibody(LZ13 + "::decompress", combinators=True)
    if b is None:
        rep.inconc(R7, "anchor LZ13CompressionFormat::decompress missing")
        return
    undecided = None
    rows = 0
    for first in (0x00, 0x10, 0x11, 0x13, 0x42):
        for n in range(0, 4):
            if n == 0 and first:
                continue
            stream = tuple([first] + [0] * (n - 1)) if n else ()
            try:
                outs = E.outcomes(b, [Ref(Adt("opaque", "S")), Ref(stream)])
            except (Unknown, Panic, RecursionError, PathLimit) as u:
                undecided = "%d byte(s) starting 0x%02x: not evaluable (%s)" % (n, first, str(u)[:60])
                continue
            rows += 1
            for o in outs:
                p = o["path"]
                if o["definite"] and o["panic"]:
                    rep.violation(R7, b.name, "short-input-panics", "LZ13 decompress panics (%s) on the %d-byte input %s: input shorter than a header must yield an error" % (
                        o["panic"], n, " ".join("%02x" % x for x in stream) or "(empty)"), "%s:%s" % (b.file, b.line))
                    return
                if o["definite"] and not o["panic"] and p.end == "ret" and is_err_term(p.ret) is False:
                    rep.violation(R7, b.name, "short-input-accepted", "LZ13 decompress returns Ok for the %d-byte input %s: it is shorter than the 4-byte header and must be rejected (only the length decides this, not the first byte)" % (
                        n, " ".join("%02x" % x for x in stream) or "(empty)"), "%s:%s" % (b.file, b.line))
                    return
            if not all(o["definite"] and not o["panic"] and is_err_term(o["path"].ret) is True for o in outs):
                undecided = undecided or "%d byte(s) starting 0x%02x: an outcome other than an error could not be excluded" % (n, first)
    if undecided:
        rep.inconc(R7, "LZ13 decompress on short input: " + undecided)
    elif rows:
        rep.ok(R7, {"fn": b.name, "short_inputs_rejected": rows})


def dispatch(facts, rep, R1):
    adt = facts.adts.get(CF)
    if not adt:
        rep.inconc(R1, "CompressionFormat ADT missing")
        return
    vn = {v["discr"]: v["name"] for v in adt["variants"]}
    target = {"LZ10": LZ10, "LZ13": LZ13}
    for m in ("compress", "decompress", "is_compressed_filename"):
        b = facts.body(CF + "::" + m)
        if b is None or not b.pub:
            rep.inconc(R1, "anchor CompressionFormat::%s missing" % m)
            continue
        try:
            paths = enum_paths(b)
        except PathLimit:
            rep.inconc(R1, m + ": too many paths")
            continue
        seen = {}
        for p in paths:
            vs = set(vn.values())
            for (bb, term, vals, neg, dty) in p.conds:
                if term[0] == "discr" and strip_refs(term[1])[0] == "param" and strip_refs(term[1])[1] == 1:
                    names = set(vn[v] for v in vals if v in vn)
                    vs = vs - names if neg else vs & names
            calls = [e for e in p.events if e["k"] == "call" and e["callee"] and e["callee"].startswith("mila::lz1")]
            for v in vs:
                seen.setdefault(v, []).append((p, calls))
        for v in sorted(vn.values()):
            lst = seen.get(v, [])
            want = target.get(v, "?") + "::" + m
            good = len(lst) == 1 and len(lst[0][1]) == 1 and lst[0][1][0]["callee"] == want
            if good:
                p, calls = lst[0]
                c = calls[0]
                # result returned unchanged, caller's argument forwarded
                fwd = len(c["args"]) < 2 or strip_refs(c["args"][1]) == ("param", 2, b.local_name(2))
                if p.ret == c["val"] and fwd:
                    rep.ok(R1, {"method": m, "variant": v, "callee": want})
                    continue
                good = False
            got = [c["callee"] for (p, cs) in lst for c in cs]
            rep.violation(R1, b.name, "dispatch:%s:%s" % (m, v), "CompressionFormat::%s on %s calls %s, specified %s with the caller's argument, result unchanged" % (m, v, got or "nothing", want), "%s:%s" % (b.file, b.line))


def derived_slices(b, param):
    """locals that stand for `param` or a tail `param[k..]` of it, possibly chosen on several paths
    (`let block = if wrapped { &bytes[4..] } else { bytes }`):  local -> [(k, defining block)]"""
    out = {}
    for l in range(len(b.locals)):
        if b.local_ty(l) not in ("&[u8]", "&mut [u8]") or l <= b.argc:
            continue
        ds = b.defs().get(l, [])
        if len(ds) < 2:
            continue         # single definitions are expanded into the terms already
        offs = []
        for (bi, si, kind, payload) in ds:
            if kind == "assign":
                k = slice_offset(b.term_of_rvalue(payload["rv"]), param)
            elif kind == "call":
                k = slice_offset(("call", callee_names(payload)[1] or callee_names(payload)[0] or "", tuple(b.term_of_operand(a) for a in payload["args"])), param)
            else:
                k = None
            if k is None:
                offs = None
                break
            offs.append((k, bi))
        if offs:
            out[l] = offs
    return out


def helper_guard(b, bb, param=2):
    """a dominating branch on the result of a crate function (or a get/first/split on the slice, through
    Option plumbing) that was handed the same input: it may be the length test"""
    from flow import dom_guards
    pt = ("param", param, b.local_name(param))
    for (a, s_, c) in dom_guards(b, bb):
        for x in walk(c[0]):
            if x[0] == "call" and x[1] and x[1].startswith("mila::") and any(y == pt for a_ in x[2] for y in walk(a_)):
                return True
        # ... or on a flag set on several paths of an expanded helper (its `return false` / `return true`)
        t_ = strip_refs(c[0])
        if t_[0] == "var" and b.local_ty(t_[1]) == "bool" and len(b.defs().get(t_[1], [])) > 1 and getattr(b, "inlined", None):
            return True
    return False


def raw_accesses(b, param):
    """(block, minimal length needed, description) for every raw index/slice of parameter `param`."""
    out = []
    pt = ("param", param, b.local_name(param))
    # the same through a re-sliced view of the input that is chosen on several paths: the need is counted from the
    # start of the input for each choice, and the guard may sit at the choice or at the access
    der = derived_slices(b, param)
    for l, offs in der.items():
        vt = ("var", l, b.local_name(l))
        for bb, t in b.asserts():
            m = t["msg"]
            if m["kind"] == "BoundsCheck" and any(x == vt for x in walk(b.term_of_operand(m["len"]))):
                idx = b.term_of_operand(m["index"])
                for (k, dbb) in offs:
                    need = k + idx[1] + 1 if idx[0] == "const" else None
                    out.append((bb, need, "%s[%s] with %s = bytes[%d..]" % (b.local_name(l) or "view", fmt(idx), b.local_name(l) or "view", k), t["line"], dbb, vt, k))
        for bb, t in b.calls():
            nm = callee_names(t)[1] or callee_names(t)[0] or ""
            if "ops::Index" in nm and t["args"] and strip_refs(b.term_of_operand(t["args"][0])) == vt:
                idx = b.term_of_operand(t["args"][1])
                for (k, dbb) in offs:
                    need = None
                    if idx[0] == "agg" and idx[4] and all(x[0] == "const" for x in idx[4]):
                        need = k + max(x[1] for x in idx[4])
                    elif idx[0] == "const":
                        need = k + idx[1] + 1
                    out.append((bb, need, "%s[%s] with %s = bytes[%d..]" % (b.local_name(l) or "view", fmt(idx)[:30], b.local_name(l) or "view", k), t["line"], dbb, vt, k))
    for bb, t in b.asserts():
        m = t["msg"]
        if m["kind"] == "BoundsCheck":
            ln = b.term_of_operand(m["len"])
            if any(x == pt for x in walk(ln)):
                idx = b.term_of_operand(m["index"])
                need = idx[1] + 1 if idx[0] == "const" else None
                out.append((bb, need, "bytes[%s]" % fmt(idx), t["line"]))
    for bb, t in b.calls():
        nm = callee_names(t)[1] or callee_names(t)[0] or ""
        if "ops::Index" in nm and t["args"]:
            base = strip_refs(b.term_of_operand(t["args"][0]))
            if base == pt:
                idx = b.term_of_operand(t["args"][1])
                need = None
                desc = fmt(idx)
                if idx[0] == "agg" and idx[4] and idx[4][0][0] == "const":
                    # RangeFrom{a} / Range{a, b}
                    consts = [x[1] for x in idx[4] if x[0] == "const"]
                    need = max(consts) if len(consts) == len(idx[4]) else None
                    desc = "bytes[%s]" % "..".join(fmt(x) for x in idx[4])
                elif idx[0] == "const":
                    need = idx[1] + 1
                out.append((bb, need, desc, t["line"]))
    return out


def length_guard(b, bb, param, of=None):
    """Largest K such that a dominating branch `len(param) < K` leaves the function before block bb.
    (`of`: measure another slice value -- a re-sliced view held in a local -- instead of the parameter.)"""
    pt = of if of is not None else ("param", param, b.local_name(param))
    best = 0
    for bi in range(len(b.blocks)):
        if bi == bb or not b.dominates(bi, bb):
            continue
        t = b.blocks[bi]["term"]
        if t["k"] != "switch":
            continue
        d = b.term_of_operand(t["d"])
        if d[0] != "bin" or d[1] not in ("Lt", "Le", "Ge", "Gt"):
            continue
        lhs, rhs = d[2], d[3]

        def is_len(x):
            x = strip_refs(x)
            return (x[0] == "call" and x[1].endswith("::len") and strip_refs(x[2][0]) == pt) or (x[0] == "un" and x[1] == "PtrMetadata" and strip_refs(x[2]) == pt)
        if is_len(lhs) and rhs[0] == "const":
            op, k = d[1], rhs[1]
        elif is_len(rhs) and lhs[0] == "const":
            op, k = {"Lt": "Gt", "Le": "Ge", "Gt": "Lt", "Ge": "Le"}[d[1]], lhs[1]
        else:
            continue
        # which successor continues towards bb?
        for val, tb in t["targets"] + [[None, t["otherwise"]]]:
            if b.dominates(tb, bb) or tb == bb:
                truth = (val is None)  # otherwise-branch = condition true (switch [0 -> else])
                if val is not None and val != 0:
                    truth = True
                # condition `len op k` has this truth on the way to bb
                if op == "Lt" and not truth:
                    best = max(best, k)          # len >= k
                elif op == "Le" and not truth:
                    best = max(best, k + 1)
                elif op == "Ge" and truth:
                    best = max(best, k)
                elif op == "Gt" and truth:
                    best = max(best, k + 1)
    # a successful fallible access of the input establishes its length too: `get(k)`, `get(a..)`, `get(a..b)`,
    # `first()`, `split_first()`, `split_at_checked(k)` being `Some` on the way to bb
    from flow import dom_guards
    for (a_, s_, c_) in dom_guards(b, bb, skip_try=False):
        term, vals, neg, dty = c_
        if term[0] != "discr":
            continue
        x = strip_refs(term[1])
        if x[0] == "call" and x[1] in ("<std::option::Option<T> as std::ops::Try>::branch",) and x[2]:
            x = strip_refs(x[2][0])
            some = (vals == (0,) and not neg) or (neg and 0 not in vals)       # Continue arm
        else:
            some = (vals == (1,) and not neg) or (neg and vals == (0,))
        if not some or x[0] != "call" or not x[2] or strip_refs(x[2][0]) != pt:
            continue
        sh = x[1].rsplit("::", 1)[-1]
        need = None
        if sh in ("first", "split_first", "last", "split_last"):
            need = 1
        elif sh in ("get", "split_at_checked") and len(x[2]) == 2:
            ix = strip_refs(x[2][1])
            if ix[0] == "const" and isinstance(ix[1], int):
                need = ix[1] + (1 if sh == "get" else 0)
            elif ix[0] == "agg" and ix[4] and all(strip_refs(y)[0] == "const" for y in ix[4]):
                kind = (ix[2] or "").rsplit("::", 1)[-1]
                cs = [strip_refs(y)[1] for y in ix[4]]
                need = {"RangeFrom": cs[0], "RangeTo": cs[0], "Range": max(cs), "RangeInclusive": max(cs) + 1, "RangeToInclusive": cs[0] + 1}.get(kind)
        if need:
            best = max(best, need)
    return best


def first_byte_tests(p, param=2):
    """[(value, holds)] for every test of input byte 0 on the path: `bytes[0] == K` comparisons and the arms of
    a `match` on the byte itself (slice patterns)."""
    out = []
    for (bb, term, vals, neg, dty) in p.conds:
        ct = cond_truth((term, vals, neg, dty))
        if ct and ct[0][0] == "bin" and ct[0][1] in ("Eq", "Ne") and ct[0][3][0] == "const" and is_byte0(ct[0][2], param):
            out.append((ct[0][3][1], ct[1] == (ct[0][1] == "Eq")))
        elif is_byte0(term, param) and dty in ("u8",):
            if not neg:
                for v in vals:
                    out.append((v, True))
            else:
                for v in vals:
                    out.append((v, False))
    return out


def slice_offset(t, param=2, depth=0):
    """k when `t` denotes the input from byte k on (`bytes`, `bytes[k..]`, `bytes.split_at(k).1`, `get(k..)`, a rest
    pattern, ...), or a prefix of that; None when it is not a view of the input."""
    t = strip_refs(t)
    while t[0] in ("deref", "cast"):
        t = strip_refs(t[1])
    if depth > 8:
        return None
    if t[0] == "param":
        return 0 if t[1] == param else None
    if t[0] == "subslice":
        base = slice_offset(t[1], param, depth + 1)
        return None if base is None else base + tuple(t[2])[0]
    if t[0] == "field" and strip_refs(t[1])[0] == "call":
        c = strip_refs(t[1])
        if c[1].endswith("<impl [T]>::split_at") and len(c[2]) == 2 and t[3] in (0, 1):
            base = slice_offset(c[2][0], param, depth + 1)
            mid = strip_refs(c[2][1])
            if base is None:
                return None
            if t[3] == 0:
                return base
            return base + mid[1] if mid[0] == "const" and isinstance(mid[1], int) else None
    if t[0] in ("field", "downcast"):
        # payload of `get(k..)` / `split_first()` / `split_at_checked(k)` results
        inner = strip_refs(t[1])
        if t[0] == "field" and inner[0] == "downcast" and strip_refs(inner[1])[0] == "call":
            c = strip_refs(inner[1])
            if c[1].endswith("<impl [T]>::get") and len(c[2]) == 2:
                rg = strip_refs(c[2][1])
                base = slice_offset(c[2][0], param, depth + 1)
                if base is not None and rg[0] == "agg" and (rg[2] or "").endswith("RangeFrom") and rg[4] and rg[4][0][0] == "const":
                    return base + rg[4][0][1]
                if base is not None and rg[0] == "agg" and ((rg[2] or "").endswith("RangeTo") or ((rg[2] or "").endswith("::Range") and rg[4] and rg[4][0][:2] == ("const", 0))):
                    return base
        if t[0] == "field" and inner[0] == "field" and strip_refs(inner[1])[0] == "downcast":
            c = strip_refs(strip_refs(inner[1])[1])
            if c[0] == "call" and c[1].endswith("<impl [T]>::split_first") and t[3] == 1 and inner[3] == 0:
                base = slice_offset(c[2][0], param, depth + 1)
                return None if base is None else base + 1
        return None
    if t[0] == "call" and "ops::Index" in t[1] and len(t[2]) == 2:
        rg = strip_refs(t[2][1])
        base = slice_offset(t[2][0], param, depth + 1)
        if base is None or rg[0] != "agg":
            return None
        kind = (rg[2] or "").rsplit("::", 1)[-1]
        if kind == "RangeFrom" and rg[4] and rg[4][0][0] == "const":
            return base + rg[4][0][1]
        if kind in ("RangeTo", "RangeFull", "RangeToInclusive"):
            return base
        if kind in ("Range", "RangeInclusive") and rg[4] and rg[4][0][0] == "const":
            return base + rg[4][0][1]
        return None
    return None


def is_byte0(t, param=2):
    t = strip_refs(t)
    while t[0] == "cast":
        t = strip_refs(t[1])
    if t[0] == "index" and t[2][0] == "const":
        k = slice_offset(t[1], param)
        return k is not None and k + t[2][1] == 0
    if t[0] == "call" and "ops::Index" in t[1] and len(t[2]) == 2 and strip_refs(t[2][1])[0] == "const":
        k = slice_offset(t[2][0], param)
        return k is not None and k + strip_refs(t[2][1])[1] == 0
    # *bytes.first()? / bytes.get(0)
    for x in walk(t):
        if x[0] == "call" and (x[1].endswith("<impl [T]>::first") or (x[1].endswith("<impl [T]>::get") and len(x[2]) == 2 and strip_refs(x[2][1])[:2] == ("const", 0))):
            if slice_offset(x[2][0], param) == 0 and not any(y[0] == "bin" for y in walk(t)):
                return True
        if x[0] == "call" and x[1].endswith("<impl [T]>::split_first") and slice_offset(x[2][0], param) == 0 and not any(y[0] == "bin" for y in walk(t)):
            # the `.0` (first element) of split_first's payload
            tt = strip_refs(t)
            while tt[0] == "deref":
                tt = strip_refs(tt[1])
            if tt[0] == "field" and tt[3] == 0:
                return True
    return False


def tail_from(t, k=4, param=2):
    """t denotes bytes[k..] of the input: a RangeFrom index, `get(k..)`, `split_at(k).1`, or the rest binding of a
    slice pattern"""
    for x in walk(t):
        if x[0] in ("call", "field", "subslice") and slice_offset(x, param) == k:
            return True
        if x[0] == "agg" and x[4] and x[4][0][:2] == ("const", k) and (x[2] or "").endswith("RangeFrom"):
            return True
    return False


def lz13_classes(facts, rep, R1, R2):
    for fmtn in (LZ10, LZ13):
        b = facts.ibody(fmtn + "::decompress", combinators=True)
        if b is None or not b.pub:
            rep.inconc(R2, "anchor %s::decompress missing" % fmtn)
            continue
        acc = raw_accesses(b, 2)
        for rec in acc:
            bb, need, desc, line = rec[:4]
            where = "%s:%s" % (b.file, line)
            if need is None:
                rep.inconc(R2, "%s: access %s not understood" % (b.name, desc))
                continue
            have = length_guard(b, bb, 2)
            if len(rec) > 4:
                # the guard may sit where the view was chosen, or be a test of the view's own length
                have = max(have, length_guard(b, rec[4], 2), rec[6] + length_guard(b, bb, 2, of=rec[5]))
            if have >= need:
                rep.ok(R2, {"fn": b.name, "access": desc, "needs_len": need, "guard_len": have})
            elif helper_guard(b, bb):
                rep.inconc(R2, "%s: %s sits behind a test computed by a helper on the same bytes; what that test establishes about the length is not followed" % (b.name.rsplit("::", 2)[-2], desc))
            else:
                rep.violation(R2, b.name, "raw-access:" + desc, "%s reads %s (needs %d byte(s)) but only len >= %d is established: shorter input panics" % (b.name.rsplit("::", 2)[-2] + "::decompress", desc, need, have), where)
        if not acc:
            rep.ok(R2, {"fn": b.name, "raw_accesses": 0})
    # first-byte classes of the LZ13 entry point
    b = facts.ibody(LZ13 + "::decompress", combinators=True)
    if b is None:
        return
    try:
        paths = enum_paths(b)
    except PathLimit:
        rep.inconc(R1, "LZ13 decompress: too many paths")
        return
    table = {}
    tested = set()
    for p in paths:
        cls = first_byte_tests(p)
        tested |= set(v for v, h in cls)
        if not cls:
            continue
        dec = [e for e in p.events if e["k"] == "call" and e["callee"] in DECS]
        if (0, True) in cls:
            key = "stored"
        elif (0x13, True) in cls:
            key = "wrapper"
        elif (0x13, False) in cls and (0, False) in cls:
            key = "bare"
        else:
            continue

        def from4(t):
            return tail_from(t, 4) or any(x[0] == "agg" and x[4] and x[4][0] == ("const", 4, "usize") for x in walk(t))
        if key == "stored":
            ext = [e for e in p.events if e["k"] == "call" and e["callee"] and e["callee"].rsplit("::", 1)[-1] in ("extend_from_slice", "to_vec", "extend", "to_owned", "from", "collect")]
            if p.end != "ret" or is_err_term(p.ret) is not False:
                continue
            val = "payload after 4 bytes" if (ext and from4(ext[0]["args"][-1]) and not dec) else "?"
        else:
            if len(dec) != 1:
                val = "?"
            elif from4(dec[0]["args"][0]):
                val = "decoder on bytes[4..]"
            elif strip_refs(dec[0]["args"][0]) == ("param", 2, b.local_name(2)):
                val = "decoder on bytes"
            else:
                val = "?" + fmt(dec[0]["args"][0])[:40]
        table.setdefault(key, set()).add(val)
    want = {"stored": {"payload after 4 bytes"}, "wrapper": {"decoder on bytes[4..]"}, "bare": {"decoder on bytes"}}
    for k in ("stored", "wrapper", "bare"):
        if table.get(k) == want[k]:
            rep.ok(R1, {"lz13_first_byte": k, "action": sorted(want[k])[0]})
        elif not table.get(k) and (tested - {0, 0x13}):
            rep.violation(R1, b.name, "class:" + k, "LZ13 decompress dispatches on first-byte values %s (specified: 0 = stored, 0x13 = wrapper, anything else = bare stream): no %s class" % (
                sorted(hex(v) for v in tested), k), "%s:%s" % (b.file, b.line))
        elif not table.get(k) or any(v.startswith("?") for v in table.get(k, ())):
            rep.inconc(R1, "LZ13 decompress, %s class: handling not recognised (%s)" % (k, sorted(table.get(k, [])) or "no branch found"))
        else:
            rep.violation(R1, b.name, "class:" + k, "LZ13 decompress, %s class: %s (specified %s)" % (k, sorted(table.get(k, [])) or "no such branch", sorted(want[k])[0]), "%s:%s" % (b.file, b.line))


def decoder_totality(facts, rep, R3, ctx):
    try:
        paths = extract.extract(ctx["repo"], "dev", crates=("mila", "nintendo_lz"), with_deps=True)
        dep = Facts(paths["nintendo_lz"])
    except extract.ExtractError as e:
        rep.inconc(R3, "dependency facts unavailable: %s" % str(e)[-300:])
        return
    root = dep.body(DEC)
    if root is None:
        rep.inconc(R3, "nintendo_lz::decompress_arr not found in the dependency facts")
        return
    ids, ext = dep.reachable_from([root.id])
    sub = Report("dep")
    rules = tuple(sub.rule(r, r) for r in ("R05.1", "R05.2", "R05.3", "R05.4", "R05.5"))
    for i in sorted(ids):
        db = dep.bodies[i]
        if "fmt::" in db.name or "error::Error" in db.name:
            continue
        c05.analyse_body(dep, sub, db, True, rules)
    rep.count("dependency_bodies_analysed", len(ids))
    for k, v in sub.counts.items():
        rep.count("dependency_" + k, v)
    sites = [v for v in sub.violations if v["rule"] in ("R05.1", "R05.2", "R05.4")]
    allocs = [v for v in sub.violations if v["rule"] == "R05.3"]
    for a in allocs:
        rep.note("dependency: " + a["msg"])
    # the public entry points whose (expanded) body hands bytes to the decoder: keyed by the API function, not by
    # whichever private helper happens to contain the call
    callers = []
    seen_raw = set()
    for b in facts.views():
        if not (b.pub and b.kind == "AssocFn" or b.pub):
            continue
        for bb, t in b.calls():
            if (callee_names(t)[1] or callee_names(t)[0]) in DECS:
                callers.append((b, bb, t))
                seen_raw.add(b.id)
                break
    # a non-public caller that no public function absorbed (kept helper): report it under its own name
    for b in facts.bodies.values():
        if b.pub or b.kind == "Closure":
            continue
        if any((callee_names(t)[1] or callee_names(t)[0]) in DECS for bb, t in b.calls()):
            used = any(any((callee_names(t2)[1] or "") == b.name for _, t2 in pb.calls()) for pb, _, _ in callers)
            if not callers or (b.name in facts.known()[0] and not used):
                for bb, t in b.calls():
                    if (callee_names(t)[1] or callee_names(t)[0]) in DECS:
                        callers.append((b, bb, t))
                        break
    if not callers:
        rep.inconc(R3, "no mila call of nintendo_lz::decompress_arr found")
        return
    for b, bb, t in callers:
        where = "%s:%s" % (b.file, t["line"])
        if not sites:
            rep.ok(R3, {"fn": b.name, "decoder": "no definite panic pattern found"})
            continue
        # a guard would be a validating pre-pass or catch_unwind dominating the call
        guarded = False
        for bi in range(len(b.blocks)):
            if b.dominates(bi, bb) and b.blocks[bi]["term"]["k"] == "call":
                nm = callee_names(b.blocks[bi]["term"])[1] or ""
                if nm.endswith("catch_unwind") or "validate" in nm.rsplit("::", 1)[-1]:
                    guarded = True
        if guarded:
            rep.ok(R3, {"fn": b.name, "decoder": "call is guarded"})
        else:
            first = sites[0]
            rep.violation(R3, b.name, "delegates-to-partial-decoder",
                          "%s hands the caller's bytes to nintendo_lz::decompress_arr, which panics on malformed input (%d definite site(s), e.g. %s at %s)" % (
                              b.name, len(sites), first["msg"][:160], first["where"]), where)


def ok_provenance(facts, rep, R5):
    """Every path of the two decompress entry points that returns Ok returns the decoder's output;
    the only exception is LZ13's stored form (first byte 0), which returns the payload after the header."""
    for fmtn in (LZ10, LZ13):
        b = facts.ibody(fmtn + "::decompress", combinators=True)
        if b is None:
            continue
        try:
            paths = enum_paths(b)
        except PathLimit:
            rep.inconc(R5, b.name + ": too many paths")
            continue
        bad = None
        unk = None
        n = 0
        if not any(e["k"] == "call" and e["callee"] in DECS for p in paths for e in p.events):
            # the entry point no longer delegates to the external decoder at all (an in-crate decoder): which value
            # is "the decoder's output" is not something this rule can name
            rep.inconc(R5, "%s does not call the delegated decoder on any path: an in-crate decoder is not analysed" % b.name)
            continue
        for p in paths:
            if p.end != "ret" or is_err_term(p.ret) is not False:
                continue
            n += 1
            dec = [e for e in p.events if e["k"] == "call" and e["callee"] in DECS]
            if dec and any(x == dec[0]["val"] for x in walk(p.ret)):
                continue
            stored = fmtn == LZ13 and (0, True) in first_byte_tests(p)
            if stored:
                continue
            conds = "; ".join(fmt(c[1])[:50] for c in p.conds)
            if fmtn == LZ13 and (tail_from(p.ret, 4) or any(e["k"] == "call" and e["callee"] and e["callee"].rsplit("::", 1)[-1] in ("extend_from_slice", "extend", "to_vec", "copy_from_slice", "append")
                                                         and (any(tail_from(a_, 4) for a_ in e["args"]) or any(
                                                             x[0] == "param" and x[1] == 2 for a_ in e["args"][1:] for x in walk(a_))) for e in p.events)):
                # a copy of the payload after the header: the stored form, selected by a test this rule did not decode
                unk = "a path returns the payload after the header under conditions that are not recognised: [%s]" % conds[:160]
                continue
            bad = "returns Ok(%s) without running the decoder when [%s]" % (fmt(p.ret[4][0])[:40] if p.ret[0] == "agg" else fmt(p.ret)[:40], conds)
        if unk and not bad:
            rep.inconc(R5, "%s: %s" % (b.name, unk))
        elif bad:
            rep.violation(R5, b.name, "ok-without-decoder", "%s %s" % (b.name.rsplit("::", 2)[-2] + "::decompress", bad), "%s:%s" % (b.file, b.line))
        elif n:
            rep.ok(R5, {"fn": b.name, "ok_paths": n})
        else:
            rep.inconc(R5, b.name + ": no Ok path found")


def error_mapping(facts, rep, R4):
    for fmtn in (LZ10, LZ13):
        b = facts.ibody(fmtn + "::decompress", combinators=True)
        if b is None:
            continue
        try:
            paths = enum_paths(b)
        except PathLimit:
            rep.inconc(R4, b.name + ": too many paths")
            continue
        bad = None
        seen = 0
        for p in paths:
            dec = [e for e in p.events if e["k"] == "call" and e["callee"] in DECS]
            if not dec:
                continue
            d = dec[0]["val"]
            st = None
            for (bb, term, vals, neg, dty) in p.conds:
                if term[0] == "discr" and term[1] == d:
                    st = "Ok" if ((vals == (0,)) != neg) else "Err"
            if st is None:
                # not matched: unwrapped or returned through ? / map_err
                uw = [e for e in p.events if e["k"] == "call" and e["callee"] and e["callee"].rsplit("::", 1)[-1] in ("unwrap", "expect") and any(x == d for x in walk(e["args"][0]))]
                if uw:
                    bad = "unwraps the decoder's result"
                continue
            seen += 1
            r = p.ret
            if st == "Err":
                good = r[0] == "agg" and r[3] == "Err" and r[4][0][0] == "agg" and r[4][0][3] == "InvalidInput"
                if not good:
                    bad = "a decoder error becomes %s" % fmt(r)[:60]
            else:
                good = r[0] == "agg" and r[3] == "Ok" and any(x == d for x in walk(r))
                if not good:
                    bad = "a decoder success becomes %s" % fmt(r)[:60]
        if seen < 2 and not bad:
            rep.inconc(R4, "%s: Ok/Err handling of the decoder result not recognised" % b.name)
        elif bad:
            rep.violation(R4, b.name, "error-mapping", "%s: %s" % (b.name, bad), "%s:%s" % (b.file, b.line))
        else:
            rep.ok(R4, {"fn": b.name})
