"""annot.py -- the contract of BinArchive's annotation adders (write_string / write_pointer / write_label /
write_labels / write_c_string) that every format layer above the archive builds on.

The layers (C01 image round trip, C06/C07 text archives, C17 animation sets, C18 asset specs) store texts, pointers
and labels through these few functions and read them back through the reader side; their round-trip properties
quantify over *every* payload.  The structural part decided here is a necessary condition of all of them:

  * an adder called with a payload and a valid address stores exactly that payload: no path on which the payload
    is present ends without an error and without a store of it (payload-dropped);
  * whether it succeeds does not depend on the payload for the payload classes the layers produce (empty and
    non-empty text, any pointer destination up to and including the archive size): evaluated as a decision
    table over class representatives (rejects-payload);
  * an adder adds: it does not remove entries chosen by the payload being added (removes-by-payload).

A violation always names a witness: the path (by its branch conditions) or the call.  What is not recognised is
reported as inconclusive, never as a violation."""
from flow import fmt, walk, strip_refs
from summ import Evaluator, Unknown, Adt, Ref
import c04

ARCHIVE = "mila::bin_archive::BinArchive"
# name -> (field the payload lands in, payload is an Option, payload kind)
ADDERS = {
    "write_string": ("text", True, "str"),
    "write_pointer": ("pointers", True, "addr"),
    "write_label": ("labels", False, "str"),
    "write_labels": ("labels", False, "vec"),
    "write_c_string": ("cstrings", False, "str"),
}
REMOVALS = ("remove", "retain", "clear", "pop", "drain", "truncate", "swap_remove", "shift_remove", "remove_entry",
            "split_off", "dedup", "dedup_by", "dedup_by_key", "retain_mut", "swap_remove_entry", "shift_remove_entry",
            "take")
PAYLOAD = 3  # (self, address, payload)


def mentions(t, idx):
    return any(x[0] == "param" and x[1] == idx for x in walk(t))


def some_state(p):
    """'some' / 'none' / None for the Option payload on path p."""
    st = None
    for (bb, term, vals, neg, dty) in p.conds:
        if term[0] == "discr" and strip_refs(term[1])[0] == "param" and strip_refs(term[1])[1] == PAYLOAD:
            vs = set(vals)
            if neg:
                vs = {0, 1} - vs
            st = "some" if vs == {1} else ("none" if vs == {0} else st)
    return st


def payload_conds(p):
    out = []
    for (bb, term, vals, neg, dty) in p.conds:
        if term[0] == "discr" and strip_refs(term[1])[0] == "param":
            continue
        if mentions(term, PAYLOAD):
            out.append((term, vals, neg))
    return out


ADDERS_STD = ("insert", "push", "extend", "append", "push_back", "push_str", "extend_from_slice", "insert_full")


def store_evidence(p, field):
    for e in p.events:
        if e["k"] != "call" or not e["callee"]:
            continue
        if e["callee"].rsplit("::", 1)[-1] in ADDERS_STD + ("entry",) and any(mentions(a, PAYLOAD) for a in e["args"][1:]) and e["args"] and mentions(e["args"][0], 1):
            return True       # (`map.entry(payload)` makes the payload a key of the map)
    for (nm, fld, via) in c04.mutation_events(p):
        if fld == field and nm in ADDERS_STD:
            # the payload may have been moved into a local container first (vec![label])
            return True
    return False


def derived_discr(p):
    """conditions that test a value *computed from* the payload (`value.filter(..)`, `bucket.iter().any(|l| l == label)`)"""
    out = []
    for (bb, term, vals, neg, dty) in p.conds:
        inner = term[1] if term[0] == "discr" else term
        inner = strip_refs(inner)
        if inner[0] == "param":
            continue
        if mentions(term, PAYLOAD) and inner[0] == "call" and not inner[1].startswith("mila::") and "Try>::branch" not in inner[1]:
            out.append((term, vals, neg))
    return out


def contract(facts, rep, R, names):
    E = Evaluator(facts)
    views = {v.name: v for v in facts.views()}
    for nm in names:
        b = views.get(ARCHIVE + "::" + nm)
        field, optional, kind = ADDERS[nm]
        if b is None or b.argc != 3:
            rep.inconc(R, "archive adder %s not found with the (self, address, payload) signature" % nm)
            continue
        where = "%s:%s" % (b.file, b.line)
        try:
            paths = E.summary(b)
        except Unknown as u:
            rep.inconc(R, "%s: %s" % (nm, u))
            continue
        bad = False
        seen_store = False
        for p in paths:
            st = some_state(p) if optional else "some"
            if st == "none":
                continue
            # -- removals keyed on the payload -------------------------------------------------------
            for e in p.events:
                if e["k"] != "call" or not e["callee"]:
                    continue
                short = e["callee"].rsplit("::", 1)[-1]
                if short in REMOVALS and e["args"] and mentions(e["args"][0], 1):
                    keyed = any(mentions(a, PAYLOAD) for a in e["args"][1:])
                    if keyed:
                        rep.violation(R, b.name, "removes-by-payload:" + short,
                                      "%s calls %s on archive state with the payload it is adding as the selector: entries elsewhere in the archive that equal the new one are removed, so two places can no longer carry the same %s" % (
                                          nm, short, "label" if field == "labels" else "value"), where)
                        bad = True
                    elif c04.root_field(e["args"][0], False)[0] and c04.root_field(e["args"][0], False)[1] == field:
                        rep.inconc(R, "%s: %s on self.%s inside an adder" % (nm, short, field))
                        bad = True
            if p.ret is None:
                continue  # loop-back fragment
            err = c04.is_err_term(p.ret)
            stored = store_evidence(p, field)
            seen_store = seen_store or stored
            if err is True or stored:
                continue
            if st is None and not derived_discr(p):
                continue
            pc = payload_conds(p) or derived_discr(p)
            how = ("taken when %s is %s" % (fmt(pc[0][0])[:70], "false" if (0 in pc[0][1]) != pc[0][2] else "true")) if pc else "taken for every payload"
            rep.violation(R, b.name, "payload-dropped",
                          "%s has a path that is given a payload, ends without an error and never stores it (%s; ends in %s): the layers above count the cell as written" % (
                              nm, how, fmt(p.ret)[:50]), where)
            bad = True
        if not seen_store and not bad:
            rep.inconc(R, "%s: the store of the payload is not recognised" % nm)
            continue
        # -- decision table over payload classes -----------------------------------------------------
        S = 8
        if kind == "addr":
            reps = [("destination 0", 0), ("destination size-1", S - 1), ("destination = size", S)]
        elif kind == "str":
            reps = [("the empty string", Ref({"len": 0})), ("a 3-byte string", Ref({"len": 3}))]
            if nm == "write_c_string":
                reps = [("the empty string", {"len": 0}), ("a 3-byte string", {"len": 3})]
        else:
            reps = []
        undecided = None
        for desc, v in reps:
            pv = Adt("core::option::Option", "Some", (v,)) if optional else v
            try:
                outs = c04.final_outcomes(E, facts, b, [Ref({"data": {"len": S}}), 0, pv])
            except Unknown as u:
                undecided = "%s: %s" % (nm, u)
                continue
            if any(o["panic"] for o in outs):
                continue  # C04's business
            errs = [o for o in outs if o["err"] is True]
            oks = [o for o in outs if o["err"] is not True]
            if errs and any(o["definite"] for o in errs) and not any(o["definite"] for o in oks):
                rep.violation(R, b.name, "rejects-payload",
                              "%s(0, %s) on an %d-byte archive is rejected: the address is valid, the refusal depends on the payload, and the reader/writers above produce exactly such payloads" % (nm, desc, S), where)
                bad = True
            elif errs and not any(o["definite"] for o in oks):
                undecided = "%s: outcome for %s is not evaluable" % (nm, desc)
        if undecided and not bad:
            rep.inconc(R, undecided)
        elif not bad:
            rep.ok(R, {"adder": b.name, "field": field, "paths": len(paths), "payload_classes": [d for d, _ in reps]})
