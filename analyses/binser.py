"""Structural extraction shared by C01 / C02 / C06: loops, accumulators, affine forms, sort
specifications.  Works on mir.NamedView (user variables are atoms identified by local index)."""
from mir import fmt, walk, strip_refs, callee_names, norm, call_target
from flow import rpo

HANDLE_CALLS = ("deref", "deref_mut", "as_mut_slice", "as_slice", "as_mut", "as_ref", "borrow", "borrow_mut", "iter",
                "iter_mut", "into_iter", "get_mut", "index", "index_mut", "branch")


def root_of(t):
    """Root object of a place/handle term: ('local', i, name) | ('selffield', name) | ('param', i) | None."""
    while True:
        if not isinstance(t, tuple) or not t:
            return None
        tag = t[0]
        if tag in ("ref", "deref", "downcast", "index", "subslice", "cast"):
            t = t[1]
        elif tag == "field":
            base = strip_refs(t[1])
            if base[0] == "param" and base[1] == 1 and not isinstance(t[2], int):
                return ("selffield", t[2])
            t = t[1]
        elif tag == "call" and t[2] and t[1].rsplit("::", 1)[-1] in HANDLE_CALLS:
            t = t[2][0]
        elif tag == "local":
            return t
        elif tag == "param":
            return ("param", t[1])
        else:
            return None


def deep(nv, t, depth=0, limit=6, stop=()):
    """The term with named single-definition locals replaced by their definitions (bounded depth);
    locals whose index is in `stop` are kept as atoms."""
    if not isinstance(t, tuple) or not t or depth > limit:
        return t
    if t[0] == "local" and t[1] not in stop and len(nv.defs().get(t[1], [])) == 1 and not nv.partial_writes().get(t[1]):
        return deep(nv, nv.definition(t[1]), depth + 1, limit, stop)
    return tuple(deep(nv, x, depth + 1, limit, stop) if isinstance(x, tuple) else x for x in t)


def const_fold(z):
    """Value of a constant integer expression (checked-arithmetic wrappers and casts included), or None."""
    while isinstance(z, tuple) and z and z[0] in ("ref", "deref", "cast"):
        z = z[1]
    if not isinstance(z, tuple) or not z:
        return None
    if z[0] == "const" and isinstance(z[1], int) and not isinstance(z[1], bool):
        return z[1]
    if z[0] == "field" and z[3] == 0 and z[1][0] == "bin" and z[1][1].endswith("WithOverflow"):
        z = ("bin", z[1][1].replace("WithOverflow", ""), z[1][2], z[1][3])
    if z[0] == "bin":
        a_, b_ = const_fold(z[2]), const_fold(z[3])
        if a_ is None or b_ is None:
            return None
        try:
            return {"Add": a_ + b_, "Sub": a_ - b_, "Mul": a_ * b_, "Div": a_ // b_ if b_ else None, "Rem": a_ % b_ if b_ else None,
                    "Shr": a_ >> b_, "Shl": a_ << b_, "BitAnd": a_ & b_, "BitOr": a_ | b_}.get(z[1])
        except (ValueError, OverflowError):
            return None
    return None


def rpo_index(body):
    return {b: i for i, b in enumerate(rpo(body))}


def for_loops(nv):
    """All `for` style loops: head block has a call to Iterator::next on an iterator local.
    Returns list of dicts {head, blocks, src (term iterated), src_root, next_bb, item}."""
    out = []
    loops = nv.loops()
    for head, blocks in loops.items():
        info = {"head": head, "blocks": blocks, "src": None, "src_root": None, "item": None, "kind": "while"}
        # the next() call is in the head block or one of its first successors inside the loop
        cand = [head] + [s for s in nv.succs(head) if s in blocks]
        for bb in cand:
            t = nv.blocks[bb]["term"]
            if t["k"] == "call":
                n = callee_names(t)
                nm = n[1] or n[0] or ""
                if nm.endswith("::next") and "Iterator" in nm:
                    it = nv.term_of_operand(t["args"][0])
                    info["kind"] = "for"
                    info["next_bb"] = bb
                    info["next_name"] = nm
                    info["iter"] = it
                    # the iterator local's definition: into_iter(src)
                    src = it
                    r = strip_refs(it)
                    info["src"] = r
                    info["src_root"] = root_of(r)
                    break
        out.append(info)
    return out


def enclosing_loops(loops, bb):
    return [l for l in loops if bb in l["blocks"]]


def mutations_of(nv, local_idx):
    """Calls receiving a mutable handle to local `local_idx` (e.g. push(&mut v, x)), plus direct
    index-assign writes; list of (bb, callee short name, args terms, terminator)."""
    out = []
    for bb, t in nv.calls():
        n = callee_names(t)
        nm = n[1] or n[0] or ""
        if not t["args"]:
            continue
        a0 = nv.term_of_operand(t["args"][0])
        if a0[0] == "ref" and a0[2]:
            r = root_of(a0)
            if r and r[0] == "local" and r[1] == local_idx:
                sh = nm.rsplit("::", 1)[-1]
                if sh in ("deref_mut", "index_mut", "get_mut", "iter_mut", "as_mut_slice"):
                    continue
                out.append((bb, sh, [nv.term_of_operand(a) for a in t["args"]], t))
    return out


_INT_BITS = {"u8": 8, "i8": 8, "u16": 16, "i16": 16, "u32": 32, "i32": 32, "u64": 64, "i64": 64, "usize": 64, "isize": 64, "u128": 128, "i128": 128}


def affine(t, nv=None, expand=True, _depth=0, narrow_opaque=False):
    """Linearise an integer term: returns ({atom_term: coeff}, const) or None when not affine.
    Atoms are normed non-arithmetic sub-terms.  Named single-definition locals are expanded."""
    t0 = t
    if t[0] in ("ref", "deref"):
        return affine(t[1], nv, expand, _depth, narrow_opaque)
    if t[0] == "cast":
        # a narrowing cast is not the identity on its operand: it is an opaque value of its own
        to_, from_ = (t[2] if len(t) > 2 else None), (t[3] if len(t) > 3 else None)
        if narrow_opaque and to_ in _INT_BITS and from_ in _INT_BITS and _INT_BITS[to_] < _INT_BITS[from_]:
            inner = t[1]
            while inner[0] in ("ref", "deref"):
                inner = inner[1]
            if not (inner[0] == "const"):
                return ({norm(t0): 1}, 0)
        return affine(t[1], nv, expand, _depth, narrow_opaque)
    if t[0] == "const" and isinstance(t[1], int) and not isinstance(t[1], bool):
        return ({}, t[1])
    if t[0] == "call" and t[1].rsplit("::", 1)[-1] in ("into", "from") and len(t[2]) == 1 and ("convert::Into" in t[1] or "convert::From" in t[1]):
        return affine(t[2][0], nv, expand, _depth, narrow_opaque)
    if t[0] == "field" and t[3] == 0 and t[1][0] == "bin" and t[1][1].endswith("WithOverflow"):
        return affine(("bin", t[1][1].replace("WithOverflow", ""), t[1][2], t[1][3]), nv, expand, _depth, narrow_opaque)
    if t[0] == "bin":
        op = t[1].replace("WithOverflow", "").replace("Unchecked", "")
        a = affine(t[2], nv, expand, _depth, narrow_opaque)
        b = affine(t[3], nv, expand, _depth, narrow_opaque)
        if a is None or b is None:
            return None
        if op in ("Add", "Sub"):
            sgn = 1 if op == "Add" else -1
            d = dict(a[0])
            for k, v in b[0].items():
                d[k] = d.get(k, 0) + sgn * v
            return ({k: v for k, v in d.items() if v != 0}, a[1] + sgn * b[1])
        if op == "Mul":
            if not a[0]:
                a, b = b, a
            if not b[0]:
                return ({k: v * b[1] for k, v in a[0].items()}, a[1] * b[1])
            return None
        if op == "Shl" and not b[0]:
            return ({k: v << b[1] for k, v in a[0].items()}, a[1] << b[1])
        if op == "Div" and not b[0] and b[1] != 0:
            # keep exact only when every coefficient divides
            if all(v % b[1] == 0 for v in a[0].values()) and a[1] % b[1] == 0:
                return ({k: v // b[1] for k, v in a[0].items()}, a[1] // b[1])
            return ({("div", norm(t[2]), b[1]): 1}, 0)
        if op in ("Rem", "BitAnd", "BitOr", "BitXor", "Shr"):
            return ({norm(t0): 1}, 0)       # an opaque value: one atom
        return None
    if t[0] == "local" and nv is not None and expand and _depth < 8:
        ds = nv.defs().get(t[1], [])
        if len(ds) == 1 and ds[0][2] == "assign":
            d = nv.definition(t[1])
            lty = nv.local_ty(t[1])
            dd = d
            while dd[0] == "cast":
                dd = dd[1]
            arithmetic = dd[0] in ("bin", "const", "local") or (dd[0] == "field" and dd[1][0] == "bin")
            if arithmetic and lty in ("usize", "u32", "u64", "i32", "u16", "u8", "isize", "i64"):
                r = affine(d, nv, expand, _depth + 1, narrow_opaque)
                if r is not None:
                    return r
    return ({norm(t0): 1}, 0)


def expand_len_locals(nv, a):
    """a named local holding `x.len()` (possibly divided / cast) stands for that length when x does not change
    between the definition and the end of the function"""
    if a is None:
        return None
    out, c = {}, a[1]
    for k, v in a[0].items():
        rep_ = None
        if k[0] == "local" and len(nv.defs().get(k[1], [])) == 1:
            dblk = nv.defs()[k[1]][0][0]
            d_ = nv.definition(k[1])
            sub = affine(d_, nv)
            if sub is not None and sub[0] and all((kk[0] == "call" and kk[1].endswith("::len")) or (kk[0] == "div" and kk[1][0] == "call" and kk[1][1].endswith("::len")) for kk in sub[0]):
                stable = True
                for kk in sub[0]:
                    call = kk if kk[0] == "call" else kk[1]
                    r_ = root_of(call[2][0]) if call[2] else None
                    if r_ and r_[0] == "local":
                        reach = nv.reachable_blocks(dblk) - {dblk}
                        if any(bb in reach for bb, sh, args, t in mutations_of(nv, r_[1]) if sh in ("push", "extend", "insert", "append", "resize", "extend_from_slice", "truncate", "clear", "pop", "remove")):
                            stable = False
                if stable:
                    rep_ = sub
        if rep_ is None:
            out[k] = out.get(k, 0) + v
        else:
            c += v * rep_[1]
            for kk, vv in rep_[0].items():
                out[kk] = out.get(kk, 0) + v * vv
    return ({k: v for k, v in out.items() if v}, c)


def fmt_affine(a):
    if a is None:
        return "non-affine"
    parts = ["%s*%s" % (v, fmt(k)[:60]) if v != 1 else fmt(k)[:60] for k, v in sorted(a[0].items(), key=lambda kv: fmt(kv[0]))]
    if a[1] or not parts:
        parts.append(hex(a[1]))
    return " + ".join(parts)


def len_atom(atom):
    """If atom is len(X): returns root_of(X) else None."""
    if atom[0] == "call" and atom[1].rsplit("::", 1)[-1] == "len" and atom[2]:
        return root_of(atom[2][0])
    return None


# ---------------------------------------------------------------------------------------------
# sort specifications

def field_path(t):
    """(param index, [field indices], via_calls) of a term derived from a closure parameter."""
    path = []
    via = False
    while True:
        if t[0] in ("ref", "deref", "cast"):
            t = t[1]
        elif t[0] == "field":
            path.append(t[3])
            t = t[1]
        elif t[0] == "call" and t[2]:
            via = True
            # take the argument that leads to a parameter
            nxt = None
            for a in t[2]:
                if any(x[0] == "param" for x in walk(a)):
                    nxt = a
            if nxt is None:
                return None
            t = nxt
        elif t[0] == "param":
            return (t[1], list(reversed(path)), via)
        else:
            return None


def comparator_spec(cb):
    """Components of a comparator closure (a, b) -> Ordering: list of dicts
    {path, dir ('asc'|'desc'), via} in significance order, or None if not understood."""
    from flow import enum_paths, PathLimit
    try:
        ps = enum_paths(cb)
    except PathLimit:
        return None
    rets = [p for p in ps if p.end == "ret"]
    if len(rets) != 1:
        return None
    t = rets[0].ret

    def subst_upvars(x, caps):
        """a nested closure's term with its captured variables replaced by what the enclosing closure captured"""
        if not isinstance(x, tuple) or not x:
            return x
        if x[0] == "field" and isinstance(x[3], int):
            base = x[1]
            while base[0] in ("ref", "deref"):
                base = base[1]
            if base[0] == "param" and base[1] == 1 and x[3] < len(caps):
                return caps[x[3]]
        return tuple(subst_upvars(y, caps) if isinstance(y, tuple) else y for y in x)

    def comps(t, flip=False):
        if t[0] == "call":
            sh = t[1].rsplit("::", 1)[-1]
            if sh == "then_with" and len(t[2]) == 2:
                a = comps(t[2][0], flip)
                c = t[2][1]
                while c[0] in ("ref", "deref"):
                    c = c[1]
                if a is None or c[0] != "agg" or c[1] != "closure":
                    return None
                cb2 = cb.facts.bodies.get(c[2])
                if cb2 is None:
                    return None
                try:
                    r2 = [p for p in enum_paths(cb2) if p.end == "ret"]
                except PathLimit:
                    return None
                if len(r2) != 1:
                    return None
                b = comps(subst_upvars(r2[0].ret, c[4]), flip)
                if b is None:
                    return None
                return a + b
            if sh in ("then",) and len(t[2]) == 2:
                a = comps(t[2][0], flip)
                b = comps(t[2][1], flip)
                if a is None or b is None:
                    return None
                return a + b
            if sh == "reverse" and len(t[2]) == 1:
                return comps(t[2][0], not flip)
            if sh in ("cmp", "partial_cmp", "total_cmp") and len(t[2]) == 2:
                # tuples compare lexicographically: (a.1, a.0).cmp(&(b.1, b.0))
                ta, tb = t[2][0], t[2][1]
                while ta[0] in ("ref", "deref"):
                    ta = ta[1]
                while tb[0] in ("ref", "deref"):
                    tb = tb[1]
                if ta[0] == "agg" and tb[0] == "agg" and ta[1] == "tuple" and tb[1] == "tuple" and len(ta[4]) == len(tb[4]) and ta[4]:
                    out = []
                    for xa, xb in zip(ta[4], tb[4]):
                        c = comps(("call", "cmp", (xa, xb)), flip)
                        if c is None:
                            return None
                        out += c
                    return out
                pa = field_path(t[2][0])
                pb = field_path(t[2][1])
                if pa is None or pb is None or pa[1] != pb[1] or pa[0] == pb[0]:
                    return None
                asc = pa[0] < pb[0]
                if flip:
                    asc = not asc
                return [{"path": pa[1], "dir": "asc" if asc else "desc", "via": pa[2] or pb[2]}]
            if sh == "unwrap" and t[2]:
                return comps(t[2][0], flip)
        return None
    return comps(t)


def sort_calls(nv):
    """Every slice sort in the body: list of dicts {bb, kind, target_root, closure_body, spec, stable}."""
    out = []
    for bb, t in nv.calls():
        n = callee_names(t)
        nm = n[1] or n[0] or ""
        sh = nm.rsplit("::", 1)[-1]
        if "<impl [T]>::" not in nm or not sh.startswith("sort"):
            continue
        a0 = nv.term_of_operand(t["args"][0])
        d = {"bb": bb, "kind": sh, "target": root_of(a0), "stable": "unstable" not in sh, "spec": None, "closure": None, "line": t["line"]}
        if sh in ("sort", "sort_unstable"):
            d["spec"] = [{"path": [], "dir": "asc", "via": False}]
        elif len(t["args"]) > 1:
            c = nv.term_of_operand(t["args"][1])
            if c[0] == "agg" and c[1] == "closure":
                cb = nv.facts.bodies.get(c[2])
                d["closure"] = cb
                if cb is not None and sh in ("sort_by", "sort_unstable_by"):
                    d["spec"] = comparator_spec(cb)
                elif cb is not None and sh in ("sort_by_key", "sort_unstable_by_key", "sort_by_cached_key"):
                    from flow import enum_paths
                    ps = [p for p in enum_paths(cb) if p.end == "ret"]
                    if len(ps) == 1:
                        fp = field_path(ps[0].ret)
                        if fp is not None:
                            d["spec"] = [{"path": fp[1], "dir": "asc", "via": fp[2]}]
        out.append(d)
    return out


HASH_ITER = ("std::collections::HashMap::<K, V, S, A>::iter", "std::collections::HashMap::<K, V, S, A>::keys",
             "std::collections::HashMap::<K, V, S, A>::values", "std::collections::HashMap::<K, V, S, A>::drain",
             "std::collections::HashMap::<K, V, S, A>::iter_mut", "std::collections::HashMap::<K, V, S, A>::values_mut",
             "std::collections::HashMap::<K, V, S, A>::into_keys", "std::collections::HashMap::<K, V, S, A>::into_values",
             "std::collections::HashSet::<T, S, A>::iter", "std::collections::HashSet::<T, S, A>::drain")


def hash_order_source(t):
    """Does term t (an iterator or a collection built from one) take its order from a HashMap/HashSet?
    Returns the offending sub-term or None."""
    for x in walk(t):
        if x[0] == "call":
            nm = x[1]
            if nm in HASH_ITER:
                return x
            if "IntoIterator>::into_iter" in nm and ("collections::HashMap<" in nm or "collections::HashSet<" in nm):
                return x
    return None


# ---------------------------------------------------------------------------------------------
# polynomial normal form (for index arithmetic that multiplies two program quantities)

def poly(t, nv=None, _depth=0):
    """{monomial: coeff} where a monomial is a sorted tuple of normed atom terms (() = constant), or None."""
    if t[0] in ("ref", "deref", "cast"):
        return poly(t[1], nv, _depth)
    if t[0] == "const" and isinstance(t[1], int) and not isinstance(t[1], bool):
        return {(): t[1]} if t[1] else {}
    if t[0] == "field" and t[3] == 0 and t[1][0] == "bin" and t[1][1].endswith("WithOverflow"):
        return poly(("bin", t[1][1].replace("WithOverflow", ""), t[1][2], t[1][3]), nv, _depth)
    if t[0] == "bin":
        op = t[1].replace("WithOverflow", "").replace("Unchecked", "")
        if op in ("Add", "Sub", "Mul"):
            a = poly(t[2], nv, _depth)
            b = poly(t[3], nv, _depth)
            if a is None or b is None:
                return None
            if op in ("Add", "Sub"):
                out = dict(a)
                for m, c in b.items():
                    out[m] = out.get(m, 0) + (c if op == "Add" else -c)
                return {m: c for m, c in out.items() if c}
            out = {}
            for m1, c1 in a.items():
                for m2, c2 in b.items():
                    m = tuple(sorted(m1 + m2, key=repr))
                    out[m] = out.get(m, 0) + c1 * c2
            return {m: c for m, c in out.items() if c}
        if op == "Shl" and t[3][0] == "const":
            a = poly(t[2], nv, _depth)
            return None if a is None else {m: c << t[3][1] for m, c in a.items()}
    if t[0] == "local" and nv is not None and _depth < 8:
        ds = nv.defs().get(t[1], [])
        if len(ds) == 1 and ds[0][2] == "assign":
            d = nv.definition(t[1])
            dd = d
            while dd[0] == "cast":
                dd = dd[1]
            if dd[0] == "field" and dd[1][0] == "bin":
                dd = ("bin", dd[1][1].replace("WithOverflow", ""), dd[1][2], dd[1][3])
            if dd[0] == "bin" and dd[1].replace("WithOverflow", "") in ("Add", "Sub", "Mul") or dd[0] in ("const", "local"):
                return poly(d, nv, _depth + 1)
    return {(norm(t),): 1}


def fmt_poly(p):
    if p is None:
        return "non-polynomial"
    parts = []
    for m, c in sorted(p.items(), key=lambda kv: repr(kv[0])):
        parts.append(("%d" % c) + "".join("*" + fmt(a)[:28] for a in m))
    return " + ".join(parts) or "0"
