"""C07 — text archive is an insertion-ordered map with symmetric newline escaping."""
import re
from mir import fmt, walk, strip_refs, callee_names
from flow import enum_paths, PathLimit

EXPLANATION = ("Type of TextArchive.entries; who-may-call rule over every use of that field in the crate "
               "(order-preserving IndexMap operations only, with a positive control); shape of delete/set; "
               "writers of the dirty flag; escape constants of set/get are mutual inverses.")
ASSUMPTIONS = ["indexmap's documented contract (insert keeps the slot of an existing key, shift_remove preserves order)"]

TA = "mila::text_archive::TextArchive"

ORDER_PRESERVING = {
    "new", "with_capacity", "default", "insert", "insert_full", "entry", "get", "get_mut", "get_full", "get_index",
    "get_index_of", "get_key_value", "contains_key", "shift_remove", "shift_remove_entry", "shift_remove_full",
    "shift_remove_index", "retain", "iter", "iter_mut", "keys", "values", "values_mut", "len", "is_empty",
    "first", "last", "clone", "extend", "into_iter", "fmt", "eq", "capacity", "reserve", "shrink_to_fit", "index",
    "get_index_mut", "get_full_mut", "get_key_value_mut", "index_mut", "first_mut", "last_mut", "get_range", "as_slice",
}
ENTRY_OK = {"or_default", "or_insert", "or_insert_with", "or_insert_with_key", "key", "and_modify", "index"}
ORDER_BREAKING = {
    "swap_remove", "swap_remove_entry", "swap_remove_full", "swap_remove_index", "remove", "remove_entry", "pop",
    "sort_keys", "sort_by", "sort_unstable_keys", "sort_unstable_by", "sort_by_cached_key", "sorted_by", "reverse",
    "swap_indices", "move_index", "shift_insert", "insert_before", "insert_sorted", "drain", "split_off", "truncate",
    "clear", "first_entry", "last_entry", "get_index_entry", "binary_search_keys", "sort_by_key", "sorted_unstable_by",
    "into_keys", "into_values", "append", "splice", "insert_sorted_by", "replace_index", "get_index_mut2",
}


def entries_uses(facts, field="entries", adt=TA):
    """Every call in the crate one of whose arguments denotes (a handle derived from) the field."""
    out = []
    for b in facts.bodies.values():
        for bb, t in b.calls():
            n = callee_names(t)
            nm = n[1] or n[0]
            for a in t["args"]:
                term = b.term_of_operand(a)
                hit = None
                for sub in walk(term):
                    if sub[0] == "field" and sub[2] == field and len(sub) > 4 and sub[4] == adt:
                        hit = sub
                        break
                if hit is not None:
                    # is the field itself the argument, or something derived through another call?
                    direct = strip_refs(term) == hit
                    out.append((b, bb, t, nm, term, direct))
                    break
    return out


def field_stores(facts, field, adt=TA):
    """Every store to `field` of `adt` (assignments and aggregate constructions)."""
    out = []
    for b in facts.views():
        for bi, si, s in b.stmts():
            if s["k"] != "assign":
                continue
            lhs = s["lhs"]
            for e in lhs["p"]:
                if isinstance(e, dict) and e.get("name") == field and e.get("adt") == adt:
                    last = lhs["p"][-1]
                    whole = isinstance(last, dict) and last.get("name") == field
                    out.append((b, bi, s, "store" if whole else "store-into", b.term_of_rvalue(s["rv"])))
            rv = s["rv"]
            if rv["k"] == "agg" and rv.get("ak") == "adt" and rv.get("def") == adt:
                names = rv.get("field_names", [])
                if field in names:
                    op = rv["fields"][names.index(field)]
                    out.append((b, bi, s, "construct", b.term_of_operand(op)))
    return out


def built_map(facts, b, v):
    """Where does the map stored into `entries` at construction come from?  ('ok' | 'bad' | 'skip' | '?', why)"""
    v = strip_refs(v)
    fresh = lambda c: c[0] == "call" and "indexmap::IndexMap" in c[1] and c[1].rsplit("::", 1)[-1] in ("new", "with_capacity", "default")
    if fresh(v) or (v[0] == "call" and v[1].endswith("Default>::default")):
        return "ok", "IndexMap::new()"
    names, _ = facts.known()
    if v[0] == "param":
        return ("skip", "") if b.name not in names else ("?", "")
    if v[0] in ("var", "local"):
        l = v[1]
        defs = b.defs().get(l, [])
        if not defs:
            return "?", ""
        for (bi, si, kind, payload) in defs:
            dt = b.term_of_rvalue(payload["rv"]) if kind == "assign" else b.term_of_call(payload, bi)
            if not fresh(strip_refs(dt)):
                return "?", ""
        # a fresh map filled locally: every operation on it must keep insertion order
        for bb, t in b.calls():
            nm = callee_names(t)[1] or callee_names(t)[0] or ""
            for a in t["args"]:
                pl = a.get("m") or a.get("c")
                term = b.term_of_operand(a)
                r = strip_refs(term)
                while r[0] in ("deref", "ref"):
                    r = strip_refs(r[1])
                if r[0] in ("var", "local") and r[1] == l or (pl and not pl["p"] and pl["l"] == l):
                    sh = nm.rsplit("::", 1)[-1]
                    if "indexmap::" in nm and sh in ORDER_BREAKING:
                        return "bad", "filled locally, then %s" % sh
                    if not (("indexmap::" in nm and sh in ORDER_PRESERVING) or sh in ("drop", "drop_in_place")):
                        return "?", ""
        return "ok", "a map created empty and filled by order-preserving inserts"
    return "?", ""


def run(facts, rep, ctx):
    R1 = rep.rule("R07.1", "TextArchive.entries is an insertion-ordered IndexMap<String, String>", floor=1)
    R2 = rep.rule("R07.2", "every operation on entries anywhere in the crate is order-preserving (who-may-call)", floor=7)
    R3 = rep.rule("R07.3", "delete_message removes by shifting; set_message upserts in place and sets dirty on every path", floor=3)
    R4 = rep.rule("R07.4", "dirty flag: constructed false, set true only by set_message", floor=2)
    R5 = rep.rule("R07.5", "escape constants of set_message / get_message are mutual inverses (backslash-n <-> U+000A)", floor=2)
    R6 = rep.rule("R07.6", "lookups read entries with the caller's key; get_entries hands out a shared reference", floor=3)
    adt = facts.adts.get(TA)
    if not adt:
        rep.inconc(R1, "TextArchive ADT missing")
        return
    ety = None
    for f in adt["variants"][0]["fields"]:
        if f["name"] == "entries":
            ety = f["ty"]
            if f["pub"]:
                rep.violation(R1, TA, "entries-public", "TextArchive.entries is public: callers could reorder it", "%s:%s" % (adt["file"], adt["line"]))
    if ety is None:
        rep.inconc(R1, "TextArchive has no field `entries`")
        return
    if re.match(r"indexmap::IndexMap<std::string::String, std::string::String(, .*)?>$", ety):
        rep.ok(R1, {"type": ety})
    else:
        rep.violation(R1, TA, "entries-type", "TextArchive.entries has type %s: iteration order is not insertion order" % ety, "%s:%s" % (adt["file"], adt["line"]))

    # ---- R07.2 who-may-call ---------------------------------------------------------------
    uses = entries_uses(facts)
    for b, bb, t, nm, term, direct in uses:
        short = (nm or "?").rsplit("::", 1)[-1]
        where = "%s:%s" % (b.file, t["line"])
        key = "%s@%s" % (short, "direct" if direct else "derived")
        if nm is None:
            rep.inconc(R2, "%s passes entries to an indirect call" % b.name)
            continue
        is_indexmap = nm.startswith("indexmap::") or "indexmap::" in nm
        if direct:
            if is_indexmap and short in ORDER_BREAKING:
                rep.violation(R2, b.name, key, "calls %s on TextArchive.entries: this can reorder or drop other keys" % nm, where)
            elif is_indexmap and short in ORDER_PRESERVING:
                rep.ok(R2, {"fn": b.name, "op": nm})
            elif nm.startswith("<std::option::Option") or short in ("deref", "clone", "fmt", "eq", "borrow", "as_ref"):
                rep.ok(R2, {"fn": b.name, "op": nm})
            else:
                # &mut handed to something we have no contract for
                mutable = term[0] == "ref" and term[2]
                if mutable and is_indexmap:
                    rep.inconc(R2, "%s passes &mut entries to %s, an IndexMap operation this rule has no contract for" % (b.name, nm))
                elif mutable:
                    rep.violation(R2, b.name, key, "passes &mut entries to %s, which is not a known order-preserving operation" % nm, where)
                else:
                    rep.ok(R2, {"fn": b.name, "op": nm, "shared": True})
        else:
            # derived handle (Entry, Option<&mut V>, iterator …): only flag known order-breaking sinks
            if short in ORDER_BREAKING and is_indexmap:
                rep.violation(R2, b.name, key, "calls %s on a handle derived from TextArchive.entries" % nm, where)
    # whole-field replacement outside construction
    for b, bi, s, how, val in field_stores(facts, "entries"):
        where = "%s:%s" % (b.file, s["line"])
        if how == "construct":
            v = val
            verdict, why = built_map(facts, b, v)
            if verdict == "ok":
                rep.ok(R2, {"fn": b.name, "op": "construct with " + why})
            elif verdict == "skip":
                rep.count("constructions_in_new_helpers_seen_through_their_callers")
            elif verdict == "bad":
                rep.violation(R2, b.name, "construct", "TextArchive built with entries = %s (%s)" % (fmt(val), why), where)
            else:
                rep.inconc(R2, "%s builds a TextArchive with entries = %s, whose order is not decided" % (b.name, fmt(val)[:80]))
        elif how == "store":
            rep.violation(R2, b.name, "replace", "entries is replaced wholesale by %s" % fmt(val), where)
    # positive control: the rule must be able to see an order-breaking op at all
    pc = sum(1 for b in facts.bodies.values() for bb, t in b.calls()
             if (callee_names(t)[1] or callee_names(t)[0] or "").startswith("indexmap::IndexMap"))
    rep.count("indexmap_calls_seen_in_crate", pc)
    if pc < 5:
        rep.inconc(R2, "only %d IndexMap calls visible in the crate: callee resolution may be broken" % pc)

    # ---- R07.3 shapes ----------------------------------------------------------------------
    def paths_of(name):
        b = facts.body(TA + "::" + name)
        if b is None or not b.pub:
            rep.inconc(R3, "anchor TextArchive::%s missing" % name)
            return None, None
        try:
            return b, enum_paths(b)
        except PathLimit:
            rep.inconc(R3, name + ": too many paths")
            return b, None

    b, paths = paths_of("delete_message")
    if paths:
        bad = None
        unk = None
        rets = [p for p in paths if p.end == "ret"]
        if not rets:
            unk = "no returning path"
        for p in rets:
            rm = [e for e in p.events if e["k"] == "call" and e["callee"] and "indexmap::IndexMap" in e["callee"]
                  and e["callee"].rsplit("::", 1)[-1] in ("shift_remove", "shift_remove_entry", "shift_remove_full", "shift_remove_index")]
            if not rm:
                # a no-op is right when the caller's key was looked up and is absent
                absent = False
                for (bb_, term, vals, neg, dty) in p.conds:
                    look = [x for x in walk(term) if x[0] == "call" and "indexmap::IndexMap" in x[1] and x[1].rsplit("::", 1)[-1] in ("get_index_of", "get", "contains_key", "get_full")
                            and len(x[2]) > 1 and strip_refs(x[2][1])[0] == "param" and strip_refs(x[2][1])[1] == 2]
                    if look and ((term[0] == "discr" and ((vals == (0,)) != neg)) or (term[0] == "call" and ((vals == (0,)) != neg))):
                        absent = True
                if absent:
                    continue
                if any(e["k"] == "call" and e["callee"] and "indexmap::" in e["callee"] and e["args"] and e["args"][0][0] == "ref" and e["args"][0][2] for e in p.events):
                    unk = "a path changes entries without a recognised order-preserving removal"
                else:
                    bad = "a path returns without an order-preserving removal on entries"
                continue
            for e in rm:
                k = strip_refs(e["args"][1])
                by_index = e["callee"].endswith("shift_remove_index")
                if by_index:
                    if not any(x[0] == "call" and x[1].endswith("get_index_of") and len(x[2]) > 1 and strip_refs(x[2][1])[0] == "param" and strip_refs(x[2][1])[1] == 2 for x in walk(e["args"][1])):
                        unk = "removes by an index that is not get_index_of(caller's key)"
                elif not (k[0] == "param" and k[1] == 2):
                    bad = "removes key %s instead of the caller's key" % fmt(e["args"][1])
                tgt = strip_refs(e["args"][0])
                if not (tgt[0] == "field" and tgt[2] == "entries"):
                    bad = "removes from %s" % fmt(e["args"][0])
        if bad:
            rep.violation(R3, b.name, "delete-shape", "delete_message: " + bad, "%s:%s" % (b.file, b.line))
        elif unk:
            rep.inconc(R3, "delete_message: " + unk)
        else:
            rep.ok(R3, {"fn": b.name, "paths": len(paths)})

    b, paths = paths_of("set_message")
    stored_ok = None
    if paths:
        bad = None
        unk = None
        if not [p for p in paths if p.end == "ret"]:
            unk = "no returning path"
        for p in paths:
            if p.end != "ret":
                continue        # loop-cut prefixes and panicking arms (`expect`) are not results
            dirty = [e for e in p.events if e["k"] == "write" and e["place"][0] == "field" and e["place"][2] == "dirty"]
            adt_ = facts.adts.get(TA) or {}
            dfield = [f_ for f_ in (adt_.get("variants") or [{}])[0].get("fields", []) if f_.get("name") == "dirty"]
            if not dfield or dfield[0].get("ty") != "bool":
                # the flag is no longer a bool called `dirty` (an enum state, a counter): how "modified" is recorded
                # is not read by this rule
                unk = unk or "the modified flag is not a bool field named dirty"
                continue
            if not dirty or not all(e["val"] == ("const", True, "bool") for e in dirty):
                bad = "a path returns without setting dirty = true"
            ups = []
            for e in p.events:
                if e["k"] == "call" and e["callee"] and "indexmap::" in e["callee"]:
                    sh = e["callee"].rsplit("::", 1)[-1]
                    if sh in ("insert", "insert_full"):
                        ups.append(("insert", e))
                    if sh in ("or_default", "or_insert", "or_insert_with"):
                        ups.append(("entry", e))
            if not ups:
                # overwrite in place through get_mut / get_index_mut(get_index_of(key))
                inplace = [e for e in p.events if e["k"] == "call" and e["callee"] and "indexmap::" in e["callee"] and e["callee"].rsplit("::", 1)[-1] in ("get_mut", "get_index_mut", "get_full_mut")]
                slot_w = [w for w in p.events if w["k"] == "write" and any(x[0] == "call" and "indexmap::" in x[1] and x[1].rsplit("::", 1)[-1] in ("get_mut", "get_index_mut", "get_full_mut") for x in walk(w["place"]))]
                if inplace and slot_w and any(x[0] == "param" and x[1] == 2 for e in inplace for x in walk(e["args"][1])):
                    stored_ok = slot_w[-1]["val"]
                    continue
                if inplace or slot_w:
                    unk = "a path updates entries in a way that is not recognised"
                else:
                    bad = "a path returns without an upsert on entries"
                continue
            kind, e = ups[-1]
            if kind == "entry":
                # the slot handle must be assigned the message
                slot_writes = [w for w in p.events if w["k"] == "write" and w["place"][0] == "deref" and w["place"][1] == e["val"]]
                if not slot_writes:
                    bad = "the entry slot is never assigned"
                else:
                    stored_ok = slot_writes[-1]["val"]
                ent = e["args"][0]
                if not (ent[0] == "call" and ent[1].endswith("::entry")):
                    bad = "or_default is not applied to entries.entry(key)"
                else:
                    key = ent[2][1]
                    if not any(x[0] == "param" and x[1] == 2 for x in walk(key)):
                        bad = "entry key %s is not derived from the caller's key" % fmt(key)
            else:
                key = e["args"][1]
                if not any(x[0] == "param" and x[1] == 2 for x in walk(key)):
                    bad = "insert key %s is not derived from the caller's key" % fmt(key)
                stored_ok = e["args"][2]
        if bad:
            rep.violation(R3, b.name, "set-shape", "set_message: " + bad, "%s:%s" % (b.file, b.line))
        elif unk:
            rep.inconc(R3, "set_message: " + unk)
        else:
            rep.ok(R3, {"fn": b.name, "paths": len(paths)})
            rep.ok(R3, {"fn": b.name, "dirty": "set on every path"})

    # ---- R07.4 dirty writers ------------------------------------------------------------------
    for bb, bi, s, how, val in field_stores(facts, "dirty"):
        where = "%s:%s" % (bb.file, s["line"])
        short = bb.name.rsplit("::", 1)[-1]
        if how == "construct":
            if val == ("const", False, "bool"):
                rep.ok(R4, {"fn": bb.name, "dirty": False})
            else:
                rep.violation(R4, bb.name, "construct-dirty", "a TextArchive is constructed with dirty = %s" % fmt(val), where)
        else:
            if bb.name == TA + "::set_message" and val == ("const", True, "bool"):
                rep.ok(R4, {"fn": bb.name, "dirty": True})
            else:
                rep.violation(R4, bb.name, "dirty-writer", "%s writes dirty = %s (only set_message may set it, to true)" % (short, fmt(val)), where)
    # parsed archives must obtain their flag from the constructor: no local TextArchive aggregate elsewhere
    for bname in ("from_archive", "from_bytes"):
        fb = facts.body(TA + "::" + bname)
        if fb is None:
            rep.inconc(R4, bname + " missing")
            continue
        calls = [callee_names(t)[1] or callee_names(t)[0] for _, t in fb.calls()]
        if TA + "::set_message" in calls:
            rep.violation(R4, fb.name, "parse-sets-dirty", "%s calls set_message: a parsed archive would be dirty" % bname, "%s:%s" % (fb.file, fb.line))

    # ---- R07.5 escape constants ------------------------------------------------------------------
    def replace_calls(body):
        out = []
        todo = [body] + facts.closures_of(body)
        for bd in todo:
            for bb, t in bd.calls():
                nm = callee_names(t)[1] or callee_names(t)[0] or ""
                if nm.endswith("<impl str>::replace") or nm.endswith("str::replace"):
                    args = [bd.term_of_operand(a) for a in t["args"]]
                    out.append((bd, t, args))
        return out

    def lit(t):
        t = strip_refs(t)
        if t[0] == "const":
            v = t[1]
            if isinstance(v, int) and not isinstance(v, bool):
                return chr(v)
            return v
        return None

    sb = facts.body(TA + "::set_message")
    gb = facts.body(TA + "::get_message")
    if sb is None or gb is None:
        rep.inconc(R5, "set_message/get_message missing")
    else:
        sr = replace_calls(sb)
        gr = replace_calls(gb)
        # transformations that cannot be the inverse of the unescape step, whatever surrounds them
        LOSSY = ("lines", "trim", "trim_end", "trim_start", "trim_matches", "split_whitespace", "to_lowercase", "to_uppercase",
                 "escape_default", "escape_debug", "escape_unicode", "to_ascii_lowercase", "to_ascii_uppercase", "strip_suffix", "strip_prefix", "truncate", "pop")
        lossy_hit = False
        for bd, who in ((gb, "get_message"), (sb, "set_message")):
            for b2 in [bd] + facts.closures_of(bd):
                for bb, t in b2.calls():
                    nm = callee_names(t)[1] or callee_names(t)[0] or ""
                    sh = nm.rsplit("::", 1)[-1]
                    if sh in LOSSY and ("str" in nm or "String" in nm):
                        lossy_hit = True
                        rep.violation(R5, bd.name, "lossy:" + sh, "%s passes the message through `%s`, which loses characters (e.g. a trailing newline or carriage return): get(set(x)) != x" % (who, nm), "%s:%s" % (b2.file, t["line"]))
        # a hand-written join: the separator goes between pieces, i.e. before every piece but the first -- decided by
        # the piece's index, not by whether anything has been produced yet (empty leading pieces produce nothing)
        from flow import dom_guards as _dg, cond_truth as _ct
        for bd, who in ((gb, "get_message"), (sb, "set_message")):
            for bb, t in bd.calls():
                nm = callee_names(t)[1] or ""
                if nm.rsplit("::", 1)[-1] not in ("push_str", "push") or "String" not in nm or len(t["args"]) != 2:
                    continue
                sep = lit(bd.term_of_operand(t["args"][1]))
                if sep not in ("\\n", "\n"):
                    continue
                recv = strip_refs(bd.term_of_operand(t["args"][0]))
                for (a_, s_, c_) in _dg(bd, bb):
                    term_ = c_[0]
                    inner = term_[2] if term_[0] == "un" and term_[1] == "Not" else term_
                    if inner[0] == "call" and inner[1].rsplit("::", 1)[-1] == "is_empty" and inner[2] and strip_refs(inner[2][0]) == recv:
                        lossy_hit = True
                        rep.violation(R5, bd.name, "separator-by-emptiness", "%s joins the pieces of the message with %r, and decides whether a piece is the first by asking whether the output is still empty: after an empty first piece (a message that starts with the separator) it still is, so that separator is dropped and get(set(x)) != x" % (who, sep), "%s:%s" % (bd.file, t["line"]))
        if lossy_hit:
            pass
        elif len(sr) != 1 or len(gr) != 1:
            rep.inconc(R5, "expected one str::replace in each of set_message (%d) and get_message (%d)" % (len(sr), len(gr)))
        else:
            (sbd, st, sargs), (gbd, gt, gargs) = sr[0], gr[0]
            p1, r1 = lit(sargs[1]), lit(sargs[2])
            p2, r2 = lit(gargs[1]), lit(gargs[2])
            ok = (p1 == "\\n" and r1 == "\n")
            if ok:
                rep.ok(R5, {"set": [p1, r1]})
            else:
                rep.violation(R5, sb.name, "set-escape", "set_message replaces %r by %r (expected backslash-n by U+000A)" % (p1, r1), "%s:%s" % (sb.file, st["line"]))
            if p2 == r1 and r2 == p1 and p2 == "\n":
                rep.ok(R5, {"get": [p2, r2]})
            else:
                rep.violation(R5, gb.name, "get-escape", "get_message replaces %r by %r: not the inverse of set_message (%r -> %r)" % (p2, r2, p1, r1), "%s:%s" % (gb.file, gt["line"]))
            # the value stored is the replaced string, the source of the replace is the caller's message
            src = strip_refs(sargs[0])
            if not (src[0] == "param" and src[1] == 3):
                rep.violation(R5, sb.name, "set-source", "set_message unescapes %s instead of the caller's message" % fmt(sargs[0]), "%s:%s" % (sb.file, st["line"]))
            if stored_ok is not None:
                sv = stored_ok
                if not (sv[0] == "call" and sv[1].endswith("replace")):
                    rep.violation(R5, sb.name, "set-stored", "set_message stores %s, not the unescaped message" % fmt(sv), "%s:%s" % (sb.file, sb.line))
            # get: the replace input must be the looked-up value (closure parameter) and the lookup must use the key
            gsrc = gargs[0]
            if not any(x[0] == "param" and x[1] == 2 for x in walk(gsrc)):
                rep.violation(R5, gb.name, "get-source", "get_message escapes %s, not the stored value" % fmt(gsrc), "%s:%s" % (gb.file, gt["line"]))

    # ---- R07.6 lookups ---------------------------------------------------------------------------
    for name, op in (("get_message", "get"), ("has_message", "contains_key")):
        fb = facts.body(TA + "::" + name)
        if fb is None:
            rep.inconc(R6, name + " missing")
            continue
        found = False
        for bb, t in fb.calls():
            nm = callee_names(t)[1] or callee_names(t)[0] or ""
            if "indexmap::IndexMap" in nm and nm.rsplit("::", 1)[-1] in (op, "get", "contains_key", "get_full", "get_key_value", "get_index_of"):
                tgt = strip_refs(fb.term_of_operand(t["args"][0]))
                k = strip_refs(fb.term_of_operand(t["args"][1]))
                if tgt[0] == "field" and tgt[2] == "entries" and k[0] == "param" and k[1] == 2:
                    found = True
        if found:
            rep.ok(R6, {"fn": fb.name})
        else:
            rep.violation(R6, fb.name, "lookup", "%s does not look the caller's key up in entries" % name, "%s:%s" % (fb.file, fb.line))
    ge = facts.body(TA + "::get_entries")
    if ge is None:
        rep.inconc(R6, "get_entries missing")
    else:
        rt = ge.local_ty(0)
        if rt.startswith("&indexmap::IndexMap") and not rt.startswith("&mut"):
            rep.ok(R6, {"fn": ge.name, "returns": rt})
        else:
            rep.violation(R6, ge.name, "returns", "get_entries returns %s: callers could reorder the map" % rt, "%s:%s" % (ge.file, ge.line))
    # any other public method handing out &mut IndexMap / &mut TextArchive internals
    for fb in facts.bodies.values():
        if fb.name.startswith(TA + "::") and fb.pub and fb.kind == "AssocFn":
            rt = fb.local_ty(0)
            if "&mut indexmap::IndexMap" in rt:
                rep.violation(R6, fb.name, "hands-out-mut", "%s returns %s" % (fb.name, rt), "%s:%s" % (fb.file, fb.line))
