"""C20 — texture containers: field-offset tables, magic rejection, fallible payload reads, record assembly."""
import re
import struct
from mir import fmt, walk, strip_refs, norm, callee_names, call_target
from binser import for_loops, enclosing_loops, rpo_index, affine, fmt_affine, poly
from flow import enum_paths, PathLimit, cond_truth, guards, control_deps

EXPLANATION = ("For every header / record constructor of the CTPK, BCH and CGFX readers the sequence of fallible "
               "stream reads and relative seeks is turned into a table field -> (offset, width, endianness) and "
               "compared with the reference layout; absolute seek targets are compared as affine forms over header "
               "fields; TPL's declarative layout is read from the struct definitions and discriminants; wrong magic "
               "is rejected before anything else is read; payload and names are obtained only through fallible "
               "reads, never by indexing the input; each Texture takes width/height/name/pixels from its own record.")
ASSUMPTIONS = ["reference layouts frozen from today's tree after comparison with the 3dbrew/SPICA/GX descriptions",
               "input-driven u32 additions in these readers are not findings for C20 (conforming files are consistent)",
               "binread's derive reads fields in declaration order"]

W = {"u8": 1, "u16": 2, "u32": 4, "u64": 8, "f32": 4}

REF = {
    "mila::ctpk::Header::new": {"magic_id": (0, 4), "version": (4, 2), "texture_count": (6, 2), "texture_ptr": (8, 4), "texture_length": (12, 4),
                                "hash_ptr": (16, 4), "texture_short_info_ptr": (20, 4), "#size": 32},
    "mila::ctpk::TextureInfo::new": {"filename_ptr": (0, 4), "texture_length": (4, 4), "texture_ptr": (8, 4), "pixel_format": (12, 4), "width": (16, 2),
                                     "height": (18, 2), "mipmap_level": (20, 1), "texture_type": (21, 1), "cube_dir": (22, 2), "bitmap_size_ptr": (24, 4),
                                     "file_time": (28, 4), "#size": 32},
    "mila::bch::Header::new": {"magic_id": (0, 4), "backward_compatibility": (4, 1), "forward_compatibility": (5, 1), "version": (6, 2), "contents_address": (8, 4),
                               "strings_address": (12, 4), "commands_address": (16, 4), "raw_data_address": (20, 4), "relocation_address": (24, 4),
                               "contents_length": (28, 4), "strings_length": (32, 4), "commands_length": (36, 4), "raw_data_length": (40, 4),
                               "relocation_length": (44, 4), "uninit_data_length": (48, 4), "uninit_commands_length": (52, 4), "#size": 56,
                               "#conditional": ["raw_ext_address", "raw_ext_length"]},
    "mila::bch::ContentTable::new": {"textures_ptr_table_offset": (0, 4), "textures_ptr_table_entries": (4, 4), "#size": 8},
    "mila::cgfx::Header::new": {"magic_id": (0, 4), "byte_order_mark": (4, 2), "struct_size": (6, 2), "revision": (8, 4), "file_size": (12, 4), "entry_count": (16, 4), "#size": 20},
    "mila::cgfx::DATA::new": {"magic_id": (0, 4), "struct_size": (4, 4), "#size": 8, "#loop": {"entry_count": (0, 4), "offset": (4, 4), "#size": 8, "#count": 16}},
    "mila::cgfx::DICT::new": {"magic_id": (0, 4), "struct_size": (4, 4), "entry_count": (8, 4), "#size": 28, "#loop": {"filename_offset": (8, 4), "object_offset": (12, 4), "#size": 16}},
    "mila::cgfx::TXOB::new": {"#loop": {"flags": (0, 4), "magic_id": (4, 4), "filename_offset": (12, 4), "height": (24, 4), "width": (28, 4), "mipmap_levels": (40, 4),
                                        "pixel_format": (52, 4), "size": (68, 4), "texture_offset": (72, 4), "#size": 76}},
}
BCH_LOOP = [("goto", "table+4*entry"), ("read", 4, "dest"), ("goto", "dest+contents"), ("read", 4, "tex_unit0_commands_offset"), ("skip", 24),
            ("read", 4, "name_offset"), ("goto", "strings+name"), ("goto", "commands"), ("read", 2, "height"), ("read", 2, "width"), ("skip", 12),
            ("read", 4, "data_offset"), ("skip", 4), ("read", 4, "pixel_format"), ("goto", "data")]
TPL_REF = {
    "mila::tpl::Tpl": [("image_count", "u32"), ("images", "std::vec::Vec<tpl::TplImageTableItem>")],
    "mila::tpl::TplImageTableItem": [("image", "tpl::TplImage"), ("palette", "tpl::TplPalette")],
    "mila::tpl::TplPalette": [("entry_count", "u16"), ("unpacked", "u8"), ("padding", "u8"), ("format", "tpl::TplPaletteFormat"), ("palette_data", "std::vec::Vec<u8>")],
    "mila::tpl::TplImage": [("height", "u16"), ("width", "u16"), ("format", "tpl::TplImageFormat"), ("image_data", "std::vec::Vec<u8>"), ("wrap_s", "u32"), ("wrap_t", "u32"),
                            ("min_filter", "u32"), ("mag_filter", "u32"), ("lod_bias", "f32"), ("edge_lod_enable", "u8"), ("min_lod", "u8"), ("max_lod", "u8"), ("unpacked", "u8")],
}
TPL_ENUMS = {
    "mila::tpl::TplImageFormat": {"I4": 0, "I8": 1, "IA4": 2, "IA8": 3, "RGB565": 4, "RGB5A3": 5, "RGBA8": 6, "CI4": 8, "CI8": 9, "CI14X2": 10, "CMPR": 14},
    "mila::tpl::TplPaletteFormat": {"IA8": 0, "RGB565": 1, "RGB5A3": 2},
}


def stream_events(body):
    """Ordered cursor events of a body (rpo): read / skip / goto, with the loop they are in."""
    idx = rpo_index(body)
    loops = for_loops(body)
    out = []
    cd = None
    for bb, t in sorted(body.calls(), key=lambda x: idx.get(x[0], 1 << 30)):
        if bb not in idx:
            continue
        nm = callee_names(t)[1] or callee_names(t)[0] or ""
        lp = enclosing_loops(loops, bb)
        lh = lp[0]["head"] if lp else None
        m = re.search(r"ReadBytesExt::read_(u8|u16|u32|u64)$", nm)
        if m:
            ga = (call_target(t) or {}).get("gargs", [])
            en = "le" if any("LittleEndian" in g for g in ga) else ("be" if any("BigEndian" in g for g in ga) else None)
            # a read is conditional when the success exit (or, inside a loop, the back edge) can be reached without it
            if lh is None:
                targets = ok_blocks(body)
            else:
                targets = [tl for (tl, hd) in body.back_edges() if hd == lh]
            conditional = bool(targets) and not all(body.dominates(bb, x) for x in targets)
            out.append({"k": "read", "w": W[m.group(1)], "endian": en, "bb": bb, "loop": lh, "line": t["line"], "conditional": conditional})
        elif nm.endswith("Seek>::seek"):
            a = body.term_of_operand(t["args"][1])
            if a[0] == "agg" and a[3] == "Current" and a[4][0][0] == "const":
                out.append({"k": "skip", "n": a[4][0][1], "bb": bb, "loop": lh, "line": t["line"]})
            elif a[0] == "agg" and a[3] == "Start":
                out.append({"k": "goto", "to": a[4][0], "bb": bb, "loop": lh, "line": t["line"]})
            else:
                out.append({"k": "seek?", "to": a, "bb": bb, "loop": lh, "line": t["line"]})
        elif nm.endswith("Cursor::<T>::set_position") or nm.endswith("::seek_relative") or nm.endswith("BufRead::consume"):
            a = strip_refs(body.term_of_operand(t["args"][1]))
            while a[0] == "cast":
                a = strip_refs(a[1])
            if a[0] == "field" and a[3] == 0 and a[1][0] == "bin" and a[1][1].endswith("WithOverflow"):
                a = ("bin", a[1][1].replace("WithOverflow", ""), a[1][2], a[1][3])
            is_pos = lambda z: strip_refs(z)[0] == "call" and (strip_refs(z)[1].endswith("Cursor::<T>::position") or strip_refs(z)[1].endswith("::stream_position"))
            if not nm.endswith("set_position") and a[0] == "const":
                out.append({"k": "skip", "n": a[1], "bb": bb, "loop": lh, "line": t["line"]})
            elif a[0] == "bin" and a[1] == "Add" and ((is_pos(a[2]) and strip_refs(a[3])[0] == "const") or (is_pos(a[3]) and strip_refs(a[2])[0] == "const")):
                k_ = strip_refs(a[3])[1] if is_pos(a[2]) else strip_refs(a[2])[1]
                out.append({"k": "skip", "n": k_, "bb": bb, "loop": lh, "line": t["line"]})
            elif nm.endswith("set_position") and not any(is_pos(z) for z in walk(a)):
                out.append({"k": "goto", "to": a, "bb": bb, "loop": lh, "line": t["line"]})
            else:
                out.append({"k": "seek?", "to": a, "bb": bb, "loop": lh, "line": t["line"]})
        elif nm.endswith("Read>::read_exact") or nm.endswith("BufRead::read_until"):
            out.append({"k": "payload", "how": nm.rsplit("::", 1)[-1], "bb": bb, "loop": lh, "line": t["line"]})
    return out


def ok_blocks(body):
    """Blocks that build the success value `_0 = Ok(..)`."""
    out = []
    for bi, si, s in body.stmts():
        if s["k"] == "assign" and s["lhs"]["l"] == 0 and not s["lhs"]["p"] and s["rv"]["k"] == "agg" and s["rv"].get("variant") == "Ok":
            out.append(bi)
    return out


def value_fields(t, prefix):
    """Struct fields (of ADTs under `prefix`) a value is computed from, not descending into index operands."""
    out = []
    st = [t]
    while st:
        x = st.pop()
        if not isinstance(x, tuple) or not x:
            continue
        if x[0] == "call" and "ops::Index" in x[1] and x[2]:
            st.append(x[2][0])
            continue
        if x[0] == "index":
            st.append(x[1])
            continue
        if x[0] == "call" and x[1].endswith("Iterator>::next"):
            # an element of an iteration: how the collection was built does not flow into the element's value
            continue
        if x[0] == "field" and isinstance(x[2], str) and len(x) > 4 and x[4] and str(x[4]).startswith(prefix):
            out.append((x[2], x[4]))
        for y in x[1:]:
            if isinstance(y, tuple):
                if y and isinstance(y[0], str):
                    st.append(y)
                else:
                    st.extend(z for z in y if isinstance(z, tuple))
    return out


def field_of_read(body):
    """read-call block -> struct field name it ends up in (through aggregates built in the body)."""
    m = {}
    for bi, si, s in body.stmts():
        if s["k"] == "assign" and s["rv"]["k"] == "agg" and s["rv"].get("ak") == "adt" and s["rv"].get("def", "").startswith("mila::"):
            for nme, op in zip(s["rv"].get("field_names", []), s["rv"]["fields"]):
                t = body.term_of_operand(op)
                terms = [t]
                for x in walk(t):
                    if x[0] == "var":
                        for (bi2, si2, kind, payload) in body.defs().get(x[1], []):
                            terms.append(body.term_of_rvalue(payload["rv"]) if kind == "assign" else body.term_of_call(payload, bi2))
                for tt in terms:
                    for x in walk(tt):
                        if x[0] == "call" and re.search(r"read_(u8|u16|u32|u64)$", x[1]) and len(x) > 3:
                            m.setdefault(x[3], nme)
    return m


def table_of(body):
    """{'top': {field: (offset, width, endian, conditional)}, 'size': n, 'loop': {...}}"""
    evs = stream_events(body)
    fmap = field_of_read(body)
    res = {"top": {}, "loops": {}, "events": evs}
    off = 0
    loff = {}
    for e in evs:
        tgt = res["top"] if e["loop"] is None else res["loops"].setdefault(e["loop"], {"fields": {}, "size": 0})
        cur = off if e["loop"] is None else loff.get(e["loop"], 0)
        if e["k"] == "read":
            if not e["conditional"]:
                nm = fmap.get(e["bb"], "#unnamed@%d" % cur)
                (tgt if e["loop"] is None else tgt["fields"])[nm] = (cur, e["w"], e["endian"])
                cur += e["w"]
            else:
                nm = fmap.get(e["bb"], "#unnamed")
                res.setdefault("conditional", []).append(nm)
        elif e["k"] == "skip":
            cur += e["n"]
        elif e["k"] == "goto":
            cur = 0
        elif e["k"] == "seek?":
            res["unknown"] = "the cursor is moved by %s at line %s" % (fmt(e["to"])[:50], e["line"])
        if e["loop"] is None:
            off = cur
        else:
            loff[e["loop"]] = cur
            tgt["size"] = cur
    res["size"] = off
    return res


def run(facts, rep, ctx):
    R1 = rep.rule("R20.1", "field-offset tables of the CTPK/BCH/CGFX constructors and TPL's declarative layout equal the reference layouts", floor=90)
    R2 = rep.rule("R20.2", "a wrong magic number is rejected before anything else is read (BCH, CGFX, TPL)", floor=3)
    R3 = rep.rule("R20.3", "payload and names are read through fallible stream reads only; the input slice is never indexed", floor=4)
    R4 = rep.rule("R20.4", "each Texture takes width, height, name and pixels from its own record; absolute seek targets", floor=8)
    for fn, ref in sorted(REF.items()):
        b = facts.ibody(fn, unroll=False)      # record loops are read as loops
        if b is None:
            rep.inconc(R1, "constructor %s not found" % fn)
            continue
        where = "%s:%s" % (b.file, b.line)
        tb = table_of(b)
        if tb.get("unknown"):
            rep.inconc(R1, "%s: %s; its field offsets are not decided" % (fn, tb["unknown"]))
            continue
        top = {k: v for k, v in ref.items() if not k.startswith("#")}
        for f, (o, w) in sorted(top.items(), key=lambda kv: kv[1]):
            got = tb["top"].get(f)
            if got and got[0] == o and got[1] == w and got[2] in ("le", None) == (w > 1 or got[2] is None) or (got and got[0] == o and got[1] == w and (w == 1 or got[2] == "le")):
                rep.ok(R1, {"struct": fn, "field": f, "offset": o, "width": w})
            else:
                rep.violation(R1, fn, "field:" + f, "%s.%s is read at offset %s width %s %s; reference: offset %d width %d little-endian" % (
                    fn.rsplit("::", 2)[-2], f, got[0] if got else None, got[1] if got else None, got[2] if got else "", o, w), where)
        extra = [f for f in tb["top"] if f not in top and not f.startswith("#unnamed")]
        # a constructor whose reference is one record per loop trip, rewritten to build a single record (the loop
        # moved to its caller): the fields it reads at top level *are* the record
        record_at_top = "#loop" in ref and not top and not tb["loops"] and bool(tb["top"])
        if record_at_top:
            extra = []
        for f in extra:
            rep.violation(R1, fn, "extra:" + f, "%s reads an extra unconditional field %s at %s" % (fn, f, tb["top"][f]), where)
        if "#size" in ref and "#loop" not in ref or ("#size" in ref and ref.get("#loop") is not None and top):
            if tb["size"] == ref["#size"] or ("#loop" in ref and tb["size"] >= 0):
                if tb["size"] == ref["#size"]:
                    rep.ok(R1, {"struct": fn, "size": tb["size"]})
                else:
                    # structures with a trailing loop: size of the fixed part
                    fixed = max([o + w for (o, w, e) in tb["top"].values()] + [0])
                    skips = ref["#size"]
                    rep.ok(R1, {"struct": fn, "fixed_part": fixed}) if fixed <= ref["#size"] else rep.violation(R1, fn, "size", "%s fixed part is %d bytes, reference %d" % (fn, fixed, ref["#size"]), where)
            else:
                rep.violation(R1, fn, "size", "%s consumes %d bytes, reference %d" % (fn, tb["size"], ref["#size"]), where)
        if "#conditional" in ref:
            if sorted(tb.get("conditional", [])) == sorted(ref["#conditional"]):
                rep.ok(R1, {"struct": fn, "conditional_fields": ref["#conditional"]})
            else:
                rep.violation(R1, fn, "conditional", "%s reads %s conditionally, reference %s" % (fn, tb.get("conditional"), ref["#conditional"]), where)
        if "#loop" in ref:
            lref = ref["#loop"]
            loops = list(tb["loops"].values())
            if record_at_top:
                loops = [{"fields": tb["top"], "size": tb["size"]}]
            if len(loops) != 1:
                rep.inconc(R1, "%s has %d record loops, reference 1: which one reads the records is not decided" % (fn, len(loops)))
            else:
                lp = loops[0]
                for f, (o, w) in sorted(((k, v) for k, v in lref.items() if not k.startswith("#")), key=lambda kv: kv[1]):
                    got = lp["fields"].get(f)
                    if got and got[0] == o and got[1] == w and got[2] == "le":
                        rep.ok(R1, {"struct": fn, "record_field": f, "offset": o, "width": w})
                    else:
                        rep.violation(R1, fn, "record:" + f, "%s record field %s is read at %s; reference offset %d width %d LE" % (fn, f, got, o, w), where)
                if lp["size"] == lref["#size"]:
                    rep.ok(R1, {"struct": fn, "record_size": lp["size"]})
                else:
                    rep.violation(R1, fn, "record-size", "%s record consumes %d bytes, reference %d" % (fn, lp["size"], lref["#size"]), where)
                if "#count" in lref:
                    cnt = None
                    for l2 in for_loops(b):
                        if l2["kind"] == "for" and l2["src"] is not None:
                            for x in walk(l2["src"]):
                                if x[0] == "agg" and x[2] and x[2].endswith("ops::Range") and x[4][1][0] == "const":
                                    cnt = x[4][1][1]
                    if cnt == lref["#count"]:
                        rep.ok(R1, {"struct": fn, "records": cnt})
                    elif cnt is None:
                        rep.inconc(R1, "%s: the number of records read was not recognised (reference %d)" % (fn, lref["#count"]))
                    else:
                        rep.violation(R1, fn, "record-count", "%s reads %s records, reference %d" % (fn, cnt, lref["#count"]), where)
    tpl_layout(facts, rep, R1)
    self_relative(facts, rep, R1)
    bch_sequence(facts, rep, R1, R4)
    magic(facts, rep, R2)
    fallible(facts, rep, R3)
    length_minus(facts, rep, R3)
    bpp_rounding_rule(facts, rep, R3)
    assembly(facts, rep, R4)
    R5 = rep.rule("R20.5", "TPL payload sizes: GX block dimensions, size = align(h,bh)*align(w,bw)*bytes/pixel, same axis order when re-linearised", floor=15)
    tpl_sizes(facts, rep, R5)
    payload_len_rule(facts, rep, R3)
    tpl_pipeline_rule(facts, rep, R5)


def payload_len_rule(facts, rep, R3):
    """The buffer a texture payload is read into with read_exact has the record's own size: capping it by what is
    left of the file turns a truncated payload from an I/O error into a short buffer handed to the decoder."""
    for fn in ("mila::ctpk::read", "mila::bch::read", "mila::cgfx::parse_textures", "mila::cgfx::read"):
        b = facts.body(fn)
        if b is None:
            continue
        for bb, t in b.calls():
            nm = callee_names(t)[1] or ""
            if not nm.endswith("Read>::read_exact") or len(t["args"]) < 2:
                continue
            buf = b.term_of_operand(t["args"][1])
            sizes = [x[2][1] for x in walk(buf) if x[0] == "call" and x[1].endswith("vec::from_elem") and len(x[2]) == 2]
            sizes += [x[2][1] for x in walk(buf) if x[0] == "call" and x[1].endswith("::resize") and len(x[2]) >= 2]
            if not sizes:
                continue
            sz = sizes[0]
            caps = [x[1].rsplit("::", 1)[-1] for x in walk(sz) if x[0] == "call" and x[1].rsplit("::", 1)[-1] in ("min", "clamp", "saturating_sub", "checked_sub") and
                    any(y[0] == "call" and y[1].rsplit("::", 1)[-1] in ("len", "position", "stream_position") or y[0] == "param" for y in walk(x))]
            recs = [f for f, a in value_fields(sz, "mila::")]
            where = "%s:%s" % (b.file, t["line"])
            if caps:
                rep.violation(R3, fn, "payload-capped", "%s reads the payload into a buffer whose length is capped by the bytes left in the file (%s): a payload cut short is no longer reported by read_exact" % (fn, caps[0]), where)
            elif recs or any(x[0] == "call" and "ReadBytesExt::read_" in x[1] for x in walk(sz)):
                rep.ok(R3, {"fn": fn, "payload_len_from": sorted(set(recs)) or "header words read from the stream"})
            else:
                rep.inconc(R3, "%s: where the payload buffer's length comes from was not recognised" % fn)


def bpp_rounding_rule(facts, rep, R3):
    """The bytes-per-pixel table has fractional entries (ETC1 and L4 are half a byte per pixel).  The payload length
    is bpp x width x height: rounding the table value *before* the multiplication (ceil / floor / round / trunc on
    it, or a cast of it to an integer) doubles or zeroes the length of every 4-bit texture."""
    BPP = "mila::texture_decoder::get_pixel_format_bpp"
    g = facts.body(BPP)
    if g is None:
        return
    frac = []
    for blk in g.blocks:
        for st in blk["stmts"]:
            if st["k"] == "assign":
                t = g.term_of_rvalue(st["rv"])
                if t[0] == "const" and len(t) > 2 and t[2] == "f32" and isinstance(t[1], int):
                    v = struct.unpack("<f", struct.pack("<I", t[1] & 0xFFFFFFFF))[0]
                    if v != int(v):
                        frac.append(v)
    if not frac:
        return
    for b in facts.bodies.values():
        if not b.name.startswith("mila::") or b.name == BPP:
            continue
        if not any((callee_names(t)[1] or "") == BPP for bb, t in b.calls()):
            continue

        def direct(t):
            t = strip_refs(t)
            return t[0] == "call" and t[1] == BPP
        hit = None
        for blk in b.blocks:
            for st in blk["stmts"]:
                if st["k"] != "assign":
                    continue
                for x in walk(b.term_of_rvalue(st["rv"])):
                    if x[0] == "cast" and len(x) > 4 and x[4] == "FloatToInt" and direct(x[1]):
                        hit = ("a cast to %s" % x[2], blk)
        for bb, t in b.calls():
            nm = callee_names(t)[1] or ""
            if "f32" in nm and nm.rsplit("::", 1)[-1] in ("ceil", "floor", "round", "trunc", "round_ties_even") and t["args"] and direct(b.term_of_operand(t["args"][0])):
                hit = (nm.rsplit("::", 1)[-1] + "()", None)
                line = t["line"]
        if hit:
            rep.violation(R3, b.name, "payload-size-rounded",
                          "%s applies %s to the bytes-per-pixel value before multiplying by width x height: the table has the fractional entry %s (4-bit formats), so such a texture's payload is read with the wrong length -- twice too long hits the end of a conforming file, zero decodes nothing" % (
                              b.name.rsplit("::", 1)[-1], hit[0], frac[0]), "%s:%s" % (b.file, b.line))


def crop_contract(facts, rep, R5):
    """texture_utils::crop(input, stride, width, height) returns `height` rows of `width` bytes: every returning path
    has built its result from row slices inside the row loop; no path hands back the input as a whole."""
    cb = facts.body("mila::texture_utils::crop")
    if cb is None:
        rep.inconc(R5, "texture_utils::crop not found")
        return
    where = "%s:%s" % (cb.file, cb.line)
    try:
        paths = [p for p in enum_paths(cb) if p.end == "ret"]
    except PathLimit:
        rep.inconc(R5, "crop: too many paths")
        return
    whole = None
    for p in paths:
        r = strip_refs(p.ret) if p.ret else None
        for x in walk(r) if r else []:
            if x[0] == "call" and x[1].rsplit("::", 1)[-1] in ("to_vec", "to_owned", "from", "into", "clone", "into_vec") and x[2]:
                a0 = strip_refs(x[2][0])
                while a0[0] == "deref":
                    a0 = strip_refs(a0[1])
                if a0[0] == "param" and a0[1] == 1:
                    whole = "; ".join(fmt(c[1])[:50] for c in p.conds[-2:]) or "unconditionally"
    # the row loop: a range over 0..height whose body appends input[r*stride .. r*stride + width]
    rows = False
    for lp in for_loops(cb):
        if lp["kind"] == "for" and lp["src"] is not None and any(x[0] == "param" and x[1] == 4 for x in walk(lp["src"])):
            for bb in lp["blocks"]:
                t = cb.blocks[bb]["term"]
                if t["k"] == "call" and "ops::Index" in (callee_names(t)[1] or "") and len(t["args"]) == 2:
                    base = strip_refs(cb.term_of_operand(t["args"][0]))
                    while base[0] == "deref":
                        base = strip_refs(base[1])
                    if base[0] == "param" and base[1] == 1:
                        rows = True
    if whole is not None:
        rep.violation(R5, cb.name, "crop-returns-input", "texture_utils::crop returns its whole input on a path (%s): rows beyond `height` (block padding) are not trimmed there" % whole, where)
    elif rows:
        rep.ok(R5, {"fn": cb.name, "contract": "height rows of width bytes taken from row slices"})
    else:
        rep.inconc(R5, "crop: the row loop was not recognised")


def tpl_pipeline_rule(facts, rep, R5):
    """TPL: block_to_sequential gets the block-aligned width and height; what is decoded is always crop's result."""
    crop_contract(facts, rep, R5)
    ex = facts.body("mila::tpl::Tpl::extract_textures")
    if ex is None:
        return
    where = "%s:%s" % (ex.file, ex.line)

    def aligned_of(t):
        """('width'|'height'|None, block component) when t is align(<that dimension>, <block dims component>)"""
        z = strip_refs(t)
        while z[0] == "cast":
            z = strip_refs(z[1])
        if z[0] == "call" and z[1].endswith("texture_utils::align") and len(z[2]) == 2:
            dims = set(f for f, a in value_fields(z[2][0], "mila::tpl::Tpl") if f in ("width", "height"))
            c = strip_refs(z[2][1])
            while c[0] == "cast":
                c = strip_refs(c[1])
            comp = c[3] if (c[0] == "field" and isinstance(c[3], int) and strip_refs(c[1])[0] == "call" and strip_refs(c[1])[1].endswith("block_dimensions")) else None
            if len(dims) == 1:
                return (list(dims)[0], comp)
            return (None, comp)
        dims = set(f for f, a in value_fields(z, "mila::tpl::Tpl") if f in ("width", "height"))
        if len(dims) == 1 and not any(x[0] == "call" and x[1].endswith("align") for x in walk(z)):
            return ("raw:" + list(dims)[0], None)
        return (None, None)
    for bb, t in ex.calls():
        nm = callee_names(t)[1] or ""
        if nm.endswith("texture_utils::block_to_sequential") and len(t["args"]) >= 5:
            aw = aligned_of(ex.term_of_operand(t["args"][1]))
            ah = aligned_of(ex.term_of_operand(t["args"][2]))
            for what, got, dim, comp in (("width", aw, "width", 0), ("height", ah, "height", 1)):
                if got == (dim, comp):
                    rep.ok(R5, {"fn": ex.name, "block_to_sequential_" + what: "align(%s, block.%d)" % (dim, comp)})
                elif got[0] is not None and str(got[0]).startswith("raw:"):
                    rep.violation(R5, ex.name, "unaligned-" + what, "block_to_sequential receives the image's own %s where the block-aligned %s is specified: the blocks of a partial last block row/column are dropped" % (got[0][4:], what), where)
                elif got[0] is None:
                    rep.inconc(R5, "block_to_sequential: the %s argument was not recognised" % what)
                else:
                    rep.violation(R5, ex.name, "aligned-" + what, "block_to_sequential receives align(%s, block.%s) as its %s" % (got[0], got[1], what), where)
        if nm.endswith("decode_indexed") and t["args"]:
            # the indices handed to the palette decoder: every definition must be crop's result
            a = t["args"][1] if len(t["args"]) > 1 else t["args"][0]
            terms = [ex.term_of_operand(a)]
            seen = set()
            bypass = None
            n_crop = 0
            while terms:
                z = strip_refs(terms.pop())
                if z[0] == "call" and z[1].endswith("texture_utils::crop"):
                    n_crop += 1
                    continue
                if z[0] == "call" and z[1].rsplit("::", 1)[-1] in ("deref", "as_slice", "as_ref", "borrow", "clone", "to_vec", "into") and z[2]:
                    terms.append(z[2][0])
                    continue
                if z[0] == "var" and z[1] not in seen:
                    seen.add(z[1])
                    for (bi2, si2, kind, payload) in ex.defs().get(z[1], []):
                        terms.append(ex.term_of_rvalue(payload["rv"]) if kind == "assign" else ex.term_of_call(payload, bi2))
                    continue
                if z[0] in ("field", "downcast") :
                    terms.append(z[1])
                    continue
                if z[0] == "call" and z[1].endswith("Try>::branch") and z[2]:
                    terms.append(z[2][0])
                    continue
                if z[0] == "call" and z[1].endswith("block_to_sequential"):
                    bypass = "the output of block_to_sequential"
                else:
                    bypass = bypass or ("?" + fmt(z)[:40])
            if bypass and not bypass.startswith("?"):
                rep.violation(R5, ex.name, "crop-bypassed", "decode_indexed can receive %s without it having gone through crop: the padding rows / columns added by block alignment are decoded as pixels" % bypass, where)
            elif bypass:
                rep.inconc(R5, "decode_indexed: the origin of its input was not recognised (%s)" % bypass[1:])
            elif n_crop:
                rep.ok(R5, {"fn": ex.name, "decode_indexed_input": "crop(..) on every path"})


def tpl_layout(facts, rep, R1):
    for name, ref in sorted(TPL_REF.items()):
        a = facts.adts.get(name)
        if not a:
            rep.inconc(R1, "TPL struct %s not found" % name)
            continue
        got = [(f["name"], f["ty"]) for f in a["variants"][0]["fields"]]
        if got == ref:
            for f in ref:
                rep.ok(R1, {"struct": name, "field": f[0], "type": f[1]})
        else:
            diff = [(g, r) for g, r in zip(got + [None] * len(ref), ref + [None] * len(got)) if g != r]
            rep.violation(R1, name, "tpl-fields", "%s declares %s where the TPL layout has %s" % (name, [d[0] for d in diff[:3]], [d[1] for d in diff[:3]]), "%s:%s" % (a["file"], a["line"]))
    for name, ref in sorted(TPL_ENUMS.items()):
        a = facts.adts.get(name)
        if not a:
            rep.inconc(R1, "TPL enum %s not found" % name)
            continue
        got = {v["name"]: v["discr"] for v in a["variants"]}
        if got == ref:
            rep.ok(R1, {"enum": name, "codes": ref})
        else:
            rep.violation(R1, name, "tpl-codes", "%s codes %s, GX codes %s" % (name, got, ref), "%s:%s" % (a["file"], a["line"]))
    # the derive must go through FilePtr::parse for the four pointers and read big-endian
    ex = facts.body("mila::tpl::Tpl::extract_textures")
    if ex is not None:
        be = any((callee_names(t)[1] or "").endswith("BinReaderExt::read_be") for bb, t in ex.calls())
        if be:
            rep.ok(R1, {"tpl": "parsed big-endian (read_be)"})
        else:
            rep.violation(R1, ex.name, "tpl-endian", "TPL is not parsed with read_be", "%s:%s" % (ex.file, ex.line))
    fp = 0
    for b in facts.bodies.values():
        if b.name.startswith("mila::<tpl::") and "read_options" in b.name:
            for bb, t in b.calls():
                if (callee_names(t)[0] or "").startswith("binread::FilePtr::<Ptr, BR>::parse"):
                    fp += 1
    if fp >= 4:
        rep.ok(R1, {"tpl": "file pointers", "count": fp})
    else:
        rep.violation(R1, "mila::tpl", "tpl-fileptr", "only %d FilePtr::parse uses in the TPL readers (images, image, palette, palette_data, image_data expected)" % fp, "src/tpl.rs")


GX_BLOCKS = {"I4": (8, 8), "I8": (8, 4), "IA4": (8, 4), "IA8": (4, 4), "RGB565": (4, 4), "RGB5A3": (4, 4), "RGBA8": (4, 4),
             "CI4": (8, 8), "CI8": (8, 4), "CI14X2": (4, 4), "CMPR": (8, 8)}
GX_BYTES = {"RGB5A3": ("mul", 2), "RGBA8": ("mul", 4), "CI8": ("mul", 1), "I8": ("mul", 1), "IA4": ("mul", 1), "IA8": ("mul", 2),
            "RGB565": ("mul", 2), "CI14X2": ("mul", 2), "I4": ("div", 2), "CI4": ("div", 2)}


def tpl_sizes(facts, rep, R5):
    """TPL payload sizes: GX block dimensions (width x height), size = align(h, bh) * align(w, bw) * bytes/pixel,
    and the same (width, height) order when the image is re-linearised."""
    fmt_adt = facts.adts.get("mila::tpl::TplImageFormat")
    bd = facts.body("mila::tpl::TplImageFormat::block_dimensions")
    bs = facts.body("mila::tpl::TplImageFormat::byte_size_of_image")
    if not fmt_adt or bd is None or bs is None:
        rep.inconc(R5, "TPL size functions not found")
        return
    vn = {v["discr"]: v["name"] for v in fmt_adt["variants"]}

    def variants_of(body, p):
        vs = set(vn.values())
        for (bb, term, vals, neg, dty) in p.conds:
            if term[0] == "discr" and strip_refs(term[1])[0] == "param" and strip_refs(term[1])[1] == 1:
                names = set(vn[v] for v in vals if v in vn)
                vs = vs - names if neg else vs & names
        return vs
    table = {}
    for p in enum_paths(bd):
        if p.end == "ret" and p.ret[0] == "agg" and p.ret[1] == "tuple" and all(x[0] == "const" for x in p.ret[4]):
            for v in variants_of(bd, p):
                table[v] = tuple(x[1] for x in p.ret[4])
    for v, want in sorted(GX_BLOCKS.items()):
        if table.get(v) == want:
            rep.ok(R5, {"format": v, "block": "%dx%d" % want})
        else:
            rep.violation(R5, bd.name, "block:" + v, "TPL format %s has block dimensions %s (width, height); GX uses %s" % (v, table.get(v), want), "%s:%s" % (bd.file, bd.line))
    # size formula
    bad = None
    unknown = None
    factors = {}
    for p in enum_paths(bs):
        if p.end != "ret":
            continue
        r = p.ret
        while r[0] == "cast":
            r = r[1]
        if r[0] == "field" and r[1][0] == "bin":
            r = ("bin", r[1][1].replace("WithOverflow", ""), r[1][2], r[1][3])
        op, k = "mul", 1
        base = r
        if r[0] == "bin" and r[1] == "Div" and r[3][0] == "const":
            op, k, base = "div", r[3][1], r[2]
        # commutative normal form: k * align(..) * align(..)
        pl = poly(base)
        sides = None
        if pl is not None and len(pl) == 1:
            (mono, coeff), = pl.items()
            if len(mono) == 2 and coeff > 0:
                if op == "mul":
                    k = coeff
                elif coeff != 1:
                    mono = None
                sides = []
                for side in (mono or ()):
                    if side[0] == "call" and side[1].endswith("texture_utils::align") and len(side[2]) == 2:
                        dim = [x[1] for x in walk(side[2][0]) if x[0] == "param"]
                        blk = side[2][1]
                        comp = blk[3] if (blk[0] == "field" and isinstance(blk[3], int) and any(x[0] == "call" and x[1].endswith("block_dimensions") for x in walk(blk))) else None
                        sides.append((dim[0] if dim else None, comp))
        if sides is None or len(sides) != 2 or any(c is None or d is None for d, c in sides):
            unknown = "size is not recognised as align(height, bh) * align(width, bw) scaled per format: %s" % fmt(r)[:120]
        elif sorted(sides, key=str) == sorted([(2, 1), (3, 0)], key=str):
            # parameters: (self, height, width): height pairs with component 1 (block height), width with 0
            pass
        else:
            bad = "payload rows/columns are aligned as %s (parameter, block component); specified height->block height (1), width->block width (0)" % sides
        for v in variants_of(bs, p):
            factors[v] = (op, k)
    if bad:
        rep.violation(R5, bs.name, "size-base", "TPL byte_size_of_image: " + bad, "%s:%s" % (bs.file, bs.line))
    elif unknown:
        rep.inconc(R5, "TPL byte_size_of_image: " + unknown)
        return
    else:
        rep.ok(R5, {"fn": bs.name, "base": "align(height, block_h) * align(width, block_w)"})
    for v in ("RGB5A3", "RGBA8", "CI8"):
        if factors.get(v) == GX_BYTES[v]:
            rep.ok(R5, {"format": v, "bytes_per_pixel": GX_BYTES[v]})
        else:
            rep.violation(R5, bs.name, "bytes:" + v, "TPL format %s payload is base %s %s; GX stores %s %s" % (v, factors.get(v, ("?", "?"))[0], factors.get(v, ("?", "?"))[1], GX_BYTES[v][0], GX_BYTES[v][1]), "%s:%s" % (bs.file, bs.line))
    odd = {v: f for v, f in factors.items() if v in GX_BYTES and v not in ("RGB5A3", "RGBA8", "CI8") and f != GX_BYTES[v]}
    if odd:
        rep.note("TPL size factors of formats without a decoder differ from GX: %s (outside C20: unsupported formats)" % odd)
    # re-linearisation uses (block_width, block_height) = (.0, .1) consistently
    ex = facts.body("mila::tpl::Tpl::extract_textures")
    if ex is not None:
        nv = ex.named_view()
        comp = {}
        for l in range(len(nv.locals)):
            if nv.is_atom(l) and nv.local_ty(l) == "usize" and len(nv.defs().get(l, [])) == 1:
                d = nv.definition(l)
                if d[0] == "field" and isinstance(d[3], int) and any(x[0] == "call" and x[1].endswith("block_dimensions") for x in walk(d)):
                    comp[l] = d[3]
        good = None
        for bb, t in nv.calls():
            nm = callee_names(t)[1] or ""
            if nm.endswith("texture_utils::block_to_sequential"):
                a = [nv.term_of_operand(x) for x in t["args"]]
                bw = comp.get(a[3][1]) if a[3][0] == "local" else None
                bh = comp.get(a[4][1]) if a[4][0] == "local" else None
                if bw is None or bh is None:
                    # through the fully expanded terms: component k of the block_dimensions() result
                    def comp_of(op_):
                        z = strip_refs(ex.term_of_operand(op_))
                        while z[0] == "cast":
                            z = strip_refs(z[1])
                        if z[0] == "field" and isinstance(z[3], int) and strip_refs(z[1])[0] == "call" and strip_refs(z[1])[1].endswith("block_dimensions"):
                            return z[3]
                        return None
                    bt = [t2 for _, t2 in ex.calls() if (callee_names(t2)[1] or "").endswith("texture_utils::block_to_sequential")]
                    if bt:
                        bw, bh = comp_of(bt[0]["args"][3]), comp_of(bt[0]["args"][4])
                good = None if (bw is None or bh is None) else ((bw, bh) == (0, 1))
        if good:
            rep.ok(R5, {"fn": ex.name, "block_to_sequential": "(.., block_width=.0, block_height=.1)"})
        elif good is False:
            rep.violation(R5, ex.name, "relinearise", "block_to_sequential receives the block dimensions in the wrong order", "%s:%s" % (ex.file, ex.line))


def length_minus(facts, rep, R3):
    """In the container readers no `len(buf) - k` on a buffer filled by a stream read may go unguarded:
    at a truncation point the read returns 0 bytes and the subtraction underflows (panic / huge slice)."""
    from c05 import dominating_bounds
    for fn in ("mila::ctpk::read", "mila::bch::read", "mila::cgfx::read", "mila::tpl::Tpl::extract_textures"):
        b = facts.body(fn)
        if b is None:
            continue
        ids, ext = facts.reachable_from([b.id])
        for i in sorted(ids):
            fb = facts.bodies[i]
            if not any(fb.name.startswith(p) for p in ("mila::ctpk", "mila::bch", "mila::cgfx", "mila::tpl", "mila::<tpl")):
                continue
            filled = set()
            for bb, t in fb.calls():
                nm = callee_names(t)[1] or ""
                if nm.endswith("BufRead::read_until") or nm.endswith("Read>::read_to_end") or nm.endswith("Read>::read"):
                    for a in t["args"][1:]:
                        for x in walk(fb.term_of_operand(a)):
                            if x[0] in ("var", "call") and fb is not None:
                                filled.add(norm(strip_refs(fb.term_of_operand(a))))
            cd = None
            for bb, t in fb.asserts():
                m = t["msg"]
                if m["kind"] != "Overflow" or m["op"] != "Sub":
                    continue
                a = fb.term_of_operand(m["a"])
                c = fb.term_of_operand(m["b"])
                if not (a[0] == "call" and a[1].endswith("::len") and c[0] == "const" and c[1] >= 1):
                    continue
                buf = norm(strip_refs(a[2][0]))
                if buf not in filled:
                    continue
                if cd is None:
                    cd = control_deps(fb)
                ok = False
                for op, lhs, rhs in dominating_bounds(fb, bb, cd):
                    if norm(lhs) == norm(a) and rhs[0] == "const" and ((op == "Ge" and rhs[1] >= c[1]) or (op == "Gt" and rhs[1] >= c[1] - 1) or (op == "Ne" and rhs[1] == 0 and c[1] == 1)):
                        ok = True
                if ok:
                    rep.ok(R3, {"fn": fb.name, "site": "len - %d guarded" % c[1]})
                else:
                    rep.violation(R3, fb.name, "len-minus-%d" % c[1], "%s computes len(buffer) - %d on a buffer just filled by a stream read: at a truncation point the read delivers 0 bytes and this underflows (panic) instead of yielding the later I/O error" % (fb.name, c[1]), "%s:%s" % (fb.file, t["line"]))


def self_relative(facts, rep, R1):
    """CGFX offsets are self-relative: value + position taken *before* the read of the value."""
    for fn in ("mila::cgfx::DATA::new", "mila::cgfx::DICT::new", "mila::cgfx::TXOB::new"):
        b = facts.ibody(fn, unroll=False)
        if b is None:
            continue
        idx = rpo_index(b)
        n_ok = n_bad = 0
        for bi, si, s in b.stmts():
            if s["k"] == "assign" and s["rv"]["k"] == "bin" and s["rv"]["op"].startswith("Add"):
                a = b.term_of_operand(s["rv"]["a"])
                c = b.term_of_operand(s["rv"]["b"])
                pos = [x for x in walk(a) if x[0] == "call" and x[1].endswith("Cursor::<T>::position")] + [x for x in walk(c) if x[0] == "call" and x[1].endswith("Cursor::<T>::position")]
                rd = [x for x in walk(a) if x[0] == "call" and x[1].endswith("read_u32")] + [x for x in walk(c) if x[0] == "call" and x[1].endswith("read_u32")]
                if pos and rd:
                    if idx.get(pos[0][3], 0) < idx.get(rd[0][3], 0):
                        n_ok += 1
                    else:
                        n_bad += 1
        want = {"mila::cgfx::DATA::new": 1, "mila::cgfx::DICT::new": 2, "mila::cgfx::TXOB::new": 2}[fn]
        if n_bad == 0 and n_ok == want:
            rep.ok(R1, {"fn": fn, "self_relative_offsets": n_ok})
        else:
            rep.violation(R1, fn, "self-relative", "%s: %d self-relative offsets take the position before the read, %d after (reference %d before)" % (fn, n_ok, n_bad, want), "%s:%s" % (b.file, b.line))
    # CGFX entry point uses DATA entry 1 (textures)
    rd = facts.body("mila::cgfx::read")
    if rd is not None:
        nv = rd
        ok = False
        seen_idx = set()
        for bb, t in rd.calls():
            nm_ = callee_names(t)[1] or ""
            if nm_.endswith("Seek>::seek") or nm_.endswith("Cursor::<T>::set_position"):
                a = rd.term_of_operand(t["args"][1])
                flds = [x for x in walk(a) if x[0] == "field" and x[2] == "offset"]
                if not flds:
                    continue
                for x in walk(a):
                    if x[0] == "call" and "ops::Index" in x[1] and strip_refs(x[2][1])[0] == "const":
                        seen_idx.add(strip_refs(x[2][1])[1])
                    elif x[0] == "index" and x[2][0] == "const":
                        seen_idx.add(x[2][1])
                    elif x[0] == "call" and x[1].rsplit("::", 1)[-1] in ("get", "nth") and len(x[2]) == 2 and strip_refs(x[2][1])[0] == "const":
                        seen_idx.add(strip_refs(x[2][1])[1])
        ok = 1 in seen_idx
        if ok:
            rep.ok(R1, {"fn": rd.name, "dict": "DATA entry 1 (textures)"})
        elif not seen_idx:
            rep.inconc(R1, "CGFX reader: which DATA entry locates the texture dictionary was not recognised")
        else:
            rep.violation(R1, rd.name, "data-entry", "CGFX reader does not go to DATA.entry[1].offset for the texture dictionary", "%s:%s" % (rd.file, rd.line))


def unexpanded_calls(facts, b):
    """Crate-local callees (new helpers, closures) that are still calls in the analysis view of b: their reads,
    seeks and allocations are not in the event sequence, so a sequence / origin rule has an incomplete picture."""
    names, _ids = facts.known()
    out = []
    for bb, t in b.calls():
        f = call_target(t)
        if not f:
            continue
        rid = f.get("res_id")
        cb = facts.bodies.get(rid)
        if cb is not None and (cb.kind == "Closure" or cb.name not in names):
            out.append(cb.name)
        elif f.get("def") in ("std::ops::FnOnce::call_once", "std::ops::FnMut::call_mut", "std::ops::Fn::call") and cb is None:
            out.append("a closure parameter")
    return out


def origin_closure(b, t, depth=5):
    """Every term the value t is computed from, following multi-definition locals (`var`) through all their
    definitions, transitively (bounded): the basis for "does this value depend on field F / local L at all"."""
    seen = set()
    out = []
    todo = [(t, 0)]
    while todo:
        z, d = todo.pop()
        out.append(z)
        if d >= depth:
            continue
        for y in walk(z):
            if y[0] == "var" and y[1] not in seen and len(seen) < 40:
                seen.add(y[1])
                for (bi2, si2, kind, payload) in b.defs().get(y[1], []):
                    try:
                        todo.append((b.term_of_rvalue(payload["rv"]) if kind == "assign" else b.term_of_call(payload, bi2), d + 1))
                    except Exception:
                        pass
    return out


def bch_sequence(facts, rep, R1, R4):
    b = facts.body("mila::bch::read")
    ct = facts.body("mila::bch::ContentTable::new")
    if b is None or ct is None:
        rep.inconc(R1, "bch::read / ContentTable::new not found")
        return
    where = "%s:%s" % (b.file, b.line)
    evs = [e for e in stream_events(b) if e["loop"] is not None]
    got = []
    for e in evs:
        if e["k"] == "read":
            got.append(("read", e["w"]))
        elif e["k"] == "skip":
            got.append(("skip", e["n"]))
        elif e["k"] == "goto":
            got.append(("goto",))
        elif e["k"] == "payload":
            got.append(("payload", e["how"]))
    want = [("goto",), ("read", 4), ("goto",), ("read", 4), ("skip", 24), ("read", 4), ("goto",), ("payload", "read_until"), ("goto",), ("read", 2), ("read", 2),
            ("skip", 12), ("read", 4), ("skip", 4), ("read", 4), ("goto",), ("payload", "read_exact")]
    hidden = unexpanded_calls(facts, b)
    if got == want:
        rep.ok(R1, {"fn": b.name, "per_texture_sequence": "table entry -> object -> commands: h,w @0, data @0x10, format @0x18; name @0x1C"})
    elif hidden:
        rep.inconc(R1, "bch::read: part of the per-texture walk is inside %s, which could not be expanded: the sequence is incomplete" % sorted(set(hidden))[0])
        return
    else:
        rep.violation(R1, b.name, "bch-sequence", "per-texture read sequence is %s, reference %s" % (got, want), where)
    # absolute targets as sets of header fields involved
    gotos = [e for e in evs if e["k"] == "goto"]
    wantf = [{"textures_ptr_table_offset"}, {"contents_address"}, {"strings_address"}, set(), {"raw_data_address"}]
    ok = len(gotos) == 5
    descr = []
    for g, wf in zip(gotos, wantf):
        flds = set(x[2] for x in walk(g["to"]) if x[0] == "field" and isinstance(x[2], str) and len(x) > 4 and x[4] and str(x[4]).startswith("mila::bch::"))
        # through locals: commands offset / data offset carry their base inside their definition (possibly inside a
        # record built a few steps earlier)
        for z in origin_closure(b, g["to"]):
            flds |= set(y[2] for y in walk(z) if y[0] == "field" and isinstance(y[2], str) and len(y) > 4 and y[4] and str(y[4]).startswith("mila::bch::"))
        descr.append(sorted(flds))
        if wf and not (wf <= flds):
            ok = False
    # commands offset = read + commands_address
    cmd_ok = False
    for bi, si, s in b.stmts():
        if s["k"] == "assign" and s["rv"]["k"] == "bin" and s["rv"]["op"].startswith("Add"):
            t = b.term_of_rvalue(s["rv"])
            if any(x[0] == "field" and x[2] == "commands_address" for x in walk(t)) and any(x[0] == "call" and x[1].endswith("read_u32") for x in walk(t)):
                cmd_ok = True
    if ok and cmd_ok:
        rep.ok(R4, {"fn": b.name, "bases": ["table offset", "contents", "strings", "commands", "raw data"]})
    else:
        rep.violation(R4, b.name, "bch-bases", "absolute seeks use header fields %s (reference: table offset, contents_address, strings_address, commands_address, raw_data_address)" % descr, where)
    # content table location: contents_address + 0x24, table offset relative to contents_address
    gt = [e for e in stream_events(ct) if e["k"] == "goto"]
    a = affine(gt[0]["to"], None) if gt else None
    rel = any(s["k"] == "assign" and s["rv"]["k"] == "bin" and s["rv"]["op"].startswith("Add") and
              any(x[0] == "call" and x[1].endswith("read_u32") for x in walk(ct.term_of_rvalue(s["rv"]))) and
              any(x[0] == "param" and x[1] == 2 for x in walk(ct.term_of_rvalue(s["rv"]))) for bi, si, s in ct.stmts())
    if a is not None and a[1] == 0x24 and len(a[0]) == 1 and rel:
        rep.ok(R4, {"fn": ct.name, "at": "contents_address + 0x24", "table_offset": "relative to contents_address"})
    else:
        rep.violation(R4, ct.name, "content-table", "content table is read at %s (reference contents_address + 0x24, offsets relative to contents_address: %s)" % (fmt_affine(a) if a else None, rel), "%s:%s" % (ct.file, ct.line))


def magic(facts, rep, R2):
    for fn, const in (("mila::bch::Header::new", 0x484342), ("mila::cgfx::Header::new", 0x58464743)):
        b = facts.body(fn)
        if b is None:
            rep.inconc(R2, fn + " not found")
            continue
        where = "%s:%s" % (b.file, b.line)
        try:
            paths = enum_paths(b)
        except PathLimit:
            rep.inconc(R2, fn + ": too many paths")
            continue
        good = False
        for p in paths:
            for (bb, term, vals, neg, dty) in p.conds:
                ct = cond_truth((term, vals, neg, dty))
                if ct and ct[0][0] == "bin" and ct[0][1] in ("Ne", "Eq") and ct[0][3][0] == "const" and ct[0][3][1] == const:
                    mismatch = (ct[0][1] == "Ne") == ct[1]
                    if mismatch:
                        reads = [e for e in p.events if e["k"] == "call" and e["callee"] and "ReadBytesExt::read_" in e["callee"]]
                        r = p.ret
                        if p.end == "ret" and r[0] == "agg" and r[3] == "Err" and r[4][0][0] == "agg" and r[4][0][3] == "BadMagicNumber" and len(reads) == 1:
                            good = True
        if good:
            rep.ok(R2, {"fn": fn, "magic": hex(const)})
        else:
            rep.violation(R2, fn, "magic", "%s does not reject a magic other than %s with BadMagicNumber right after reading it" % (fn, hex(const)), where)
    # TPL: derived reader compares with the magic constant and reports through binread::error::magic
    found = False
    for b in facts.bodies.values():
        if b.name.startswith("mila::<tpl::Tpl as binread::BinRead>::read_options"):
            has_call = any((callee_names(t)[1] or "").startswith("binread::error::magic") for bb, t in b.calls())
            has_const = any(s["k"] == "assign" and "0x0020af30" in str(s).lower() or (s["k"] == "assign" and any(x[0] == "const" and x[1] == 0x0020AF30 for x in walk(b.term_of_rvalue(s["rv"])))) for bi, si, s in b.stmts())
            if not has_const:
                for bb, t in b.calls():
                    for a in t["args"]:
                        if any(x[0] == "const" and x[1] == 0x0020AF30 for x in walk(b.term_of_operand(a))):
                            has_const = True
            if has_call and has_const:
                found = True
    if found:
        rep.ok(R2, {"fn": "Tpl (derived)", "magic": "0x0020AF30"})
    else:
        rep.violation(R2, "mila::tpl::Tpl", "magic", "the TPL reader does not check the 0x0020AF30 magic", "src/tpl.rs")


def fallible(facts, rep, R3):
    for fn in ("mila::ctpk::read", "mila::bch::read", "mila::cgfx::read", "mila::tpl::Tpl::extract_textures"):
        b = facts.body(fn)
        if b is None or not b.pub:
            rep.inconc(R3, "anchor %s missing" % fn)
            continue
        ids, ext = facts.reachable_from([b.id])
        raw = []
        payload = 0
        for i in ids:
            fb = facts.bodies[i]
            if not (fb.name.startswith("mila::ctpk") or fb.name.startswith("mila::bch") or fb.name.startswith("mila::cgfx") or fb.name.startswith("mila::tpl") or fb.name.startswith("mila::<tpl")):
                continue
            for bb, t in fb.calls():
                nm = callee_names(t)[1] or ""
                if "ops::Index" in nm and t["args"]:
                    base = strip_refs(fb.term_of_operand(t["args"][0]))
                    if base[0] == "param" and fb.local_ty(base[1]) == "&[u8]":
                        raw.append((fb.name, t["line"]))
                if nm.endswith("Read>::read_exact") or nm.endswith("BufRead::read_until") or nm.startswith("binread::FilePtr") or nm.endswith("BinReaderExt::read_be"):
                    payload += 1
            for bb, t in fb.asserts():
                if t["msg"]["kind"] == "BoundsCheck":
                    ln = fb.term_of_operand(t["msg"]["len"])
                    if any(x[0] == "param" and fb.local_ty(x[1]) == "&[u8]" for x in walk(ln)):
                        raw.append((fb.name, t["line"]))
        if raw:
            rep.violation(R3, fn, "raw-index", "%s indexes the input slice directly at %s: a truncated file would panic instead of failing with an I/O error" % (fn, raw[:3]), "%s:%s" % (b.file, b.line))
        elif payload == 0:
            rep.violation(R3, fn, "no-payload-read", "%s never reads a payload through read_exact/read_until/FilePtr" % fn, "%s:%s" % (b.file, b.line))
        else:
            rep.ok(R3, {"fn": fn, "fallible_payload_reads": payload, "raw_indexings": 0})


def assembly(facts, rep, R4):
    spec = {
        "mila::ctpk::read": {"width": "width", "height": "height", "fmt": "pixel_format"},
        "mila::bch::read": {"width": "width", "height": "height", "fmt": "pixel_format"},
        "mila::cgfx::parse_textures": {"width": "width", "height": "height", "fmt": "pixel_format"},
    }
    for fn, sp in sorted(spec.items()):
        b = facts.body(fn)
        if b is None:
            rep.inconc(R4, fn + " not found")
            continue
        where = "%s:%s" % (b.file, b.line)
        nv = b.named_view()
        agg = None
        for bi, si, s in nv.stmts():
            if s["k"] == "assign" and s["rv"]["k"] == "agg" and s["rv"].get("def") == "mila::texture::Texture":
                agg = (s, dict(zip(s["rv"]["field_names"], [nv.term_of_operand(o) for o in s["rv"]["fields"]])))
        if agg is None:
            rep.inconc(R4, fn + ": Texture construction not found")
            continue
        s, f = agg

        def origin(t):
            """names of record fields / named locals a value derives from"""
            out = set()
            for x in walk(t):
                if x[0] == "local":
                    out.add(x[2])
                    if len(nv.defs().get(x[1], [])) == 1:
                        d = nv.definition(x[1])
                        for y in walk(d):
                            if y[0] == "field" and isinstance(y[2], str) and len(y) > 4 and y[4] and str(y[4]).startswith("mila::"):
                                out.add("." + y[2])
                if x[0] == "field" and isinstance(x[2], str) and len(x) > 4 and x[4] and str(x[4]).startswith("mila::"):
                    out.add("." + x[2])
            return out
        bad = None
        ow, oh = origin(f["width"]), origin(f["height"])
        if not ({"width", ".width"} & ow) or ({"height", ".height"} & ow):
            bad = "Texture.width comes from %s" % sorted(ow)
        if not ({"height", ".height"} & oh) or ({"width", ".width"} & oh):
            bad = "Texture.height comes from %s" % sorted(oh)
        pd = f["pixel_data"]
        dec = None
        for x in walk(pd):
            if x[0] == "local" and len(nv.defs().get(x[1], [])) == 1:
                d = nv.definition(x[1])
                for y in walk(d):
                    if y[0] == "call" and y[1].endswith("decode_pixel_data"):
                        dec = y
        unk = None
        if dec is None:
            # through the fully expanded term (the value may come out of a helper that was expanded in place)
            full_pd = None
            for bi_, si_, st_ in b.stmts():
                if st_["k"] == "assign" and st_["rv"]["k"] == "agg" and st_["rv"].get("def") == "mila::texture::Texture":
                    full_pd = dict(zip(st_["rv"]["field_names"], [b.term_of_operand(o) for o in st_["rv"]["fields"]])).get("pixel_data")
            seen_v, todo, found, raw_payload = set(), [full_pd] if full_pd else [], False, False
            while todo:
                z = todo.pop()
                for y in walk(z):
                    if y[0] == "call" and y[1].endswith("decode_pixel_data"):
                        found = True
                    if y[0] == "call" and y[1].endswith("vec::from_elem"):
                        raw_payload = True
                    if y[0] == "var" and y[1] not in seen_v and len(seen_v) < 20:
                        seen_v.add(y[1])
                        for (bi2, si2, kind, payload) in b.defs().get(y[1], []):
                            todo.append(b.term_of_rvalue(payload["rv"]) if kind == "assign" else b.term_of_call(payload, bi2))
            if found:
                unk = "the decoder call feeding Texture.pixel_data is reached through a helper; its arguments are not re-checked here"
            elif raw_payload:
                bad = bad or "pixel data is not the decoder's output"
            else:
                unk = "where Texture.pixel_data comes from was not recognised"
        else:
            a_w, a_h = origin(dec[2][1]), origin(dec[2][2])
            if not ({"width", ".width"} & a_w) or not ({"height", ".height"} & a_h):
                bad = bad or "decoder called with (width from %s, height from %s)" % (sorted(a_w), sorted(a_h))
            if not ({"pixel_format", ".pixel_format"} & origin(dec[2][3])):
                bad = bad or "decoder format comes from %s" % sorted(origin(dec[2][3]))
            # payload buffer read by read_exact in the same iteration
            buf = dec[2][0]
            rx = [t for bb, t in nv.calls() if (callee_names(t)[1] or "").endswith("Read>::read_exact")]

            def local_closure(t0):
                """locals the value may come from: through every definition of every local met, transitively"""
                seen_l, todo_l = set(), [t0]
                while todo_l and len(seen_l) < 60:
                    z = todo_l.pop()
                    for y in walk(z):
                        if y[0] in ("local", "var") and y[1] not in seen_l:
                            seen_l.add(y[1])
                            for (bi2, si2, kind, payload) in nv.defs().get(y[1], []):
                                try:
                                    todo_l.append(nv.term_of_rvalue(payload["rv"]) if kind == "assign" else nv.term_of_call(payload, bi2))
                                except Exception:
                                    pass
                return seen_l
            if not rx or not (local_closure(buf) & set(x[1] for t_ in rx for x in walk(nv.term_of_operand(t_["args"][1])) if x[0] in ("local", "var"))):
                bad = bad or "the decoder is not applied to the buffer filled by read_exact"
        fnm = f["filename"]
        if not any(x[0] == "local" for x in walk(fnm)):
            bad = bad or "file name is %s" % fmt(fnm)[:40]
        if bad and unexpanded_calls(facts, b):
            rep.inconc(R4, "%s: %s -- but part of the loop is inside a helper that could not be expanded" % (fn, bad))
        elif bad:
            rep.violation(R4, fn, "assembly", "%s: %s" % (fn, bad), where)
        elif unk:
            rep.inconc(R4, "%s: %s" % (fn, unk))
        else:
            rep.ok(R4, {"fn": fn, "texture": "width<-width, height<-height, pixels<-decode(own payload), name<-decoded name"})
            rep.ok(R4, {"fn": fn, "decoder_args": "(payload, width, height, pixel_format)"})
    # CTPK absolute targets
    b = facts.body("mila::ctpk::read")
    if b is not None:
        gts = [e for e in stream_events(b) if e["k"] == "goto"]
        descr = []
        for g in gts:
            descr.append(sorted(set(f for f, a in value_fields(g["to"], "mila::ctpk::"))))
        if descr == [["filename_ptr"], ["texture_ptr"]]:
            # both Header.texture_ptr and TextureInfo.texture_ptr must take part
            adts = sorted(set(a for f, a in value_fields(gts[1]["to"], "mila::ctpk::") if f == "texture_ptr"))
            if len(adts) == 2:
                rep.ok(R4, {"fn": b.name, "name_at": "info.filename_ptr", "pixels_at": "header.texture_ptr + info.texture_ptr"})
            else:
                rep.violation(R4, b.name, "ctpk-bases", "pixel data is located with %s only" % adts, "%s:%s" % (b.file, b.line))
        elif descr == [["texture_ptr"]] and len(set(a for f, a in value_fields(gts[0]["to"], "mila::ctpk::") if f == "texture_ptr")) == 2:
            # the pixel data is reached by an absolute seek built from both pointers; the name is not located by a
            # seek at all (taken from the buffer some other way), which this rule does not read
            rep.ok(R4, {"fn": b.name, "pixels_at": "header.texture_ptr + info.texture_ptr"})
            rep.inconc(R4, "ctpk::read: how the texture name is located (reference: info.filename_ptr) was not recognised")
        elif not any("texture_ptr" in d_ for d_ in descr):
            # Witness for a definite verdict: the record type still has its `texture_ptr` field and the whole analysis
            # view of read() (helpers spliced in, nothing crate-local left as a call, no closures) never *reads* it.
            # Then no seek can depend on a texture's own recorded offset, so a conforming file that places a later
            # payload anywhere but where the reader's own bookkeeping puts it is decoded from the wrong bytes.
            # Anything less (field renamed or gone, an unexpanded helper) stays undecided.
            import json as _json
            rec = [a for a in facts.adts if a.startswith("mila::ctpk::") and a != "mila::ctpk::Header"
                   and any(fl["name"] == "texture_ptr" for v in facts.adts[a]["variants"] for fl in v["fields"])]
            reads = 0
            for bi, si, s_ in b.stmts():
                if s_.get("k") == "assign":
                    reads += sum(1 for a in rec if '"name": "texture_ptr", "adt": "%s"' % a in _json.dumps(s_.get("rv")))
            for bi, t_ in b.calls():
                reads += sum(1 for a in rec if '"name": "texture_ptr", "adt": "%s"' % a in _json.dumps(t_.get("args")))
            # the loop must be in view: the name seek recognised, a second absolute seek present, and no closure of
            # read() (spliced or not: a closure handed to map/collect is not a crate-local *call*) that could hold the read
            in_view = len(descr) == 2 and descr[0] == ["filename_ptr"] and not facts.closures_of(b)
            if rec and reads == 0 and in_view and not unexpanded_calls(facts, b):
                rep.violation(R4, b.name, "ctpk-record-offset", "absolute seeks use %s and %s.texture_ptr is never read in ctpk::read: a texture's pixel data is not located by its own recorded offset (reference: header.texture_ptr + info.texture_ptr)" % (descr, rec[0]), "%s:%s" % (b.file, b.line))
            else:
                rep.inconc(R4, "ctpk::read: absolute seeks use %s; the seek to the pixel data was not recognised" % descr)
        else:
            rep.violation(R4, b.name, "ctpk-bases", "absolute seeks use %s (reference: filename_ptr ; header.texture_ptr + info.texture_ptr)" % descr, "%s:%s" % (b.file, b.line))
    # TPL assembly
    ex = facts.body("mila::tpl::Tpl::extract_textures")
    if ex is not None:
        nv = ex.named_view()
        agg = None
        for bi, si, s in nv.stmts():
            if s["k"] == "assign" and s["rv"]["k"] == "agg" and s["rv"].get("def") == "mila::texture::Texture":
                agg = dict(zip(s["rv"]["field_names"], [nv.term_of_operand(o) for o in s["rv"]["fields"]]))
        if agg:
            def names(t):
                out = set()
                for x in walk(t):
                    if x[0] == "local":
                        out.add(x[2])
                        if len(nv.defs().get(x[1], [])) == 1:
                            for y in walk(nv.definition(x[1])):
                                if y[0] == "field" and isinstance(y[2], str):
                                    out.add("." + y[2])
                return out
            w, h = names(agg["width"]), names(agg["height"])
            # the same through the fully expanded terms (values carried in a helper struct, a tuple, ...)
            for bi, si, s in ex.stmts():
                if s["k"] == "assign" and s["rv"]["k"] == "agg" and s["rv"].get("def") == "mila::texture::Texture":
                    full = dict(zip(s["rv"]["field_names"], [ex.term_of_operand(o) for o in s["rv"]["fields"]]))
                    w |= set("." + f_ for f_, a_ in value_fields(full["width"], "mila::tpl::Tpl"))
                    h |= set("." + f_ for f_, a_ in value_fields(full["height"], "mila::tpl::Tpl"))
            if ".width" in w and ".height" not in w and ".height" in h and ".width" not in h:
                rep.ok(R4, {"fn": ex.name, "texture": "width<-image.width, height<-image.height"})
            elif not ({".width", ".height"} & w) or not ({".width", ".height"} & h):
                rep.inconc(R4, "TPL Texture: where width (%s) and height (%s) come from was not recognised" % (sorted(w), sorted(h)))
            else:
                rep.violation(R4, ex.name, "assembly", "TPL Texture width from %s, height from %s" % (sorted(w), sorted(h)), "%s:%s" % (ex.file, ex.line))
