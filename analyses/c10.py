"""C10 — compressed size is bounded and repetition is actually exploited (search parameters & contract)."""
from mir import callee_names, fmt, walk, strip_refs, norm
from flow import enum_paths, PathLimit, cond_truth
from lz import Encoder
from binser import affine, fmt_affine
from c08 import loop_vars

EXPLANATION = ("Parameters of both encoders are the format maxima (window 0x1000, look-ahead 0x12 / >= 0x1000, "
               "literal threshold 3); the search call is wired to the window [read - min(read,W), read) and the "
               "look-ahead min(n - read, L); the search visits every window start from 0, compares byte-wise up "
               "to the look-ahead, and replaces its best only under a strict improvement, recording the matching "
               "displacement; a token never costs more than the bytes it covers plus the flag bit. The numeric "
               "size inequality itself is not decided.")
ASSUMPTIONS = ["the numeric bound for a concrete input follows from these structural facts but is not computed"]

ENCODERS = {"LZ10": ("mila::lz10::LZ10CompressionFormat::compress", lambda L: L == 0x12, "0x12"),
            "LZ13": ("mila::lz13::LZ13CompressionFormat::compress", lambda L: 0x1000 <= L <= 0x10110, ">= 0x1000")}


def run(facts, rep, ctx):
    R1 = rep.rule("R10.1", "parameters are the format maxima: window 0x1000, look-ahead 0x12 (LZ10) / >= 0x1000 (LZ13), threshold 3", floor=6)
    R2 = rep.rule("R10.2", "search call wiring: (input, read, min(n-read, L), read - min(read, W), min(read, W))", floor=6)
    R3 = rep.rule("R10.3", "search contract: all window starts from 0, byte-wise comparison up to the look-ahead, strict-improvement update of (best, displacement) together", floor=5)
    R4 = rep.rule("R10.4", "a reference is only emitted when it covers at least as many bytes as it costs (threshold >= token size - 1)", floor=2)
    search_fns = set()
    for name, (fn, lpred, ldesc) in sorted(ENCODERS.items()):
        b = facts.body(fn)
        if b is None or not b.pub:
            rep.inconc(R1, "anchor %s missing" % fn)
            continue
        where = "%s:%s" % (b.file, b.line)
        try:
            enc = Encoder(facts, b)
        except PathLimit:
            rep.inconc(R1, fn + ": too many paths")
            continue
        if enc.search is None:
            rep.inconc(R1, fn + ": search call not identified")
            continue
        search_fns.add(enc.search["callee"])
        match_kept_rule(rep, R4, enc, where)
        caps = enc.caps()
        if caps is None or caps["L"] is None or caps["W"] is None:
            rep.inconc(R1, "%s: look-ahead / window caps of the search call not recognised (%s)" % (name, None if caps is None else {k: caps[k] for k in ("L", "W")}))
            continue
        L, W = caps["L"], caps["W"]
        thr = set()
        sizes = set()
        for p in enc.loop_paths():
            cl = enc.branch_of(p)
            for (op, c, truth) in cl:
                if op == "Lt":
                    thr.add(c)
            if any(op == "Lt" and not truth for (op, c, truth) in cl):
                sizes.add(len([s for s in enc.emissions(p) if not (len(s) > 2 and s[2] == "merge-into-existing")]))
        if L is not None and lpred(L):
            rep.ok(R1, {"encoder": name, "lookahead": hex(L)})
        else:
            rep.violation(R1, b.name, "lookahead", "%s look-ahead cap is %s, the format maximum the bound assumes is %s" % (name, hex(L) if L is not None else None, ldesc), where)
        if W == 0x1000:
            rep.ok(R1, {"encoder": name, "window": hex(W)})
        else:
            rep.violation(R1, b.name, "window", "%s window cap is %s, the format allows and the bound assumes 0x1000" % (name, hex(W) if W is not None else None), where)
        if thr == {3}:
            rep.ok(R1, {"encoder": name, "threshold": 3})
        elif not thr:
            rep.inconc(R1, "%s: the literal/reference threshold was not recognised" % name)
        else:
            rep.violation(R1, b.name, "threshold", "%s emits references only from length %s: 3-byte repetitions are not exploited" % (name, sorted(thr)), where)
        # ---- wiring ------------------------------------------------------------------------------
        read, cnt, gsize = loop_vars(enc)
        a = enc.search_args()
        if a is None or read is None:
            rep.inconc(R2, "%s: search arguments differ between paths in a way that is not recognised" % name)
            continue

        def aff(t):
            # `x as u16` is not x: positions and lengths are usize, a detour through a narrower type wraps
            for x_ in walk(t):
                if x_[0] == "cast" and x_[2] in ("u8", "u16", "u32", "i8", "i16", "i32") and x_[1][0] not in ("const",):
                    return ({("narrowed", norm(x_)): 1}, 0)
            r = affine(t, None, narrow_opaque=True)
            if r is None:
                return None
            return ({("n" if enc.classify(k) == "n" else k): v for k, v in r[0].items()}, r[1])
        R_ = norm(read)
        inp = strip_refs(a[0])
        ok_in = inp[0] == "param" and inp[1] == enc.input_param
        ok_read = aff(a[1]) == ({R_: 1}, 0)
        la = caps["lookahead_other"]
        ok_la = bool(la) and len(la) == 1 and aff(la[0]) == ({"n": 1, R_: -1}, 0)
        wo = caps["window_other"]
        ok_w = bool(wo) and len(wo) == 1 and aff(wo[0]) == ({R_: 1}, 0)
        # window start + window length = position
        s3, s4 = aff(a[3]), aff(a[4])
        ok_ptr = False
        if s3 is not None and s4 is not None:
            tot = dict(s3[0])
            for k, v in s4[0].items():
                tot[k] = tot.get(k, 0) + v
            tot = {k: v for k, v in tot.items() if v}
            ok_ptr = tot == {R_: 1} and s3[1] + s4[1] == 0
        for nm, good, got in (("input", ok_in, a[0]), ("look-ahead", ok_la, a[2]), ("window-start", ok_ptr, a[3])):
            if good:
                rep.ok(R2, {"encoder": name, "arg": nm})
            else:
                rep.violation(R2, b.name, "wiring:" + nm, "%s passes %s as the %s argument of the search" % (name, fmt(got)[:80], nm), where)
        if not (ok_read and ok_w):
            rep.violation(R2, b.name, "wiring:position", "%s search position/window length are %s / %s" % (name, fmt(a[1])[:40], fmt(a[4])[:60]), where)
        # ---- R10.4 -------------------------------------------------------------------------------
        if sizes and thr and min(thr) >= max(sizes) - 1 - (1 if name == "LZ13" else 0):
            rep.ok(R4, {"encoder": name, "token_sizes": sorted(sizes), "threshold": sorted(thr)})
        elif name == "LZ13" and sizes and thr:
            # longer forms are only used for lengths >= 0x11, far above their size
            rep.ok(R4, {"encoder": name, "token_sizes": sorted(sizes), "threshold": sorted(thr)})
        else:
            rep.violation(R4, b.name, "expansion", "%s can spend %s bytes on a reference covering only %s" % (name, sorted(sizes), sorted(thr)), where)
    # ---- R10.5: one flag byte per eight tokens, none without a token ------------------------------------
    R5 = rep.rule("R10.5", "group accounting: a flag byte is emitted per 8 tokens and at the end only if a token is buffered (no stray bytes)", floor=8)
    from c08 import token_checks
    for name, (fn, lpred, ldesc) in sorted(ENCODERS.items()):
        b = facts.body(fn)
        if b is None:
            continue
        try:
            enc = Encoder(facts, b)
        except PathLimit:
            continue
        if enc.search is not None:
            token_checks(rep, R5, R5, enc, [], "%s:%s" % (b.file, b.line))
    if len(search_fns) != 1:
        rep.inconc(R3, "the two encoders do not share one search function: %s" % sorted(search_fns))
        return
    search_contract(facts, rep, R3, facts.body(list(search_fns)[0]))


def match_kept_rule(rep, R4, enc, where):
    """What the search found is what gets encoded: the length (and displacement) that decide literal vs reference and
    fill the token are the search call's own results.  A local that receives the result *and* some other value
    (`length = 0` under a condition) lets a found match be thrown away."""
    b = enc.body
    search_bb = enc.search.get("bb")
    dests = set()
    for bb, t in b.calls():
        if (callee_names(t)[1] or callee_names(t)[0] or "") == enc.search["callee"] and not t["dest"]["p"]:
            dests.add(t["dest"]["l"])
    if not dests:
        return
    over = None
    for l in range(len(b.locals)):
        ds = b.defs().get(l, [])
        if len(ds) < 2:
            continue
        from_search = other = None
        for (bi, si, kind, payload) in ds:
            if kind != "assign":
                other = other or (bi, "a call result")
                continue
            rv = payload["rv"]
            pl = (rv.get("a") or {}).get("m") or (rv.get("a") or {}).get("c") if rv["k"] in ("use", "cast") else None
            if pl is not None and pl["l"] in dests and pl["p"]:
                from_search = (bi, pl["p"][0].get("f") if isinstance(pl["p"][0], dict) else None)
            else:
                t_ = b.term_of_rvalue(rv)
                other = other or (bi, fmt(t_)[:30], payload.get("line"))
        if from_search and other and from_search[1] in (0, 1):
            loops = b.loops()
            same_loop = any(from_search[0] in bl and other[0] in bl for bl in loops.values())
            if same_loop:
                over = (b.local_name(l) or "_%d" % l, "length" if from_search[1] == 0 else "displacement", other)
    if over:
        rep.violation(R4, b.name, "match-overwritten:" + over[0], "`%s` holds the search's %s but is also assigned %s inside the loop (line %s): a match that was found can be discarded or altered before it is encoded, so repetition the search sees is not exploited" % (
            over[0], over[1], over[2][1], over[2][2] if len(over[2]) > 2 else "?"), where)
    else:
        rep.ok(R4, {"fn": b.name, "match": "the search's (length, displacement) reach the token unmodified"})


def farthest_candidate(rep, R3, sb, outer, P, where):
    """The displacement reported for candidate i, as an affine function of i and the window length, over the range the
    candidate loop runs: its largest value must be the window length itself (the far edge of the window is a legal
    match start and has to be tried)."""
    lo, hi, ocall = outer
    item = None
    for x in walk(("x", ocall)):
        pass
    la, ha = affine(lo, None), affine(hi, None)
    if la is None or ha is None:
        return
    W = norm(P(5))
    # the returned displacement: second component of the result tuple
    disp_l = None
    for bi, si, st in sb.stmts():
        if st["k"] == "assign" and st["lhs"]["l"] == 0 and not st["lhs"]["p"] and st["rv"]["k"] == "agg" and len(st["rv"]["fields"]) == 2:
            pl = st["rv"]["fields"][1].get("m") or st["rv"]["fields"][1].get("c")
            if pl is not None and not pl["p"]:
                disp_l = pl["l"]
    if disp_l is None:
        return
    for _ in range(3):
        ds = sb.defs().get(disp_l, [])
        if len(ds) == 1 and ds[0][2] == "assign" and ds[0][3]["rv"]["k"] in ("use", "cast"):
            pl = ds[0][3]["rv"]["a"].get("m") or ds[0][3]["rv"]["a"].get("c")
            if pl is not None and not pl["p"]:
                disp_l = pl["l"]
                continue
        break
    loops = sb.loops()
    forms = []
    for (bi, si, kind, payload) in sb.defs().get(disp_l, []):
        if kind != "assign" or not any(bi in bl for bl in loops.values()):
            continue
        a = affine(sb.term_of_rvalue(payload["rv"]), None)
        if a is None:
            return
        forms.append(a)
    if not forms:
        return
    for a in forms:
        ci = cw = 0
        other = False
        for k, v in a[0].items():
            if k == W:
                cw = v
            elif any(x[0] == "call" and x[1].endswith("::next") for x in walk(k)):
                ci += v
            else:
                other = True
        if other or ci not in (1, -1):
            rep.inconc(R3, "search: the reported displacement is %s, not an affine function of the candidate index and the window length" % fmt_affine(a)[:80])
            return
        # extreme value of  ci*i + cw*W + c0  over  i in [lo, hi)
        if ci == -1:
            # largest at i = lo
            ext = ({k: cw * (1 if k == W else 0) - la[0].get(k, 0) for k in set(la[0]) | {W}}, a[1] - la[1])
        else:
            # largest at i = hi - 1
            ext = ({k: cw * (1 if k == W else 0) + ha[0].get(k, 0) for k in set(ha[0]) | {W}}, a[1] + ha[1] - 1)
        ext = ({k: v for k, v in ext[0].items() if v}, ext[1])
        if ext == ({W: 1}, 0):
            rep.ok(R3, {"farthest_candidate": "displacement = window length is tried"})
        elif set(ext[0]) <= {W}:
            rep.violation(R3, sb.name, "window-edge", "the largest displacement the search can report is %s, not the window length: a repetition whose only earlier copy starts at the far edge of the window is never found" % fmt_affine(ext), where)
        else:
            rep.inconc(R3, "search: largest reported displacement is %s" % fmt_affine(ext)[:80])


def search_contract(facts, rep, R3, sb):
    where = "%s:%s" % (sb.file, sb.line)
    try:
        paths = enum_paths(sb)
    except PathLimit:
        rep.inconc(R3, "search: too many paths")
        return
    # parameters by position: (bytes, new_ptr, new_length, old_ptr, old_length)
    P = lambda i: ("param", i, sb.local_name(i))
    outer = inner = None
    for p in paths:
        for (bb, term, vals, neg, dty) in p.conds:
            if term[0] == "discr" and term[1][0] == "call" and term[1][1].endswith("::next"):
                rng = [x for x in walk(term[1]) if x[0] == "agg" and x[2] and x[2].endswith("ops::Range")]
                if rng:
                    lo, hi = rng[0][4]
                    if any(x == P(5) for x in walk(hi)):
                        outer = (lo, hi, term[1])
                    elif hi == P(3):
                        inner = (lo, hi, term[1])
    if outer is not None:
        farthest_candidate(rep, R3, sb, outer, P, where)
    if outer is None or inner is None:
        rep.inconc(R3, "search loops not recognised")
        return
    lo, hi, ocall = outer
    a = affine(hi, None)
    # every start except possibly the last one: upper bound old_length - 1 or old_length
    good = lo == ("const", 0, "usize") and a is not None and list(a[0].values()) == [1] and a[1] in (0, -1)
    if good:
        rep.ok(R3, {"outer": "i in 0 .. old_length%+d" % a[1]})
    else:
        rep.violation(R3, sb.name, "outer-range", "candidates range over %s .. %s: the whole window [0, old_length) is not searched" % (fmt(lo), fmt(hi)[:60]), where)
    ilo, ihi, icall = inner
    if ilo == ("const", 0, "usize") and ihi == P(3):
        rep.ok(R3, {"inner": "j in 0 .. new_length"})
    else:
        rep.violation(R3, sb.name, "inner-range", "comparison runs over %s .. %s, not the look-ahead" % (fmt(ilo), fmt(ihi)[:40]), where)
    i_item = ("field", ("downcast", ocall, "Some", 1), 0, 0, None)
    # comparison operands
    cmp_ok = None
    inc_ok = None
    upd_ok = None
    names = {sb.local_name(l): l for l in range(len(sb.locals)) if sb.local_name(l)}
    for p in paths:
        env = p.env or {}
        for (bb, term, vals, neg, dty) in p.conds:
            ct = cond_truth((term, vals, neg, dty))
            if ct and ct[0][0] == "bin" and ct[0][1] in ("Ne", "Eq"):
                l, r = ct[0][2], ct[0][3]
                if strip_refs(l)[0] == "index" and strip_refs(r)[0] == "index":
                    ia = affine(strip_refs(l)[2], None)
                    ib = affine(strip_refs(r)[2], None)
                    if ia and ib:
                        ka = set(fmt(norm(k))[:12] for k in ia[0])
                        sa = {norm(k) for k in ia[0]}
                        sb_ = {norm(k) for k in ib[0]}
                        # one side = old_ptr + i + j, other = new_ptr + j
                        has = lambda s, t: any(x == norm(t) for x in s)
                        j_in_a = any(k[0] == "field" and k[1][0] == "downcast" for k in sa)
                        ok = ((has(sa, P(4)) and has(sb_, P(2))) or (has(sa, P(2)) and has(sb_, P(4)))) and len(sa) + len(sb_) == 5
                        cmp_ok = ok if cmp_ok is None else (cmp_ok and ok)
                    equal = (ct[0][1] == "Eq") == ct[1]
        # counter increment only after an equal comparison
    # update rule
    strict = 0
    for p in paths:
        env = p.env or {}
        gt = None
        for (bb, term, vals, neg, dty) in p.conds:
            ct = cond_truth((term, vals, neg, dty))
            if ct and ct[0][0] == "bin" and ct[0][1] in ("Gt", "Ge", "Lt", "Le") and ct[0][2][0] == "var" and ct[0][3][0] == "var":
                gt = (ct[0][1], ct[0][2], ct[0][3], ct[1])
        if gt is None:
            continue
        op, cur, best, truth = gt
        best_l = best[1]
        new_best = env.get(best_l)
        # which local holds the displacement: the other component of the returned tuple
        disp_l = None
        for q in paths:
            if q.end == "ret" and q.ret[0] == "agg" and q.ret[1] == "tuple":
                for x in q.ret[4]:
                    if x[0] == "var" and x[1] != best_l:
                        disp_l = x[1]
        if disp_l is None:
            continue
        new_disp = env.get(disp_l)
        if op not in ("Gt", "Ge"):
            upd_ok = "the best match is replaced under %s (specified: when the candidate is longer)" % op
            continue
        if truth:
            strict += 1
            d = new_disp
            if d is not None and d[0] == "field" and d[1][0] == "bin":
                d = d[1]
            okd = d is not None and d[0] == "bin" and d[1].startswith("Sub") and d[2] == P(5) and any(x[0] == "downcast" for x in walk(d[3]))
            if new_best != cur or not okd:
                upd_ok = "on improvement best becomes %s and displacement %s (specified: candidate length, old_length - i)" % (fmt(new_best)[:30] if new_best else None, fmt(new_disp)[:50] if new_disp else None)
        else:
            if new_best not in (None, best) and new_best != ("var", best_l, sb.local_name(best_l)):
                upd_ok = "best is overwritten without an improvement"
            if new_disp is not None and new_disp != ("var", disp_l, sb.local_name(disp_l)):
                upd_ok = "displacement changes without an improvement"
    if cmp_ok:
        rep.ok(R3, {"compare": "bytes[old_ptr+i+j] vs bytes[new_ptr+j]"})
    else:
        rep.violation(R3, sb.name, "compare", "the byte comparison is not window[old_ptr + i + j] against lookahead[new_ptr + j]", where)
    if strict and upd_ok is None:
        rep.ok(R3, {"update": "strict improvement; (best, displacement) assigned together"})
    else:
        rep.violation(R3, sb.name, "update", upd_ok or "no strict-improvement update found", where)
    # result: (best as i32, disp)
    rets = [p for p in paths if p.end == "ret" and p.ret[0] == "agg" and p.ret[1] == "tuple"]
    if rets and all(len(p.ret[4]) == 2 for p in rets):
        rep.ok(R3, {"returns": "(best length, displacement)"})
    else:
        rep.violation(R3, sb.name, "returns", "search does not return a (length, displacement) pair", where)
