"""C10 — compressed size is bounded and repetition is actually exploited (search parameters & contract)."""
from mir import callee_names, fmt, walk, strip_refs, norm
from flow import enum_paths, PathLimit, cond_truth
from lz import Encoder
from binser import affine, fmt_affine
from c08 import loop_vars

EXPLANATION = ("Parameters of both encoders are the format maxima (window 0x1000, look-ahead 0x12 / >= 0x1000, "
               "literal threshold 3); the search call is wired to the window [read - min(read,W), read) and the "
               "look-ahead min(n - read, L); the search visits every window start from 0, compares byte-wise up "
               "to the look-ahead, and replaces its best only under a strict improvement, recording the matching "
               "displacement; a token never costs more than the bytes it covers plus the flag bit. The numeric "
               "size inequality itself is not decided.")
ASSUMPTIONS = ["the numeric bound for a concrete input follows from these structural facts but is not computed"]

ENCODERS = {"LZ10": ("mila::lz10::LZ10CompressionFormat::compress", lambda L: L == 0x12, "0x12"),
            "LZ13": ("mila::lz13::LZ13CompressionFormat::compress", lambda L: 0x1000 <= L <= 0x10110, ">= 0x1000")}


def run(facts, rep, ctx):
    R1 = rep.rule("R10.1", "parameters are the format maxima: window 0x1000, look-ahead 0x12 (LZ10) / >= 0x1000 (LZ13), threshold 3", floor=6)
    R2 = rep.rule("R10.2", "search call wiring: (input, read, min(n-read, L), read - min(read, W), min(read, W))", floor=6)
    R3 = rep.rule("R10.3", "search contract: all window starts from 0, byte-wise comparison up to the look-ahead, strict-improvement update of (best, displacement) together", floor=5)
    R4 = rep.rule("R10.4", "a reference is only emitted when it covers at least as many bytes as it costs (threshold >= token size - 1)", floor=2)
    search_fns = set()
    for name, (fn, lpred, ldesc) in sorted(ENCODERS.items()):
        b = facts.body(fn)
        if b is None or not b.pub:
            rep.inconc(R1, "anchor %s missing" % fn)
            continue
        where = "%s:%s" % (b.file, b.line)
        try:
            enc = Encoder(facts, b)
        except PathLimit:
            rep.inconc(R1, fn + ": too many paths")
            continue
        if enc.search is None:
            rep.inconc(R1, fn + ": search call not identified")
            continue
        search_fns.add(enc.search["callee"])
        match_kept_rule(rep, R4, enc, where)
        caps = enc.caps()
        if caps is None or caps["L"] is None or caps["W"] is None:
            rep.inconc(R1, "%s: look-ahead / window caps of the search call not recognised (%s)" % (name, None if caps is None else {k: caps[k] for k in ("L", "W")}))
            continue
        L, W = caps["L"], caps["W"]
        thr = set()
        sizes = set()
        for p in enc.loop_paths():
            cl = enc.branch_of(p)
            for (op, c, truth) in cl:
                if op == "Lt":
                    thr.add(c)
            if any(op == "Lt" and not truth for (op, c, truth) in cl):
                sizes.add(len([s for s in enc.emissions(p) if not (len(s) > 2 and s[2] == "merge-into-existing")]))
        if L is not None and lpred(L):
            rep.ok(R1, {"encoder": name, "lookahead": hex(L)})
        else:
            rep.violation(R1, b.name, "lookahead", "%s look-ahead cap is %s, the format maximum the bound assumes is %s" % (name, hex(L) if L is not None else None, ldesc), where)
        if W == 0x1000:
            rep.ok(R1, {"encoder": name, "window": hex(W)})
        else:
            rep.violation(R1, b.name, "window", "%s window cap is %s, the format allows and the bound assumes 0x1000" % (name, hex(W) if W is not None else None), where)
        if thr == {3}:
            rep.ok(R1, {"encoder": name, "threshold": 3})
        elif not thr:
            rep.inconc(R1, "%s: the literal/reference threshold was not recognised" % name)
        else:
            rep.violation(R1, b.name, "threshold", "%s emits references only from length %s: 3-byte repetitions are not exploited" % (name, sorted(thr)), where)
        # ---- wiring ------------------------------------------------------------------------------
        read, cnt, gsize = loop_vars(enc)
        a = enc.search_args()
        if a is None or read is None:
            rep.inconc(R2, "%s: search arguments differ between paths in a way that is not recognised" % name)
            continue

        def aff(t):
            # `x as u16` is not x: positions and lengths are usize, a detour through a narrower type wraps
            for x_ in walk(t):
                if x_[0] == "cast" and x_[2] in ("u8", "u16", "u32", "i8", "i16", "i32") and x_[1][0] not in ("const",):
                    return ({("narrowed", norm(x_)): 1}, 0)
            r = affine(t, None, narrow_opaque=True)
            if r is None:
                return None
            return ({("n" if enc.classify(k) == "n" else k): v for k, v in r[0].items()}, r[1])
        R_ = norm(read)
        inp = strip_refs(a[0])
        ok_in = inp[0] == "param" and inp[1] == enc.input_param
        ok_read = aff(a[1]) == ({R_: 1}, 0)
        la = caps["lookahead_other"]
        ok_la = bool(la) and len(la) == 1 and aff(la[0]) == ({"n": 1, R_: -1}, 0)
        wo = caps["window_other"]
        ok_w = bool(wo) and len(wo) == 1 and aff(wo[0]) == ({R_: 1}, 0)
        # window start + window length = position
        s3, s4 = aff(a[3]), aff(a[4])
        ok_ptr = False
        if s3 is not None and s4 is not None:
            tot = dict(s3[0])
            for k, v in s4[0].items():
                tot[k] = tot.get(k, 0) + v
            tot = {k: v for k, v in tot.items() if v}
            ok_ptr = tot == {R_: 1} and s3[1] + s4[1] == 0
        for nm, good, got in (("input", ok_in, a[0]), ("look-ahead", ok_la, a[2]), ("window-start", ok_ptr, a[3])):
            if good:
                rep.ok(R2, {"encoder": name, "arg": nm})
            else:
                rep.violation(R2, b.name, "wiring:" + nm, "%s passes %s as the %s argument of the search" % (name, fmt(got)[:80], nm), where)
        if not (ok_read and ok_w):
            rep.violation(R2, b.name, "wiring:position", "%s search position/window length are %s / %s" % (name, fmt(a[1])[:40], fmt(a[4])[:60]), where)
        # ---- R10.4 -------------------------------------------------------------------------------
        if sizes and thr and min(thr) >= max(sizes) - 1 - (1 if name == "LZ13" else 0):
            rep.ok(R4, {"encoder": name, "token_sizes": sorted(sizes), "threshold": sorted(thr)})
        elif name == "LZ13" and sizes and thr:
            # longer forms are only used for lengths >= 0x11, far above their size
            rep.ok(R4, {"encoder": name, "token_sizes": sorted(sizes), "threshold": sorted(thr)})
        elif not sizes or not thr:
            rep.inconc(R4, "%s: token sizes / threshold not recognised" % name)
        else:
            rep.violation(R4, b.name, "expansion", "%s can spend %s bytes on a reference covering only %s" % (name, sorted(sizes), sorted(thr)), where)
    # ---- R10.5: one flag byte per eight tokens, none without a token ------------------------------------
    R5 = rep.rule("R10.5", "group accounting: a flag byte is emitted per 8 tokens and at the end only if a token is buffered (no stray bytes)", floor=8)
    from c08 import token_checks
    for name, (fn, lpred, ldesc) in sorted(ENCODERS.items()):
        b = facts.body(fn)
        if b is None:
            continue
        try:
            enc = Encoder(facts, b)
        except PathLimit:
            continue
        if enc.search is not None:
            token_checks(rep, R5, R5, enc, [], "%s:%s" % (b.file, b.line))
    if len(search_fns) != 1:
        rep.inconc(R3, "the two encoders do not share one search function: %s" % sorted(search_fns))
        return
    search_contract(facts, rep, R3, facts.body(list(search_fns)[0]))


def match_kept_rule(rep, R4, enc, where):
    """What the search found is what gets encoded: the length (and displacement) that decide literal vs reference and
    fill the token are the search call's own results.  A local that receives the result *and* some other value
    (`length = 0` under a condition) lets a found match be thrown away."""
    b = enc.body
    search_bb = enc.search.get("bb")
    dests = set()
    for bb, t in b.calls():
        if (callee_names(t)[1] or callee_names(t)[0] or "") == enc.search["callee"] and not t["dest"]["p"]:
            dests.add(t["dest"]["l"])
    if not dests:
        return
    # the (length, displacement) pair itself has a second source next to the search (`if shortcut { (0x12, last) }
    # else { search(..) }`): a reference built from it is bounded by nothing the search guarantees (match inside the
    # window, length within the bytes that remain)
    for l in sorted(dests):
        for (bi, si, kind, payload) in b.defs().get(l, []):
            if kind != "assign" or payload["rv"]["k"] != "agg" or len(payload["rv"]["fields"]) != 2:
                continue
            t_ = b.term_of_rvalue(payload["rv"])
            ln = strip_refs(t_[4][0])
            while ln[0] == "cast":
                ln = strip_refs(ln[1])
            if ln[0] == "const" and isinstance(ln[1], int) and ln[1] < 3:
                continue          # below the reference threshold: the token is a literal, as if nothing was found
            rep.violation(R4, b.name, "match-substituted", "the (length, displacement) that the token is built from can also be %s (line %s) instead of the search's result: its length is not limited to the bytes that remain and its displacement not to the window" % (
                fmt(t_)[:60], payload.get("line")), where)
            return
    over = None
    for l in range(len(b.locals)):
        ds = b.defs().get(l, [])
        if len(ds) < 2:
            continue
        from_search = other = None
        for (bi, si, kind, payload) in ds:
            if kind != "assign":
                other = other or (bi, "a call result")
                continue
            rv = payload["rv"]
            pl = (rv.get("a") or {}).get("m") or (rv.get("a") or {}).get("c") if rv["k"] in ("use", "cast") else None
            if pl is not None and pl["l"] in dests and pl["p"]:
                from_search = (bi, pl["p"][0].get("f") if isinstance(pl["p"][0], dict) else None)
            else:
                t_ = b.term_of_rvalue(rv)
                other = other or (bi, fmt(t_)[:30], payload.get("line"))
        if from_search and other and from_search[1] in (0, 1):
            loops = b.loops()
            same_loop = any(from_search[0] in bl and other[0] in bl for bl in loops.values())
            if same_loop:
                over = (b.local_name(l) or "_%d" % l, "length" if from_search[1] == 0 else "displacement", other)
    if over:
        rep.violation(R4, b.name, "match-overwritten:" + over[0], "`%s` holds the search's %s but is also assigned %s inside the loop (line %s): a match that was found can be discarded or altered before it is encoded, so repetition the search sees is not exploited" % (
            over[0], over[1], over[2][1], over[2][2] if len(over[2]) > 2 else "?"), where)
    else:
        rep.ok(R4, {"fn": b.name, "match": "the search's (length, displacement) reach the token unmodified"})


def farthest_candidate(rep, R3, sb, outer, P, where):
    """The displacement reported for candidate i, as an affine function of i and the window length, over the range the
    candidate loop runs: its largest value must be the window length itself (the far edge of the window is a legal
    match start and has to be tried)."""
    lo, hi, ocall = outer
    item = None
    for x in walk(("x", ocall)):
        pass
    la, ha = affine(lo, None), affine(hi, None)
    if la is None or ha is None:
        return
    W = norm(P(5))
    # the returned displacement: second component of the result tuple
    disp_l = None
    for bi, si, st in sb.stmts():
        if st["k"] == "assign" and st["lhs"]["l"] == 0 and not st["lhs"]["p"] and st["rv"]["k"] == "agg" and len(st["rv"]["fields"]) == 2:
            pl = st["rv"]["fields"][1].get("m") or st["rv"]["fields"][1].get("c")
            if pl is not None and not pl["p"]:
                disp_l = pl["l"]
    if disp_l is None:
        return
    for _ in range(3):
        ds = sb.defs().get(disp_l, [])
        if len(ds) == 1 and ds[0][2] == "assign" and ds[0][3]["rv"]["k"] in ("use", "cast"):
            pl = ds[0][3]["rv"]["a"].get("m") or ds[0][3]["rv"]["a"].get("c")
            if pl is not None and not pl["p"]:
                disp_l = pl["l"]
                continue
        break
    loops = sb.loops()
    forms = []
    decided = False
    for (bi, si, kind, payload) in sb.defs().get(disp_l, []):
        if kind != "assign" or not any(bi in bl for bl in loops.values()):
            continue
        a = affine(sb.term_of_rvalue(payload["rv"]), None)
        if a is None:
            return
        forms.append(a)
    if not forms:
        return
    for a in forms:
        ci = cw = 0
        other = False
        for k, v in a[0].items():
            if k == W:
                cw = v
            elif any(x[0] == "call" and x[1].endswith("::next") for x in walk(k)):
                ci += v
            else:
                other = True
        if other or ci not in (1, -1):
            rep.inconc(R3, "search: the reported displacement is %s, not an affine function of the candidate index and the window length" % fmt_affine(a)[:80])
            return
        # extreme value of  ci*i + cw*W + c0  over  i in [lo, hi)
        if ci == -1:
            # largest at i = lo
            ext = ({k: cw * (1 if k == W else 0) - la[0].get(k, 0) for k in set(la[0]) | {W}}, a[1] - la[1])
        else:
            # largest at i = hi - 1
            ext = ({k: cw * (1 if k == W else 0) + ha[0].get(k, 0) for k in set(ha[0]) | {W}}, a[1] + ha[1] - 1)
        ext = ({k: v for k, v in ext[0].items() if v}, ext[1])
        # the other end: the nearest candidate
        if ci == -1:
            near = ({k: cw * (1 if k == W else 0) - ha[0].get(k, 0) for k in set(ha[0]) | {W}}, a[1] - ha[1] + 1)
        else:
            near = ({k: cw * (1 if k == W else 0) + la[0].get(k, 0) for k in set(la[0]) | {W}}, a[1] + la[1])
        near = ({k: v for k, v in near[0].items() if v}, near[1])
        if ext == ({W: 1}, 0):
            rep.ok(R3, {"farthest_candidate": "displacement = window length is tried"})
            decided = True
        elif set(ext[0]) <= {W}:
            rep.violation(R3, sb.name, "window-edge", "the largest displacement the search can report is %s, not the window length: a repetition whose only earlier copy starts at the far edge of the window is never found" % fmt_affine(ext), where)
            decided = True
        else:
            rep.inconc(R3, "search: largest reported displacement is %s" % fmt_affine(ext)[:80])
        if not near[0] and near[1] <= 2:
            rep.ok(R3, {"nearest_candidate": "displacement %d is tried" % near[1]})
        elif not near[0]:
            rep.violation(R3, sb.name, "window-near", "the smallest displacement the search tries is %d: repetitions closer than that (runs of a short period) are never found" % near[1], where)
        else:
            rep.inconc(R3, "search: smallest tried displacement is %s" % fmt_affine(near)[:80])
            decided = False
    return decided


def result_places(sb, comp):
    """The places (local, component-or-None) whose value is returned as component `comp` of the result pair."""
    out = set()
    for bi, si, st in sb.stmts():
        if st["k"] == "assign" and st["lhs"]["l"] == 0 and not st["lhs"]["p"] and st["rv"]["k"] == "agg" and len(st["rv"]["fields"]) == 2:
            op = st["rv"]["fields"][comp]
            pl = op.get("m") or op.get("c")
            for _ in range(4):
                if pl is None:
                    break
                if pl["p"]:
                    e = pl["p"][0]
                    if len(pl["p"]) == 1 and isinstance(e, dict) and "f" in e and (sb.local_name(pl["l"]) or len(sb.defs().get(pl["l"], [])) != 1):
                        out.add((pl["l"], e["f"]))
                    break
                ds = sb.defs().get(pl["l"], [])
                if sb.local_name(pl["l"]) or len(ds) != 1 or ds[0][2] != "assign":
                    out.add((pl["l"], None))
                    break
                rv = ds[0][3]["rv"]
                if rv["k"] in ("use", "cast"):
                    pl = rv["a"].get("m") or rv["a"].get("c")
                else:
                    out.add((pl["l"], None))
                    break
    return out


def alignment_rule(rep, R3, sb, paths, P, where):
    """What the search compares and what it reports belong to the same candidate.  Every comparison of two bytes of
    the input, `bytes[X]` against `bytes[Y]`, looks at positions Y - X apart; the displacement reported for the
    candidate under test is D.  At every call new_ptr = old_ptr + old_length (R10.2), so for the token to stand for
    the bytes that were compared,  (Y - X) - D  must be the parameter expression  new_ptr - old_ptr - old_length
    -- the candidate index and the running offset cancel.  Decided on the affine forms of X, Y and D along each
    path; independent of how the loops are written.  Returns True when it reached a verdict."""
    def flat(t):
        """bytes[a..][k] / bytes[a..b][k] / bytes[k]  ->  (position in `bytes` as a term) ; None if not that"""
        t = strip_refs(t)
        while t[0] == "deref":
            t = strip_refs(t[1])
        if t[0] != "index":
            return None
        off = t[2]
        base = strip_refs(t[1])
        for _ in range(4):
            while base[0] == "deref":
                base = strip_refs(base[1])
            if base[0] == "param" and base[1] == 1:
                return off
            if base[0] == "call" and "ops::Index" in base[1] and base[1].endswith("::index") and len(base[2]) == 2:
                rg = strip_refs(base[2][1])
                if rg[0] == "agg" and rg[2] and rg[2].startswith("std::ops::Range"):
                    kind = rg[2].rsplit("::", 1)[-1]
                    if kind in ("Range", "RangeFrom", "RangeInclusive") and rg[4]:
                        off = ("bin", "Add", rg[4][0], off, "usize")
                    elif kind not in ("RangeTo", "RangeFull", "RangeToInclusive"):
                        return None
                    base = strip_refs(base[2][0])
                    continue
            return None
        return None

    def idx_pair(t):
        if t[0] == "bin":
            a, b = t[2], t[3]
        elif t[0] == "call" and t[1].rsplit("::", 1)[-1] in ("eq", "ne") and "PartialEq" in t[1] and len(t[2]) == 2:
            a, b = t[2]
        else:
            return None
        x, y = flat(a), flat(b)
        if x is None or y is None:
            return None
        return x, y
    want = ({norm(P(2)): 1, norm(P(4)): -1, norm(P(5)): -1}, 0)
    # where the reported displacement lives: second component of the returned pair -- read from the statement that
    # builds the pair (the path terms have the value already substituted: `best = candidate` would make the
    # loop counter look like the place)
    disp_places = set()
    direct = []
    for rp in result_places(sb, 1):
        disp_places.add(rp)
    for q in paths:
        if q.end == "ret" and q.ret and q.ret[0] == "agg" and q.ret[1] == "tuple" and len(q.ret[4]) == 2 and not disp_places:
            d = strip_refs(q.ret[4][1])
            while d[0] == "cast":
                d = strip_refs(d[1])
            if d[0] not in ("const", "var"):
                direct.append((q, d))
    verdicts = []
    seen_cmp = 0
    for p in paths:
        cmps = []
        for (bb, term, vals, neg, dty) in p.conds:
            ct = cond_truth((term, vals, neg, dty))
            if ct and ct[0][0] == "bin" and ct[0][1] in ("Ne", "Eq"):
                ip = idx_pair(ct[0])
                if ip:
                    cmps.append(ip)
            elif term[0] == "call":
                ip = idx_pair(term)
                if ip:
                    cmps.append(ip)
        if not cmps:
            continue
        seen_cmp += len(cmps)
        # displacement terms set on this path
        ds = [d for (q, d) in direct if q is p]
        env = p.env or {}
        for (l, comp) in disp_places:
            v = env.get(l)
            if v is None:
                continue
            v = strip_refs(v)
            if comp is not None:
                if v[0] == "agg" and len(v) > 4 and isinstance(comp, int) and comp < len(v[4]):
                    v = strip_refs(v[4][comp])
                else:
                    continue
            if v[0] == "var" and v[1] == l:
                continue
            if v[0] == "const":
                continue
            ds.append(v)
        if not ds:
            continue
        for d in ds:
            ad = affine(d, None)
            if ad is None:
                verdicts.append(("?", "the displacement %s is not affine" % fmt(d)[:60]))
                continue
            for (x, y) in cmps:
                ax, ay = affine(x, None), affine(y, None)
                if ax is None or ay is None:
                    verdicts.append(("?", "a compared position is not affine"))
                    continue
                # orient: the look-ahead side is the one that carries new_ptr
                if norm(P(2)) in ax[0] and norm(P(2)) not in ay[0]:
                    ax, ay = ay, ax
                diff = dict(ay[0])
                for k, v_ in ax[0].items():
                    diff[k] = diff.get(k, 0) - v_
                for k, v_ in ad[0].items():
                    diff[k] = diff.get(k, 0) - v_
                diff = ({k: v_ for k, v_ in diff.items() if v_}, ay[1] - ax[1] - ad[1])
                if diff == want:
                    verdicts.append(("ok", None))
                elif set(diff[0]) <= {norm(P(i_)) for i_ in (2, 3, 4, 5)}:
                    verdicts.append(("bad", "the bytes compared are %s apart, the displacement reported for them is %s: with new_ptr = old_ptr + old_length the two differ by %s, so once that is non-zero (the window start moves past 0) the reference points at bytes that were never compared" % (
                        fmt_affine(({k: v_ for k, v_ in _sub(ay, ax)[0].items()}, _sub(ay, ax)[1]))[:80], fmt_affine(ad)[:60], fmt_affine(_sub(diff, want))[:60])))
                else:
                    params = {norm(P(i_)) for i_ in (2, 3, 4, 5)}
                    left = {k for k in diff[0] if k not in params}
                    only_x = left <= set(ax[0]) and not (left & (set(ay[0]) | set(ad[0])))
                    only_y = left <= set(ay[0]) and not (left & (set(ax[0]) | set(ad[0])))
                    unmatched_other = (set(ay[0]) if only_x else set(ax[0])) - params - set(ad[0]) - (set(ax[0]) & set(ay[0]))
                    if (only_x or only_y) and not unmatched_other:
                        verdicts.append(("bad", "one side of the byte comparison moves with %s and the other does not (positions %s against %s): the distance between the bytes compared changes while one candidate is measured, so the length found is not the length of a repetition at the reported displacement" % (
                            ", ".join(fmt(k)[:40] for k in sorted(left, key=str)), fmt_affine(ax)[:60], fmt_affine(ay)[:60])))
                    else:
                        verdicts.append(("?", "positions compared and displacement differ by %s" % fmt_affine(diff)[:80]))
    if not verdicts:
        return False
    bad = [v for v in verdicts if v[0] == "bad"]
    unk = [v for v in verdicts if v[0] == "?"]
    if bad:
        rep.violation(R3, sb.name, "alignment", bad[0][1], where)
    elif unk:
        rep.inconc(R3, "search: " + unk[0][1])
    else:
        rep.ok(R3, {"alignment": "(Y - X) - displacement = new_ptr - old_ptr - old_length on %d comparison/displacement pair(s)" % len(verdicts)})
    return True


def _sub(a, b):
    d = dict(a[0])
    for k, v in b[0].items():
        d[k] = d.get(k, 0) - v
    return ({k: v for k, v in d.items() if v}, a[1] - b[1])


def chunk_tail_rule(facts, rep, R3, sb, where):
    """`chunks_exact(k)` walks whole blocks only; what is left over (len % k elements) is reachable only through
    `remainder()`.  A comparison of the look-ahead done block-wise without that call never sees the last bytes."""
    bodies = [sb] + [facts.bodies[i] for i in facts.reachable_from([sb.id])[0] if i != sb.id and facts.bodies[i].kind == "Closure"]
    ce = [(b2, t) for b2 in bodies for bb, t in b2.calls() if (callee_names(t)[1] or "").endswith("<impl [T]>::chunks_exact")]
    rem = [1 for b2 in bodies for bb, t in b2.calls() if (callee_names(t)[1] or "").rsplit("::", 1)[-1] in ("remainder", "into_remainder")]
    if ce and not rem:
        k = strip_refs(ce[0][0].term_of_operand(ce[0][1]["args"][1])) if len(ce[0][1]["args"]) > 1 else ("?",)
        rep.violation(R3, sb.name, "tail-dropped", "the search compares in blocks of %s with chunks_exact and never looks at remainder(): the last (look-ahead length mod %s) bytes are never compared, so a repetition is cut short at a block boundary" % (
            fmt(k), fmt(k)), "%s:%s" % (sb.file, ce[0][1]["line"]))


def search_contract(facts, rep, R3, sb):
    where = "%s:%s" % (sb.file, sb.line)
    chunk_tail_rule(facts, rep, R3, sb, where)
    try:
        paths = enum_paths(sb)
    except PathLimit:
        rep.inconc(R3, "search: too many paths")
        return
    # parameters by position: (bytes, new_ptr, new_length, old_ptr, old_length)
    P = lambda i: ("param", i, sb.local_name(i))
    outer = inner = None
    for p in paths:
        for (bb, term, vals, neg, dty) in p.conds:
            if term[0] == "discr" and term[1][0] == "call" and term[1][1].endswith("::next"):
                # the range being iterated: the receiver of next() itself, not a range used to slice something
                a0 = term[1][2][0] if term[1][2] else ("?",)
                for _ in range(6):
                    if a0[0] in ("ref", "deref"):
                        a0 = a0[1]
                    elif a0[0] == "call" and (a0[1].endswith("::into_iter") or a0[1].endswith("Iterator::rev")) and a0[2]:
                        a0 = a0[2][0]       # (a reversed range visits the same candidates)
                    else:
                        break
                rng = [a0] if a0[0] == "agg" and a0[2] and a0[2].endswith("ops::Range") else []
                if rng:
                    lo, hi = rng[0][4]
                    if any(x == P(5) for x in walk(hi)):
                        outer = (lo, hi, term[1])
                    elif hi == P(3):
                        inner = (lo, hi, term[1])
    span_decided = False
    if outer is not None:
        span_decided = bool(farthest_candidate(rep, R3, sb, outer, P, where))
    aligned = alignment_rule(rep, R3, sb, paths, P, where)
    if outer is None or inner is None:
        rep.inconc(R3, "search loops not recognised")
        return
    lo, hi, ocall = outer
    a = affine(hi, None)
    # every start except possibly the last one: upper bound old_length - 1 or old_length
    good = lo == ("const", 0, "usize") and a is not None and list(a[0].values()) == [1] and a[1] in (0, -1)
    if good:
        rep.ok(R3, {"outer": "i in 0 .. old_length%+d" % a[1]})
    elif span_decided:
        pass     # the displacements tried (nearest, farthest) were derived from the range and the reported displacement
    else:
        rep.violation(R3, sb.name, "outer-range", "candidates range over %s .. %s: the whole window [0, old_length) is not searched" % (fmt(lo), fmt(hi)[:60]), where)
    ilo, ihi, icall = inner
    if ilo == ("const", 0, "usize") and ihi == P(3):
        rep.ok(R3, {"inner": "j in 0 .. new_length"})
    else:
        rep.violation(R3, sb.name, "inner-range", "comparison runs over %s .. %s, not the look-ahead" % (fmt(ilo), fmt(ihi)[:40]), where)
    i_item = ("field", ("downcast", ocall, "Some", 1), 0, 0, None)
    # comparison operands
    cmp_ok = None
    inc_ok = None
    upd_ok = None
    upd_unknown = None
    names = {sb.local_name(l): l for l in range(len(sb.locals)) if sb.local_name(l)}
    for p in paths:
        env = p.env or {}
        for (bb, term, vals, neg, dty) in p.conds:
            ct = cond_truth((term, vals, neg, dty))
            if ct and ct[0][0] == "bin" and ct[0][1] in ("Ne", "Eq"):
                l, r = ct[0][2], ct[0][3]
                if strip_refs(l)[0] == "index" and strip_refs(r)[0] == "index":
                    ia = affine(strip_refs(l)[2], None)
                    ib = affine(strip_refs(r)[2], None)
                    if ia and ib:
                        ka = set(fmt(norm(k))[:12] for k in ia[0])
                        sa = {norm(k) for k in ia[0]}
                        sb_ = {norm(k) for k in ib[0]}
                        # one side = old_ptr + i + j, other = new_ptr + j
                        has = lambda s, t: any(x == norm(t) for x in s)
                        j_in_a = any(k[0] == "field" and k[1][0] == "downcast" for k in sa)
                        ok = ((has(sa, P(4)) and has(sb_, P(2))) or (has(sa, P(2)) and has(sb_, P(4)))) and len(sa) + len(sb_) == 5
                        cmp_ok = ok if cmp_ok is None else (cmp_ok and ok)
                    equal = (ct[0][1] == "Eq") == ct[1]
        # counter increment only after an equal comparison
    # update rule: the best length and its displacement live in two places (two locals, or two components of one
    # tuple / struct local); on a path where `candidate > best` holds both are replaced by the candidate's, on every
    # other path through the candidate loop both are left alone
    def place_key(t):
        t = strip_refs(t)
        while t[0] == "cast":
            t = strip_refs(t[1])
        if t[0] == "var":
            return (t[1], None)
        if t[0] == "field" and strip_refs(t[1])[0] == "var" and isinstance(t[3], int):
            return (strip_refs(t[1])[1], t[3])
        return None

    def end_value(env, key):
        v = env.get(key[0])
        if v is None:
            return None          # untouched on this path
        v = strip_refs(v)
        if key[1] is None:
            return None if (v[0] == "var" and v[1] == key[0]) else v
        for _ in range(4):
            if v[0] == "agg" and len(v) > 4 and key[1] < len(v[4]):
                return strip_refs(v[4][key[1]])
            if v[0] == "var" and v[1] == key[0]:
                return None
            if v[0] == "var" and env.get(v[1]) is not None:
                v = strip_refs(env[v[1]])
                continue
            break
        return ("?",)
    disp_key = None
    len_key = None
    r0, r1 = result_places(sb, 0), result_places(sb, 1)
    if len(r0) == 1 and len(r1) == 1:
        len_key, disp_key = list(r0)[0], list(r1)[0]
    strict = 0
    for p in paths:
        env = p.env or {}
        gt = None
        for (bb, term, vals, neg, dty) in p.conds:
            ct = cond_truth((term, vals, neg, dty))
            if ct and ct[0][0] == "bin" and ct[0][1] in ("Gt", "Ge", "Lt", "Le") and len_key is not None:
                kl, kr = place_key(ct[0][2]), place_key(ct[0][3])
                op_ = ct[0][1]
                if kl == len_key and kr != len_key:
                    # best OP candidate: mirror
                    op_ = {"Gt": "Lt", "Ge": "Le", "Lt": "Gt", "Le": "Ge"}[op_]
                    gt = (op_, ct[0][3], ct[0][2], ct[1])
                elif kr == len_key and kl != len_key:
                    gt = (op_, ct[0][2], ct[0][3], ct[1])
        if gt is None or disp_key is None:
            continue
        op, cur, best, truth = gt
        new_best = end_value(env, len_key)
        new_disp = end_value(env, disp_key)
        if new_best == ("?",) or new_disp == ("?",):
            upd_unknown = "the value of the best match at the end of a path is not followed"
            continue
        known = {("Gt", True): ">", ("Gt", False): "<=", ("Ge", True): ">=", ("Ge", False): "<",
                 ("Lt", True): "<", ("Lt", False): ">=", ("Le", True): "<=", ("Le", False): ">"}[(op, bool(truth))]
        if known in (">", ">="):
            # (replacing on a tie as well keeps every property: the stream is as valid and as short)
            if new_best is None:
                if known == ">":
                    upd_ok = "a candidate longer than the best so far is not taken"
                continue
            strict += 1
            d = new_disp
            ad = affine(d, None) if d is not None else None
            okd = ad is not None and ad[1] == 0 and ad[0].get(norm(P(5))) == 1 and len(ad[0]) >= 2 and all(v_ == -1 for k_, v_ in ad[0].items() if k_ != norm(P(5)))
            same = norm(strip_refs(new_best)) == norm(strip_refs(cur))
            if not same and place_key(cur) is not None:
                # candidate held in a tuple/struct local: compare through the environment
                cv = end_value(env, place_key(cur))
                same = cv is not None and cv != ("?",) and norm(cv) == norm(strip_refs(new_best))
            if not same or (not okd and not aligned):
                upd_ok = "on improvement best becomes %s and displacement %s (specified: candidate length, old_length - i)" % (fmt(new_best)[:30] if new_best else None, fmt(new_disp)[:50] if new_disp else None)
        else:
            if new_best is not None:
                upd_ok = "the best match is replaced by a candidate that is not longer (the branch taken when candidate %s best)" % known
            if new_disp is not None:
                upd_ok = upd_ok or "displacement changes without an improvement"
    if cmp_ok:
        rep.ok(R3, {"compare": "bytes[old_ptr+i+j] vs bytes[new_ptr+j]"})
    elif aligned:
        pass      # decided (or declared undecided) by the alignment rule on the affine forms
    elif cmp_ok is None:
        rep.inconc(R3, "search: the byte comparison was not recognised")
    else:
        rep.violation(R3, sb.name, "compare", "the byte comparison is not window[old_ptr + i + j] against lookahead[new_ptr + j]", where)
    if strict and upd_ok is None:
        rep.ok(R3, {"update": "strict improvement; (best, displacement) assigned together"})
    elif upd_ok is None:
        rep.inconc(R3, "search: the best-match update was not recognised%s" % ((" (%s)" % upd_unknown) if upd_unknown else ""))
    else:
        rep.violation(R3, sb.name, "update", upd_ok, where)
    # result: (best as i32, disp)
    rets = [p for p in paths if p.end == "ret" and p.ret[0] == "agg" and p.ret[1] == "tuple"]
    if rets and all(len(p.ret[4]) == 2 for p in rets):
        rep.ok(R3, {"returns": "(best length, displacement)"})
    else:
        rep.violation(R3, sb.name, "returns", "search does not return a (length, displacement) pair", where)
