"""C18 — asset binary: reader, flag computation, size and writer tables agree for all 51 optional fields."""
import re
from mir import fmt, walk, strip_refs, norm, callee_names
from binser import rpo_index, root_of, affine, fmt_affine, const_fold
from flow import guards, dom_guards, control_deps, cond_truth, enum_paths, PathLimit

EXPLANATION = ("Four tables are extracted from the MIR with control-dependence guards: (a) reader: field stored, flag "
               "bit tested, read kind, presence companion; (b) flag computation: presence predicate and bit set per "
               "field; (c) writer: field written, presence predicate, write kind, in order; (d) record size. They "
               "must agree position by position for the name and all 51 optional fields; short/long form rules and "
               "the container framing are checked as well. Bit-exact value transport follows from kind/width "
               "agreement and C04 and is not separately decided.")
ASSUMPTIONS = ["every field kind occupies one 4-byte cell (string pointer, colour, f32, u32)"]

SPEC = "mila::asset_binary::AssetSpec"
BIN = "mila::asset_binary::AssetBinary"
KIND_R = {"read_string": "string", "read_flag_str": "string", "read_color": "colour", "read_f32": "f32", "read_u32": "u32"}
KIND_W = {"write_string": "string", "write_flag_str": "string", "write_color": "colour", "write_f32": "f32", "write_u32": "u32"}


def self_field(t, param=1):
    """If t denotes (*self).F (through refs / as_deref), return F."""
    for x in walk(t):
        if x[0] == "field" and len(x) > 4 and x[4] == SPEC and strip_refs(x[1])[0] in ("param",):
            return x[2]
    return None


def is_popcount(facts, name):
    """a call that counts the set bits of a byte: the crate's helper under any name, or u8::count_ones itself"""
    if not name:
        return False
    if name.endswith("count_bits") or name.endswith("::count_ones"):
        return True
    if getattr(facts, "renamed", {}).get(name, "").endswith("count_bits"):
        return True
    b = facts.raw_body(name)
    if b is not None and b.argc == 1 and b.local_ty(1) == "u8" and b.local_ty(0) == "usize":
        return any((callee_names(t)[1] or callee_names(t)[0] or "").endswith("::count_ones") for bb, t in b.calls()) or bool(b.loops())
    return False


def flag_bit_of_cond(term):
    """cond `flags[B] & MASK != 0`  ->  8*B + log2(MASK)"""
    for x in walk(term):
        if x[0] == "bin" and x[1] == "BitAnd":
            a, b = x[2], x[3]
            if a[0] == "const":
                a, b = b, a
            if b[0] == "const" and isinstance(b[1], int) and b[1] > 0 and b[1] & (b[1] - 1) == 0:
                byte = None
                for y in walk(a):
                    if y[0] == "call" and "ops::Index" in y[1] and y[2][1][0] == "const":
                        byte = y[2][1][1]
                    if y[0] == "index" and y[2][0] == "const":
                        byte = y[2][1]
                if byte is not None:
                    return 8 * byte + b[1].bit_length() - 1
    return None


def field_def(rd, local, fname, use_bb):
    """The rvalue term stored into `<local>.<fname>` that reaches block use_bb: the unique partial write to that
    field whose block dominates use_bb (None when absent or ambiguous)."""
    cands = []
    for (bi, si, st) in rd.partial_writes().get(local, []):
        if not isinstance(st, dict) or st.get("k") != "assign":
            continue
        pr = st["lhs"]["p"]
        if len(pr) == 1 and isinstance(pr[0], dict) and pr[0].get("name") == fname:
            cands.append((bi, st))
    dom = [(bi, st) for bi, st in cands if rd.dominates(bi, use_bb)]
    if len(dom) == 1 and len(cands) == 1:
        return rd.term_of_rvalue(dom[0][1]["rv"])
    return None


def decode_cond(rd, term, truth, use_bb, depth=0):
    """What a branch condition of the reader tests: ('bit', n, holds) -- flag bit n is set (holds) / clear;
    ('long', holds) -- the long-form marker / the long flag count; None when not recognised."""
    from lz import bitslice, NotBits
    t = term
    while t[0] in ("cast",) or (t[0] == "un" and t[1] == "Not"):
        if t[0] == "un":
            truth = not truth
            t = t[2]
        else:
            t = t[1]
    if depth > 4:
        return None
    if t[0] == "var" and rd.local_ty(t[1]) == "bool":
        # `opt.map_or(false, |b| test(b))` and similar: true only where the non-constant definition holds
        ds = [d for d in rd.defs().get(t[1], []) if d[2] == "assign"]
        terms = [rd.term_of_rvalue(d[3]["rv"]) for d in ds]
        consts = [x for x in terms if x[0] == "const"]
        others = [x for x in terms if x[0] != "const"]
        if len(ds) == len(rd.defs().get(t[1], [])) and len(others) == 1 and all(c[1] is False for c in consts) and truth:
            return decode_cond(rd, others[0], True, use_bb, depth + 1)
        return None
    if t[0] == "field" and isinstance(t[2], str) and len(t) > 4 and t[4] == SPEC:
        base = strip_refs(t[1])
        if base[0] == "var":
            loc = base[1]
        else:
            locs = [l for l in rd.partial_writes() if rd.local_ty(l).endswith("AssetSpec") and not rd.local_ty(l).startswith("&")]
            loc = locs[0] if len(locs) == 1 else None
        if loc is None:
            return None
        d = field_def(rd, loc, t[2], use_bb)
        if d is None or (d[0] == "const"):
            return None
        return decode_cond(rd, d, truth, use_bb, depth + 1)
    if t[0] == "bin" and t[1] in ("Gt", "Ge", "Lt", "Le") and t[3][0] == "const":
        # flag-count comparison: the count is 3 (short) or 7 (long)
        k = t[3][1]
        holds_long = {"Gt": 3 <= k < 7, "Ge": 3 < k <= 7}.get(t[1])
        if holds_long:
            return ("long", truth)
        holds_short = {"Lt": 3 < k <= 7, "Le": 3 <= k < 7}.get(t[1])
        if holds_short:
            return ("long", not truth)
        return None
    if t[0] == "bin" and t[1] in ("Ne", "Eq") and t[3][0] == "const" and isinstance(t[3][1], int):
        lhs, k = t[2], t[3][1]

        def cfold(z):
            """value of a constant integer expression, or None"""
            z = strip_refs(z)
            while z[0] == "cast":
                z = strip_refs(z[1])
            if z[0] == "const" and isinstance(z[1], int) and not isinstance(z[1], bool):
                return z[1]
            if z[0] == "field" and z[3] == 0 and z[1][0] == "bin" and z[1][1].endswith("WithOverflow"):
                z = ("bin", z[1][1].replace("WithOverflow", ""), z[1][2], z[1][3])
            if z[0] == "bin":
                a_, b_ = cfold(z[2]), cfold(z[3])
                if a_ is None or b_ is None:
                    return None
                op_ = z[1]
                try:
                    return {"Add": a_ + b_, "Sub": a_ - b_, "Mul": a_ * b_, "Div": a_ // b_ if b_ else None, "Rem": a_ % b_ if b_ else None,
                            "Shr": a_ >> b_, "Shl": a_ << b_, "BitAnd": a_ & b_, "BitOr": a_ | b_}.get(op_)
                except (ValueError, OverflowError):
                    return None
            return None

        def classify(x):
            y = strip_refs(x)
            if y[0] == "call" and "ops::Index" in y[1] and len(y[2]) > 1 and cfold(y[2][1]) is not None:
                return "f%d" % cfold(y[2][1])
            if y[0] == "index" and cfold(y[2]) is not None:
                return "f%d" % cfold(y[2])
            # the payload of `flags.get(k)` (taken on the Some arm)
            if y[0] == "field" and y[1][0] == "downcast" and y[1][2] == "Some":
                g = strip_refs(y[1][1])
                if g[0] == "call" and g[1].endswith("<impl [T]>::get") and len(g[2]) == 2 and cfold(g[2][1]) is not None:
                    return "f%d" % cfold(g[2][1])
            # the first byte of the record, before it is stored in the vector
            if any(z[0] == "call" and z[1].endswith("read_u8") for z in walk(y)) and not any(z[0] == "bin" for z in walk(y)):
                return "f0"
            return None

        def rw(x):
            if x[0] == "bin" and x[1] in ("Shr", "Shl") and x[3][0] != "const" and cfold(x[3]) is not None:
                return ("bin", x[1], rw(x[2]), ("const", cfold(x[3]), "u32")) + tuple(x[4:])
            if x[0] == "bin" and x[1] == "Rem" and x[3][0] == "const" and x[3][1] > 0 and x[3][1] & (x[3][1] - 1) == 0:
                return ("bin", "BitAnd", rw(x[2]), ("const", x[3][1] - 1, x[3][2]))
            if x[0] == "bin":
                return ("bin", x[1], rw(x[2]), rw(x[3])) + tuple(x[4:])
            if x[0] == "cast":
                return ("cast", rw(x[1])) + tuple(x[2:])
            return x
        try:
            pl, c = bitslice(rw(lhs), classify)
        except NotBits:
            return None
        pl = [(s_, b_, sl, min(w, 8 - sl), dl) for (s_, b_, sl, w, dl) in pl if sl < 8]
        if len(pl) != 1 or pl[0][3] != 1 or c != 0 or pl[0][1] != 0:
            return None
        src, _, sl, w, dl = pl[0]
        if k == 0:
            isset = (t[1] == "Ne")
        elif k == (1 << dl):
            isset = (t[1] == "Eq")
        else:
            return None
        bit = 8 * int(src[1:]) + sl
        holds = (isset == truth)
        if bit == 0:
            return ("long", holds)
        return ("bit", bit, holds)
    return None


def reader_table(facts, rd):
    idx = rpo_index(rd)
    cd = control_deps(rd)
    rows = []
    comp = {}
    spec_local = None
    cands = []
    for bi, si, s in rd.stmts():
        if s["k"] != "assign" or not s["lhs"]["p"]:
            continue
        if rd.blocks[bi]["cleanup"] or bi not in idx:
            continue
        e0 = s["lhs"]["p"][0]
        fld = None
        if isinstance(e0, dict) and e0.get("adt") == SPEC:
            fld = e0["name"]
        elif s["lhs"]["p"] == ["deref"]:
            # `*slot = ..` where slot is `&mut spec.field` (table-driven readers)
            tl = strip_refs(rd.term_of_local(s["lhs"]["l"]))
            if tl[0] == "field" and len(tl) > 4 and tl[4] == SPEC and isinstance(tl[2], str):
                fld = tl[2]
        if fld is None:
            continue
        cands.append((bi, fld, rd.term_of_rvalue(s["rv"]), s))
    # a field filled in place (`spec.field.copy_from_slice(&reader.read_bytes(4)?)`): the call that receives
    # `&mut spec.field` together with something read from the stream
    for bi, tcall in rd.calls():
        if rd.blocks[bi]["cleanup"] or bi not in idx or not tcall["args"]:
            continue
        a0 = rd.term_of_operand(tcall["args"][0])
        while a0[0] == "cast":
            a0 = a0[1]
        if not (a0[0] == "ref" and a0[2]):
            continue
        tl = strip_refs(a0)
        while tl[0] in ("deref", "index"):
            tl = strip_refs(tl[1])
        if tl[0] == "field" and len(tl) > 4 and tl[4] == SPEC and isinstance(tl[2], str) and len(tcall["args"]) > 1:
            rest = ("agg", "tuple", None, None, tuple(rd.term_of_operand(a) for a in tcall["args"][1:]))
            if any(x[0] == "call" and "BinArchiveReader" in x[1] for x in walk(rest)):
                cands.append((bi, tl[2], rest, {"line": tcall.get("line")}))
    for bi, fld, t, s in cands:
        g = dom_guards(rd, bi, cd)
        bit = "always"
        long_form = False
        unknown = []
        g2 = []
        for (a, succ, c) in g:
            ct = cond_truth(c)
            if ct:
                g2.append((a, ct))
                continue
            # a test on a locally computed enum value (`match form { Extended => .. }`): it holds exactly where the
            # value was given that variant, i.e. under the guards of that assignment
            term_, vals_, neg_, dty_ = c
            if term_[0] == "discr" and strip_refs(term_[1])[0] == "var":
                l_ = strip_refs(term_[1])[1]
                ds_ = rd.defs().get(l_, [])
                if ds_ and all(d_[2] == "assign" and d_[3]["rv"]["k"] == "agg" and d_[3]["rv"].get("ak") == "adt" and not d_[3]["rv"]["fields"] for d_ in ds_):
                    sel_ = [d_ for d_ in ds_ if ((d_[3]["rv"].get("vi") in vals_) != neg_)]
                    if len(sel_) == 1:
                        outer = set((x[0], x[1]) for x in g)
                        for (a2, s2, c2) in dom_guards(rd, sel_[0][0], cd):
                            ct2 = cond_truth(c2)
                            if (a2, s2) in outer:
                                continue
                            if ct2:
                                g2.append((a2, ct2))
                            elif c2[3] != "bool" and c2[0][0] != "discr":
                                # integer switch `match raw & 1 { 0 => .., _ => .. }`
                                k_ = c2[1]
                                if len(k_) == 1:
                                    g2.append((a2, (("bin", "Ne" if c2[2] else "Eq", c2[0], ("const", k_[0], "u8")), True)))
                                else:
                                    unknown.append(fmt(c2[0])[:50])
                        continue
                unknown.append(fmt(term_)[:50])
        for (a, ct) in g2:
            d = decode_cond(rd, ct[0], ct[1], a)
            if d is None:
                unknown.append(fmt(ct[0])[:50])
            elif d[0] == "bit":
                if d[2]:
                    bit = d[1]
            elif d[0] == "long":
                if d[1]:
                    long_form = True
        if t == ("const", True, "bool"):
            comp[fld] = (bit, idx.get(bi, 0))
            continue
        if fld.startswith("use_") and t[0] == "bin":
            # spec.use_x = <bit test> : the companion carries the bit itself
            d = decode_cond(rd, t, True, bi)
            if d and d[0] == "bit" and d[2]:
                comp[fld] = (d[1], idx.get(bi, 0))
                continue
        kind = None
        fbit = None
        for x in walk(t):
            if x[0] == "call":
                sh = x[1].rsplit("::", 1)[-1]
                if sh in KIND_R and kind is None:
                    kind = KIND_R[sh]
                    if sh == "read_flag_str":
                        ia = x[2][2]
                        if ia[0] == "const":
                            fbit = ia[1]
        if kind is None:
            # read through some other accessor of the stream reader (`read_u8` four times for a colour, ...): still a
            # row of the table, of a kind that has no writer dual among the typed field accessors
            raw = sorted(x[1].rsplit("::", 1)[-1] for x in walk(t) if x[0] == "call" and "BinArchiveReader" in x[1] and x[1].rsplit("::", 1)[-1].startswith("read_"))
            if not raw:
                continue
            kind = "%s x%d" % (raw[0], len(raw)) if len(set(raw)) == 1 else "+".join(raw)
        if fbit is not None:
            bit = fbit
        rows.append({"field": fld, "bit": bit, "kind": kind, "order": idx.get(bi, 0), "long": long_form, "line": s["line"],
                     "unknown": unknown})
    rows.sort(key=lambda r: r["order"])
    for r in rows:
        c = comp.get("use_" + r["field"])
        r["companion"] = ("use_" + r["field"]) if c and c[0] == r["bit"] else (None if r["kind"] == "string" else "?")
    return rows, comp


def flag_table(facts, cf):
    """field -> (predicate, bit) from `flags[B] |= if pred {0} else {MASK}`"""
    cd = control_deps(cf)
    out = {}
    order = []
    for bi, si, s in cf.stmts():
        if s["k"] != "assign" or s["rv"]["k"] != "bin" or s["rv"]["op"] != "BitOr":
            continue
        lhs = s["lhs"]
        if lhs["p"] != ["deref"]:
            continue
        tgt = cf.term_of_local(lhs["l"])
        if not (tgt[0] == "call" and "index_mut" in tgt[1] and tgt[2][1][0] == "const"):
            continue
        byte = tgt[2][1][1]
        v = s["rv"]["b"]
        vl = (v.get("m") or v.get("c") or {}).get("l")
        if vl is None:
            k = v.get("k")
            if k and k.get("val", {}).get("kind") == "int":
                out["#long-marker"] = ("len>4", 8 * byte + k["val"]["v"].bit_length() - 1, bi)
            continue
        defs = cf.defs().get(vl, [])
        mask = None
        pred = None
        for (dbi, dsi, kind, payload) in defs:
            if kind != "assign":
                continue
            t = cf.term_of_rvalue(payload["rv"])
            if t[0] == "const" and t[1]:
                mask = t[1]
                for (a, succ, c) in guards(cf, dbi, cd):
                    ct = cond_truth(c)
                    if not ct:
                        continue
                    term, truth = ct
                    f = self_field(term)
                    if f is None:
                        continue
                    if term[0] == "call" and term[1].endswith("is_none"):
                        pred = ("is_some", f) if not truth else ("is_none", f)
                    elif term[0] == "call" and term[1].endswith("is_some"):
                        pred = ("is_some", f) if truth else ("is_none", f)
                    else:
                        pred = ("flag", f) if truth else ("not-flag", f)
        if mask is None or pred is None or mask & (mask - 1):
            order.append(("?", byte, mask, pred, s["line"]))
            continue
        bit = 8 * byte + mask.bit_length() - 1
        out[pred[1]] = (pred[0], bit, s["line"])
        order.append((pred[1], byte, mask, pred, s["line"]))
    # third form (table-driven, after unrolling): under `if self.flag { flags[B] |= 1 << k }` with constant B, k
    for bi, si, s in cf.stmts():
        if s["k"] != "assign" or s["lhs"]["p"] != ["deref"] or s["rv"]["k"] != "bin" or s["rv"]["op"] != "BitOr":
            continue
        tgt = cf.term_of_local(s["lhs"]["l"])
        if not (tgt[0] == "call" and "index_mut" in tgt[1] and len(tgt[2]) > 1):
            continue
        byte = const_fold(tgt[2][1])
        mask = const_fold(cf.term_of_operand(s["rv"]["b"]))
        if byte is None or mask is None or mask <= 0 or mask & (mask - 1) or mask > 0x80:
            continue
        pred = None
        for (a, succ, c) in dom_guards(cf, bi, cd):
            ct = cond_truth(c)
            if not ct:
                continue
            term, truth = ct
            while term[0] == "un" and term[1] == "Not":
                term, truth = term[2], not truth
            f = self_field(term)
            if f is None or not truth:
                continue
            if term[0] == "call" and term[1].endswith("is_some"):
                pred = ("is_some", f)
            elif not any(x[0] == "call" for x in walk(term)):
                pred = ("flag", f)
        if pred and pred[1] not in out:
            out[pred[1]] = (pred[0], 8 * byte + mask.bit_length() - 1, s["line"])
            order.append((pred[1], byte, mask, pred, s["line"]))
    # second form: flags[B] (|)= u8::from(self.a) | (u8::from(self.b) << 1) | ...   (booleans packed by shifts)
    from lz import bitslice, NotBits
    for bi, si, s in cf.stmts():
        if s["k"] != "assign" or s["lhs"]["p"] != ["deref"]:
            continue
        tgt = cf.term_of_local(s["lhs"]["l"])
        if not (tgt[0] == "call" and "index_mut" in tgt[1] and tgt[2][1][0] == "const"):
            continue
        byte = tgt[2][1][1]
        t = cf.term_of_rvalue(s["rv"])
        atoms = {}

        def classify(x):
            y = x
            if y[0] == "call" and y[1].endswith("::from") and len(y[2]) == 1:
                y = y[2][0]
            elif y[0] == "cast" and y[3] == "bool":
                y = y[1]
            else:
                return None
            pr = "flag"
            if y[0] == "call" and y[1].endswith("is_some"):
                pr = "is_some"
            f = self_field(y)
            if f is None:
                return None
            atoms[f] = pr
            return f
        try:
            pl, c = bitslice(t, classify)
        except NotBits:
            continue
        if not atoms:
            continue
        for (src, bias, sl, w, dl) in pl:
            if src in atoms and sl == 0 and bias == 0 and src not in out:
                out[src] = (atoms[src], 8 * byte + dl, s["line"])
                order.append((src, byte, 1 << dl, (atoms[src], src), s["line"]))
    return out, order


def fields_mentioned(body, facts=None, _seen=None):
    """names of `self` fields read anywhere in the body or in the crate functions/closures it calls (to tell
    "not computed" from "computed in a form the extractor does not know")"""
    out = set()
    _seen = _seen if _seen is not None else set()
    _seen.add(body.id)
    if facts is not None:
        for f_ in facts.callees(body):
            cb_ = facts.bodies.get(f_.get("res_id") or f_.get("def_id"))
            if cb_ is not None and cb_.id not in _seen:
                if f_.get("closure"):
                    # captured `self` fields appear as fields of the closure environment: take every SPEC field name
                    for blk_ in cb_.blocks:
                        for st_ in blk_["stmts"]:
                            for x_ in walk(cb_.term_of_rvalue(st_["rv"])) if st_["k"] == "assign" else ():
                                if x_[0] == "field" and len(x_) > 4 and x_[4] == SPEC and isinstance(x_[2], str):
                                    out.add(x_[2])
                out |= fields_mentioned(cb_, facts, _seen)

    def place(p):
        for e in p["p"]:
            if isinstance(e, dict) and "f" in e and e.get("name") and (p["l"] == 1 or e.get("adt") == SPEC):
                out.add(e["name"])
                break
    for blk in body.blocks:
        for st in blk["stmts"]:
            if st["k"] != "assign":
                continue
            rv = st["rv"]
            for k in ("a", "b"):
                op = rv.get(k)
                if isinstance(op, dict):
                    pl = op.get("c") or op.get("m")
                    if pl:
                        place(pl)
            if "place" in rv:
                place(rv["place"])
            for f in rv.get("fields", []):
                pl = f.get("c") or f.get("m")
                if pl:
                    place(pl)
        t = blk["term"]
        if t["k"] == "call":
            for a in t["args"]:
                pl = a.get("c") or a.get("m")
                if pl:
                    place(pl)
        elif t["k"] == "switch":
            pl = t["d"].get("c") or t["d"].get("m")
            if pl:
                place(pl)
    return out


def fields_assigned(body, facts, _seen=None):
    """SPEC field names assigned (directly, through a `&mut spec.field`, or inside a struct literal) in the body or
    the crate functions/closures it calls"""
    out = set()
    _seen = _seen if _seen is not None else set()
    _seen.add(body.id)
    for bi, si, st in body.stmts():
        if st["k"] != "assign":
            continue
        for e in st["lhs"]["p"]:
            if isinstance(e, dict) and e.get("adt") == SPEC and e.get("name"):
                out.add(e["name"])
        rv = st["rv"]
        if rv["k"] == "agg" and rv.get("ak") == "adt" and (rv.get("def") or "").endswith("AssetSpec"):
            out |= set(rv.get("field_names") or [])
        if rv["k"] == "ref" and rv.get("place"):
            for e in rv["place"]["p"]:
                if isinstance(e, dict) and e.get("adt") == SPEC and e.get("name"):
                    out.add(e["name"])
    for f_ in facts.callees(body):
        cb_ = facts.bodies.get(f_.get("res_id") or f_.get("def_id"))
        if cb_ is not None and cb_.id not in _seen:
            out |= fields_assigned(cb_, facts, _seen)
    return out


def writer_table(facts, ap):
    idx = rpo_index(ap)
    cd = control_deps(ap)
    rows = []
    for bb, t in sorted(ap.calls(), key=lambda x: idx.get(x[0], 0)):
        nm = callee_names(t)[1] or callee_names(t)[0] or ""
        sh = nm.rsplit("::", 1)[-1]
        if sh not in KIND_W:
            continue
        args = [ap.term_of_operand(a) for a in t["args"]]
        fld = None
        for a in args:
            f = self_field(a)
            if f:
                fld = f
        if fld is None:
            continue
        pred = None
        long_form = False
        value_guard = None
        for (a, succ, c) in dom_guards(ap, bb, cd):
            ct = cond_truth(c)
            if not ct:
                continue
            term, truth = ct
            f = self_field(term)
            if f and term[0] == "field" and truth:
                pred = ("flag", f)
            elif term[0] == "bin" and term[1] in ("Gt", "Ge") and truth:
                long_form = True
            elif term[0] == "bin" and term[1] in ("Eq", "Ne") and len(term) > 4 and term[4] in ("f32", "f64") and f == fld:
                # the field's own value decides whether it is written at all
                value_guard = "%s %s %s" % (fld, "!=" if (term[1] == "Ne") == truth else "==", fmt(term[3])[:12])
        kind = KIND_W[sh]
        if sh == "write_flag_str":
            pred = ("is_some", fld)
        elif sh == "write_string" and pred is None:
            pred = ("always", fld)
        rows.append({"field": fld, "kind": kind, "pred": pred, "long": long_form, "order": idx.get(bb, 0), "line": t["line"], "value_guard": value_guard})
    return rows


def colour_helpers(facts, rep, R1):
    """The colour codec moves channels, it never combines them.  A pure integer helper (integers in, integer out)
    called from read_color / write_color is evaluated on words whose four bytes are distinct single bits: every byte
    of the result must be one of the four input bytes, each used once."""
    from summ import Evaluator, Unknown, Panic
    INT = ("u8", "u16", "u32", "u64", "usize", "i32", "i64")
    E = Evaluator(facts)
    for fn in ("mila::asset_binary::read_color", "mila::asset_binary::write_color"):
        b = facts.body(fn)
        if b is None:
            continue
        spliced = {blk["term"]["inl"] for blk in b.blocks if isinstance(blk["term"].get("inl"), str)}   # (helpers spliced into the analysis view)
        for hn in sorted({callee_names(t)[1] or "" for bb, t in b.calls()} | spliced):
            hb = facts.body(hn)
            if hb is None or not hb.name.startswith("mila::") or hb.argc != 1 or hb.local_ty(0) != "u32" or hb.local_ty(1) != "u32":
                continue
            for w in (0x80402010, 0x01020408):
                try:
                    got = E.call_body(hb, [w])
                except (Unknown, Panic):
                    got = None
                if not isinstance(got, int):
                    break
                ib = sorted((w >> s) & 0xFF for s in (0, 8, 16, 24))
                ob = [(got >> s) & 0xFF for s in (0, 8, 16, 24)]
                if sorted(ob) != ib:
                    mixed = [i for i, x in enumerate(ob) if x not in ib]
                    rep.violation(R1, hb.name, "colour-channels-mixed",
                                  "%s(0x%08X) = 0x%08X: byte %d of the result (0x%02X) is not one of the four channel bytes -- the colour codec called from %s combines channels instead of moving them, a colour does not survive the round trip" % (
                                      hb.name.rsplit("::", 1)[-1], w, got & 0xFFFFFFFF, mixed[0] if mixed else 0, ob[mixed[0]] if mixed else 0, fn.rsplit("::", 1)[-1]),
                                  "%s:%s" % (hb.file, hb.line))
                    return
            else:
                rep.ok(R1, {"colour_helper": hb.name, "channel_permutation": True})


def run(facts, rep, ctx):
    R1 = rep.rule("R18.1", "four-table agreement: field order reader = writer; bit(reader) = bit(flag computation); predicate(flag computation) = predicate(writer); kinds; presence companions", floor=150)
    R2 = rep.rule("R18.2", "short/long form: 4 vs 8 flag bytes by bit 0; extended fields only in the long form; long form iff any of flag bytes 4..6 is non-zero", floor=5)
    R3 = rep.rule("R18.3", "container: u32 header flags, specs in order, 4-byte zero terminator; reader stops at the first malformed spec", floor=4)
    R4 = rep.rule("R18.4", "archive adder under the spec writer (write_string): a present string, empty or not, is stored on every non-error path -- the presence bit computed from is_some() and the stored text cannot disagree", floor=1)
    import annot
    annot.contract(facts, rep, R4, ("write_string",))
    colour_helpers(facts, rep, R1)
    rd = facts.body(SPEC + "::from_stream")
    ap = facts.body(SPEC + "::append")
    if rd is None or ap is None or not rd.pub or not ap.pub:
        rep.inconc(R1, "anchors AssetSpec::from_stream / append missing")
        return
    cf = None
    for f in facts.callees(ap):
        cb = facts.bodies.get(f.get("res_id") or f.get("def_id"))
        if cb is not None and cb.local_ty(0).startswith("(std::vec::Vec<u8>") and cb.name.startswith(SPEC):
            cf = facts.body(cb.id)
    if cf is None:
        rep.inconc(R1, "flag computation (callee of append returning (Vec<u8>, usize)) not identified")
        return
    rrows, comp = reader_table(facts, rd)
    ftab, forder = flag_table(facts, cf)
    wrows = writer_table(facts, ap)
    rw = "%s:%s" % (rd.file, rd.line)
    ww = "%s:%s" % (ap.file, ap.line)
    # helper callee checks: write_flag_str writes iff Some ; read_flag_str tests bit `index`
    helper_checks(facts, rep, R1)
    for w_ in wrows:
        if w_.get("value_guard"):
            rep.violation(R1, ap.name, "float-written-conditionally:" + w_["field"], "`%s` is written only when %s (a floating-point comparison): -0.0 compares equal to 0.0, is not written, and reads back as +0.0 -- the value is not bit-identical after a round trip" % (w_["field"], w_["value_guard"]), "%s:%s" % (ap.file, w_["line"]))
    # ---- order ------------------------------------------------------------------------------------
    rseq = [r["field"] for r in rrows]
    wseq = [w["field"] for w in wrows]
    # the two extracted sequences are comparable position by position only when each is a duplicate-free listing
    # of the same fields; otherwise one of the extractions is incomplete (table-driven / closure-driven code) and
    # the only definite fact left is a field that one side never touches at all
    comparable = len(set(rseq)) == len(rseq) and len(set(wseq)) == len(wseq) and set(rseq) == set(wseq)
    if comparable:
        for i in range(len(rseq)):
            a, b = rseq[i], wseq[i]
            if a == b:
                rep.ok(R1, {"position": i, "field": a})
            else:
                rep.violation(R1, ap.name, "order:%d" % i, "stream position %d: reader stores `%s`, writer emits `%s`" % (i, a, b), ww)
    else:
        rmention = fields_assigned(rd, facts)
        wmention = fields_mentioned(ap, facts)
        for fld_ in sorted(set(rseq) ^ set(wseq)):
            if fld_ in set(rseq) and fld_ not in wmention and ("use_" + fld_) not in wmention:
                rep.violation(R1, ap.name, "order:never-written:" + fld_, "the reader stores `%s` from the stream, the writer never touches the field" % fld_, ww)
            elif fld_ in set(wseq) and fld_ not in rmention:
                rep.violation(R1, rd.name, "order:never-read:" + fld_, "the writer emits `%s`, the reader never assigns the field" % fld_, rw)
        rep.inconc(R1, "reader/writer field sequences were not extracted completely (%d read rows, %d distinct; %d write rows, %d distinct): table- or closure-driven code" % (
            len(rseq), len(set(rseq)), len(wseq), len(set(wseq))))
    # ---- per field ----------------------------------------------------------------------------------
    wby = {w["field"]: w for w in wrows}
    last_bit = -1
    for r in rrows:
        f = r["field"]
        w = wby.get(f)
        if w is None and not comparable:
            continue
        if w is not None and wseq.count(f) != 1:
            # the writer rows come from table-driven code the extractor attributes wrongly: nothing about them is a fact
            w = None
            rep.inconc(R1, "`%s`: the writer's row is ambiguous (%d candidates)" % (f, wseq.count(f)))
            continue
        if r.get("unknown"):
            rep.inconc(R1, "`%s` is read under a condition that is not recognised: %s" % (f, r["unknown"][0]))
            continue
        if r["bit"] == "always":
            if w and w["pred"] and w["pred"][0] == "always":
                rep.ok(R1, {"field": f, "presence": "always"})
            else:
                rep.violation(R1, ap.name, "always:" + f, "`%s` is always read but written under %s" % (f, w["pred"] if w else None), ww)
            continue
        ft = ftab.get(f) or ftab.get("use_" + f)
        if ft is None:
            if {f, "use_" + f} & fields_mentioned(cf, facts):
                rep.inconc(R1, "the flag of `%s` is computed in a form that is not recognised (reader tests bit %s)" % (f, r["bit"]))
            else:
                rep.violation(R1, cf.name, "flag-missing:" + f, "no flag bit is computed for `%s` (reader tests bit %s): compute_flags never reads the field" % (f, r["bit"]), "%s:%s" % (cf.file, cf.line))
            continue
        pred, bit, line = ft
        if bit == r["bit"]:
            rep.ok(R1, {"field": f, "bit": bit})
        else:
            rep.violation(R1, cf.name, "bit:" + f, "`%s`: reader tests flag bit %s, the flag computation sets bit %s" % (f, r["bit"], bit), "%s:%s" % (cf.file, line))
        # predicate agreement flag computation <-> writer
        fpred = (pred, f if pred.startswith("is_") else ("use_" + f if ("use_" + f) in ftab else f))
        if pred == "flag":
            fpred = ("flag", [k for k in (f, "use_" + f) if k in ftab][0])
        wp = w["pred"] if w else None
        if wp is not None and ((pred == "is_some" and wp == ("is_some", f)) or (pred == "flag" and wp == ("flag", fpred[1]))):
            rep.ok(R1, {"field": f, "predicate": "%s(%s)" % (pred, fpred[1])})
        else:
            rep.violation(R1, ap.name, "pred:" + f, "`%s`: bit set under %s(%s) but written under %s" % (f, pred, fpred[1], wp), ww)
        # kinds
        if w and w["kind"] == r["kind"]:
            rep.ok(R1, {"field": f, "kind": r["kind"]})
        else:
            rep.violation(R1, ap.name, "kind:" + f, "`%s` is read as %s and written as %s" % (f, r["kind"], w["kind"] if w else None), ww)
        # presence companion of typed fields
        if r["kind"] != "string":
            if r["companion"] == fpred[1]:
                rep.ok(R1, {"field": f, "companion": r["companion"]})
            else:
                rep.violation(R1, rd.name, "companion:" + f, "reader sets %s for `%s`, writer/flags test %s" % (r["companion"], f, fpred[1]), rw)
        # strictly increasing bits along the stream
        if isinstance(r["bit"], int):
            if r["bit"] <= last_bit:
                rep.violation(R1, rd.name, "bit-order:" + f, "flag bits are not increasing along the stream at `%s` (%s after %s)" % (f, r["bit"], last_bit), rw)
            last_bit = r["bit"]
        # long-form membership
        if isinstance(r["bit"], int) and (r["bit"] >= 32) != r["long"] and r.get("unknown") and not r["long"]:
            rep.inconc(R2, "`%s` (bit %s): whether it is read under the long-form guard depends on a condition that is not recognised (%s)" % (f, r["bit"], r["unknown"][0]))
        elif isinstance(r["bit"], int) and (r["bit"] >= 32) != r["long"]:
            rep.violation(R2, rd.name, "long-read:" + f, "`%s` (bit %s) is read %s the long-form guard" % (f, r["bit"], "under" if r["long"] else "outside"), rw)
        if w and isinstance(r["bit"], int) and (r["bit"] >= 32) != w["long"]:
            rep.violation(R2, ap.name, "long-write:" + f, "`%s` (bit %s) is written %s the long-form guard" % (f, r["bit"], "under" if w["long"] else "outside"), ww)
    extra = [k for k in ftab if not k.startswith("#") and k not in rseq and k.replace("use_", "", 1) not in rseq]
    rassigned = fields_assigned(rd, facts) if extra else set()
    for k in extra:
        if k in rassigned or k.replace("use_", "", 1) in rassigned:
            rep.inconc(R1, "a flag bit is computed for `%s`; the reader assigns the field in a form that is not recognised" % k)
            continue
        rep.violation(R1, cf.name, "flag-extra:" + k, "a flag bit is computed for `%s`, which the reader never consumes" % k, "%s:%s" % (cf.file, cf.line))
    form_rules(facts, rep, R2, rd, cf, ap, ftab, rrows)
    container_rules(facts, rep, R3)


def helper_checks(facts, rep, R1):
    rf = facts.body("mila::asset_binary::read_flag_str")
    wf = facts.body("mila::asset_binary::write_flag_str")
    for b, name in ((rf, "read_flag_str"), (wf, "write_flag_str")):
        if b is None:
            continue  # helpers may be inlined; the tables then carry the information themselves
        try:
            ps = enum_paths(b)
        except PathLimit:
            rep.inconc(R1, name + ": too many paths")
            continue
        if name == "read_flag_str":
            # index/8 selects the byte, index%8 the bit; read iff the bit is set and the byte exists
            good = False
            wrong = None
            seen_read = False
            for p in ps:
                reads = [e for e in p.events if e["k"] == "call" and e["callee"] and e["callee"].endswith("::read_string")]
                for (bb, term, vals, neg, dty) in p.conds:
                    pass
                if reads:
                    txt = " ".join(fmt(norm(c[1])) for c in p.conds)
                    byte_ok = "Div(index, 8)" in txt or "Shr(index, 3)" in txt
                    bit_ok = "Rem(index, 8)" in txt or "BitAnd(index, 7)" in txt
                    test_ok = "Shl(1" in txt or ("Shr(" in txt and "BitAnd(" in txt)
                    good = byte_ok and bit_ok and test_ok
                    seen_read = True
                    other = [k for k in re.findall(r"(?:Div|Rem|Shr|BitAnd)\(index, (\d+|0x[0-9a-f]+)\)", txt) if int(k, 0) not in (8, 3, 7)]
                    if other:
                        wrong = other
            if good:
                rep.ok(R1, {"helper": name, "bit": "flags[index/8] & (1 << index%8)"})
            elif wrong:
                rep.violation(R1, b.name, "helper-bit", "read_flag_str splits the flag index with constant(s) %s (specified: byte index/8, bit index%%8)" % wrong, "%s:%s" % (b.file, b.line))
            else:
                rep.inconc(R1, "read_flag_str: the test of bit index%8 of byte index/8 was not recognised")
        else:
            good = True
            for p in ps:
                some = None
                for (bb, term, vals, neg, dty) in p.conds:
                    if term[0] == "discr" and strip_refs(term[1])[0] == "param":
                        some = (vals == (1,)) != neg
                wr = [e for e in p.events if e["k"] == "call" and e["callee"] and e["callee"].endswith("::write_string")]
                if some is True and len(wr) != 1 and p.end == "ret" and p.ret[0] == "agg":
                    good = False
                if some is False and wr:
                    good = False
            if good:
                rep.ok(R1, {"helper": name, "writes": "iff Some"})
            else:
                rep.violation(R1, b.name, "helper-write", "write_flag_str does not write exactly when the value is Some", "%s:%s" % (b.file, b.line))


def early_return_rule(facts, rep, R2, rd, rrows):
    """An Ok return of the record reader that the reads of the extended fields cannot reach is an early exit.  Its
    guards are evaluated on a witness record whose flag bytes are [01 00 00 00 | FF FF FF 00] (no basic string, long
    form, every extended field announced): if they all hold there, the reader hands the record back without consuming
    the extended fields, and every later record is read from the wrong place."""
    from summ import Evaluator, Unknown, Panic
    rw = "%s:%s" % (rd.file, rd.line)
    ext_blocks = set()
    for bi, si, st in rd.stmts():
        if st["k"] == "assign" and st["lhs"]["p"] and isinstance(st["lhs"]["p"][0], dict) and st["lhs"]["p"][0].get("adt") == SPEC:
            nm = st["lhs"]["p"][0].get("name")
            row = [r for r in rrows if r["field"] == nm and isinstance(r["bit"], int) and r["bit"] >= 32]
            if row:
                ext_blocks.add(bi)
    if not ext_blocks:
        return
    ok_sites = []
    for bi, si, st in rd.stmts():
        if st["k"] == "assign" and st["lhs"]["l"] == 0 and not st["lhs"]["p"] and st["rv"]["k"] == "agg" and st["rv"].get("variant") == "Ok" and not rd.blocks[bi]["cleanup"]:
            ok_sites.append((bi, st.get("line")))

    def reaches(a, b):
        seen, todo = set(), [a]
        while todo:
            x = todo.pop()
            if x == b:
                return True
            if x in seen:
                continue
            seen.add(x)
            todo.extend(rd.succs(x))
        return False
    W = [1, 0, 0, 0, 0xFF, 0xFF, 0xFF, 0]

    def subst(t):
        """flag-byte reads `flags[k]` -> the witness byte"""
        if not isinstance(t, tuple) or not t:
            return t
        if t[0] == "index" and strip_refs(t[2])[0] == "const" and isinstance(strip_refs(t[2])[1], int) and strip_refs(t[2])[1] < 8:
            return ("const", W[strip_refs(t[2])[1]], "u8")
        if t[0] == "call" and "ops::Index" in t[1] and t[1].endswith("::index") and len(t[2]) == 2:
            k_ = strip_refs(t[2][1])
            if k_[0] == "const" and isinstance(k_[1], int) and k_[1] < 8:
                return ("const", W[k_[1]], "u8")
        if t[0] in ("deref", "ref"):
            inner = subst(t[1])
            return inner if inner[0] == "const" else (t[0], inner) + tuple(t[2:])
        return tuple(subst(x) if isinstance(x, tuple) else x for x in t)
    E = Evaluator(facts)
    for site, line in ok_sites:
        if all(reaches(eb, site) for eb in ext_blocks):
            continue
        gs = dom_guards(rd, site, None)
        flagy = [(a, s_, c) for (a, s_, c) in gs if any(x[0] == "index" or (x[0] == "call" and "ops::Index" in x[1] and x[1].endswith("::index")) for x in walk(c[0]))]
        if not flagy:
            continue
        holds = True
        for (a, s_, c) in flagy:
            term, vals, neg, dty = c
            try:
                v = E.ev(subst(term), {}, rd, 0)
            except (Unknown, Panic, Exception):
                holds = None
                break
            if isinstance(v, bool):
                v = int(v)
            if (v in vals) == neg:
                holds = False
                break
        if holds:
            rep.violation(R2, rd.name, "early-return", "the reader returns the record at line %s when %s; that also holds for a long-form record (bit 0 set) whose flag bytes 4..6 announce extended fields: they are left unread and the next record starts in the middle of this one" % (
                line, fmt(flagy[-1][2][0])[:70]), rw)
        elif holds is None:
            rep.inconc(R2, "an early Ok return at line %s is guarded by a condition on the flag bytes that was not evaluated" % line)


def form_rules(facts, rep, R2, rd, cf, ap, ftab, rrows=()):
    rw = "%s:%s" % (rd.file, rd.line)
    try:
        early_return_rule(facts, rep, R2, rd, rrows)
    except Exception as ex:
        rep.inconc(R2, "early-return rule not evaluated: %s" % ex)
    # reader: flag_count = 3 (+4 iff raw & 1): evaluate from the defs of the count variable
    cnt_defs = []
    for l in range(len(rd.locals)):
        if rd.local_ty(l) == "usize" and len(rd.defs().get(l, [])) == 2:
            ts = [rd.term_of_rvalue(d[3]["rv"]) for d in rd.defs()[l] if d[2] == "assign"]
            consts = [t for t in ts if t[0] == "const"]
            adds = [t for t in ts if t[0] == "field" and t[1][0] == "bin" and t[1][1].startswith("Add")]
            if len(consts) == 1 and len(adds) == 1:
                cnt_defs.append((l, consts[0][1], adds[0][1][3][1] if adds[0][1][3][0] == "const" else None, rd.defs()[l]))
    if len(cnt_defs) == 1:
        l, base, inc, defs = cnt_defs[0]
        # the increment is guarded by raw & 1 == 1
        cd = control_deps(rd)
        inc_bb = [d[0] for d in defs if d[2] == "assign" and rd.term_of_rvalue(d[3]["rv"])[0] != "const"][0]
        bit0 = False
        for (a, s, c) in guards(rd, inc_bb, cd):
            ct = cond_truth(c)
            if ct and ct[1] and any(x[0] == "bin" and x[1] == "BitAnd" and x[3][0] == "const" and x[3][1] == 1 for x in walk(ct[0])):
                bit0 = True
        if base + 1 == 4 and inc == 4 and bit0:
            rep.ok(R2, {"reader_flag_bytes": "1 + 3, +4 iff bit 0"})
        else:
            rep.violation(R2, rd.name, "flag-count", "reader reads 1+%s flag bytes, +%s under bit0=%s (specified 4 / 8 by bit 0)" % (base, inc, bit0), rw)
    else:
        # second form: count = if long {7} else {3}
        cd = control_deps(rd)
        sel = None
        for l in range(len(rd.locals)):
            ds = rd.defs().get(l, [])
            if rd.local_ty(l) == "usize" and len(ds) == 2 and all(d[2] == "assign" for d in ds):
                vals = {}
                for d in ds:
                    t = rd.term_of_rvalue(d[3]["rv"])
                    if t[0] != "const":
                        vals = None
                        break
                    for (a, s_, c) in guards(rd, d[0], cd):
                        ct = cond_truth(c)
                        dc = decode_cond(rd, ct[0], ct[1], a) if ct else None
                        if dc and dc[0] == "long":
                            vals[dc[1]] = t[1]
                if vals and set(vals) == {True, False}:
                    # it must be the byte count of the flag read
                    used = any((callee_names(t)[1] or "").endswith("read_bytes") and any(x == ("var", l, rd.local_name(l)) for x in walk(rd.term_of_operand(t["args"][1]))) for bb, t in rd.calls())
                    if used:
                        sel = vals
        if sel is None:
            rep.inconc(R2, "reader flag-count variable not recognised")
        elif sel == {True: 7, False: 3}:
            rep.ok(R2, {"reader_flag_bytes": "1 + (7 if bit 0 else 3)"})
        else:
            rep.violation(R2, rd.name, "flag-count", "reader reads 1+%s flag bytes in the long form and 1+%s in the short form (specified 8 / 4 by bit 0)" % (sel[True], sel[False]), rw)
    # writer: resize(4) iff bytes 4,5,6 all zero ; bit 0 set iff len > 4 after the size is computed
    cfw = "%s:%s" % (cf.file, cf.line)
    cd = control_deps(cf)
    from binser import poly, for_loops
    resize = [(bb, t) for bb, t in cf.calls() if (callee_names(t)[1] or "").endswith("Vec::<T, A>::resize") or (callee_names(t)[1] or "").endswith("Vec::<T, A>::truncate")]
    ext_bytes = set(b // 8 for (p, b, l) in [v for k, v in ftab.items() if not k.startswith("#")] if b >= 32)
    # bytes the reader consumes extended fields from (the flag table may be incomplete when a form is not recognised)
    ext_bytes |= set(r["bit"] // 8 for r in rrows if isinstance(r["bit"], int) and r["bit"] >= 32)

    def any_nonzero_bytes(l):
        """bool local l decided by a loop over flags[a..b] that stops at the first non-zero byte (the loop form of
        `.iter().any(|f| *f != 0)` and of `.iter().all(|f| *f == 0)`): returns (set of byte indices, value of l when
        every byte is zero), or None."""
        ds = cf.defs().get(l, [])
        vals = {}
        for (bi, si, kind, payload) in ds:
            if kind != "assign":
                return None
            t = cf.term_of_rvalue(payload["rv"])
            if t[0] != "const" or not isinstance(t[1], bool):
                return None
            vals[bool(t[1])] = bi
        if set(vals) != {True, False}:
            return None
        def nonzero_guarded(blk):
            for (a, s_, c) in guards(cf, blk, cd):
                ct = cond_truth(c)
                if ct and ct[0][0] == "bin" and ct[0][3][:2] == ("const", 0) and ((ct[0][1] == "Ne" and ct[1]) or (ct[0][1] == "Eq" and not ct[1])):
                    return True
            return False
        hit = None
        for v, blk in vals.items():
            # this definition is reached only past an element that is non-zero; the other one never is
            if nonzero_guarded(blk) and not nonzero_guarded(vals[not v]):
                hit = v
        if hit is None:
            return None
        for lp in for_loops(cf):
            if lp["kind"] != "for" or not lp.get("src"):
                continue
            if not (vals[hit] in lp["blocks"] or any(vals[hit] in cf.succs(b0) for b0 in lp["blocks"])):
                continue
            for x in walk(lp["src"]):
                if x[0] == "agg" and x[2] and x[2].endswith("ops::Range") and all(y[0] == "const" for y in x[4]):
                    if any(z[0] == "call" and "ops::Index" in z[1] for z in walk(lp["src"])):
                        return set(range(x[4][0][1], x[4][1][1])), (not hit)
        return None

    short_guard = None          # (term, truth) deciding the truncation, when it is a single boolean
    if len(resize) != 1:
        rep.inconc(R2, "flag computation: short-form truncation not found")
    else:
        bb, t = resize[0]
        newlen = cf.term_of_operand(t["args"][1])
        bytes_tested = set()
        odd = []
        for (a, s, c) in dom_guards(cf, bb, cd):
            ct = cond_truth(c)
            if not ct:
                continue
            if ct[1] and ct[0][0] == "bin" and ct[0][1] == "Eq" and ct[0][3] == ("const", 0, "u8"):
                for y in walk(ct[0][2]):
                    if y[0] == "call" and "ops::Index" in y[1] and y[2][1][0] == "const":
                        bytes_tested.add(y[2][1][1])
            elif ct[0][0] == "var" and cf.local_ty(ct[0][1]) == "bool":
                bs = any_nonzero_bytes(ct[0][1])
                if bs is not None and ct[1] == bs[1]:
                    bytes_tested |= bs[0]
                    short_guard = (ct[0], ct[1])
                else:
                    odd.append(fmt(ct[0])[:40])
            else:
                odd.append(fmt(ct[0])[:40])
        # the truncation may also be decided on the spec's own fields (a helper such as `is_extended()` expanded in
        # place): then every field whose flag bit lives in bytes 4.. must be among the fields tested
        ext_fields = set(k for k, v in ftab.items() if not k.startswith("#") and v[1] >= 32)
        tested_fields = set()
        def fields_behind(term, depth=0, seen=None):
            """spec fields a boolean term depends on, through short-circuit chains (`a || b || ..` leaves a phi of
            constants whose definitions sit under the guards that test the operands)"""
            seen = seen if seen is not None else set()
            for y in walk(term):
                if y[0] == "field" and isinstance(y[2], str) and len(y) > 4 and y[4] == SPEC:
                    tested_fields.add(y[2])
                if y[0] == "var" and y[1] not in seen and depth < 40 and (cf.local_ty(y[1]) or "") == "bool":
                    seen.add(y[1])
                    for (bi_, si_, kind_, pay_) in cf.defs().get(y[1], []):
                        dt_ = cf.term_of_rvalue(pay_["rv"]) if kind_ == "assign" else cf.term_of_call(pay_, bi_)
                        fields_behind(dt_, depth + 1, seen)
                        for (a2, s2, c2) in dom_guards(cf, bi_, cd):
                            fields_behind(c2[0], depth + 1, seen)
        for (a, s, c) in dom_guards(cf, bb, cd):
            fields_behind(c[0])
        if odd and tested_fields and newlen == ("const", 4, "usize") and not bytes_tested:
            missing_f = sorted(ext_fields - tested_fields)
            extra_f = sorted(f_ for f_ in tested_fields - ext_fields if f_ in ftab)
            if missing_f and not extra_f and len(tested_fields & ext_fields) >= 3:
                rep.violation(R2, cf.name, "short-form-fields", "the short record form is chosen by testing %d of the %d extended fields; `%s` is not tested, so a spec whose only extended field is that one is written in the short form and loses it" % (
                    len(tested_fields & ext_fields), len(ext_fields), "`, `".join(missing_f)), cfw)
                odd = []
                newlen = None
            elif not missing_f and not extra_f:
                rep.ok(R2, {"short_form": "flags truncated to 4 bytes iff none of the %d extended fields is present" % len(ext_fields)})
                odd = []
                newlen = None
        if newlen is None:
            pass
        elif newlen == ("const", 4, "usize") and bytes_tested == ext_bytes and ext_bytes and not odd:
            rep.ok(R2, {"short_form": "flags truncated to 4 bytes iff bytes %s are all zero" % sorted(bytes_tested)})
        elif odd and newlen == ("const", 4, "usize"):
            rep.inconc(R2, "short-form truncation is decided by a condition that is not recognised: %s" % odd[0])
        else:
            rep.violation(R2, cf.name, "short-form", "flags are truncated to %s when bytes %s are zero; extended fields live in bytes %s" % (fmt(newlen), sorted(bytes_tested), sorted(ext_bytes)), cfw)
    marker = ftab.get("#long-marker")
    if marker and marker[1] == 0:
        # must come after the size computation (popcount): no count_bits call is reachable from the marker block
        mbb = marker[2]
        cb = [bb for bb, t in cf.calls() if is_popcount(facts, callee_names(t)[1] or callee_names(t)[0] or "")]
        # closures handed to map/sum: the adaptor call that consumes them
        for bb, t in cf.calls():
            for a in t["args"]:
                ta = cf.term_of_operand(a)
                for x in walk(ta):
                    if x[0] == "agg" and x[1] == "closure" and x[2] in facts.bodies and any(
                            is_popcount(facts, callee_names(t2)[1] or callee_names(t2)[0] or "") for _, t2 in facts.bodies[x[2]].calls()):
                        cb.append(bb)
        after = cf.reachable_blocks(mbb)
        g_ok = None
        for (a, s, c) in dom_guards(cf, mbb, cd):
            ct = cond_truth(c)
            if not ct:
                continue
            if ct[1] and ct[0][0] == "bin" and ct[0][1] == "Gt" and ct[0][3] == ("const", 4, "usize") and any(x[0] == "call" and x[1].endswith("::len") for x in walk(ct[0][2])):
                g_ok = True
            elif short_guard is not None and ct[0] == short_guard[0]:
                g_ok = (ct[1] != short_guard[1])      # marker exactly when the vector was not shortened
            elif g_ok is None:
                g_ok = "?"
        if not cb:
            rep.inconc(R2, "popcount of the flag bytes not found")
        elif any(b0 in after for b0 in cb):
            rep.violation(R2, cf.name, "long-marker", "the long-form marker bit 0 is set before the set bits are counted: it would be counted as a field", cfw)
        elif g_ok is True:
            rep.ok(R2, {"long_marker": "bit 0 set iff more than 4 flag bytes, after the size is computed"})
        elif g_ok == "?":
            rep.inconc(R2, "long-form marker is guarded by a condition that is not recognised")
        else:
            rep.violation(R2, cf.name, "long-marker", "bit 0 is not set (only) for the long form after the size computation", cfw)
    else:
        # absent only counts when the byte vector that carries the field bits is itself what is returned: a value
        # derived from it (re-packed through an integer, copied, sliced) may carry the marker in another spelling
        direct = False
        for bi_, si_, st_ in cf.stmts():
            if st_["k"] == "assign" and st_["lhs"]["l"] == 0 and not st_["lhs"]["p"] and st_["rv"]["k"] == "agg" and st_["rv"]["fields"]:
                f0 = st_["rv"]["fields"][0]
                pl = f0.get("m") or f0.get("c")
                if pl is not None and not pl["p"]:
                    l0 = pl["l"]
                    for _ in range(4):
                        ds_ = cf.defs().get(l0, [])
                        if len(ds_) == 1 and ds_[0][2] == "assign" and ds_[0][3]["rv"]["k"] == "use":
                            p2 = ds_[0][3]["rv"]["a"].get("m") or ds_[0][3]["rv"]["a"].get("c")
                            if p2 is not None and not p2["p"]:
                                l0 = p2["l"]
                                continue
                        break
                    tyl = cf.local_ty(l0) or ""
                    written = any(st2["k"] == "assign" and st2["lhs"]["l"] == l0 and st2["lhs"]["p"] for _, _, st2 in cf.stmts()) or any(
                        t2["args"] and (t2["args"][0].get("m") or t2["args"][0].get("c") or {}).get("l") is not None and
                        any(x == ("var", l0, cf.local_name(l0)) or (x[0] in ("var", "local") and x[1] == l0) for x in walk(cf.term_of_operand(t2["args"][0]))) and
                        (callee_names(t2)[1] or "").endswith("index_mut") for _, t2 in cf.calls())
                    direct = tyl.startswith("std::vec::Vec<u8") and written
        if direct:
            rep.violation(R2, cf.name, "long-marker-missing", "the long-form marker bit 0 is never set", cfw)
        else:
            rep.inconc(R2, "the long-form marker was not found, and the returned flag bytes are derived from the marked ones in a way this rule does not read")
    # size = len(flags) + 4 + 4 * popcount
    size_ok = False
    size_bad = None
    for l in range(len(cf.locals)):
        if cf.local_ty(l) == "usize" and cf.local_name(l):
            ts = [cf.term_of_rvalue(d[3]["rv"]) for d in cf.defs().get(l, []) if d[2] == "assign"]
            has_base = any(affine(t, None) and affine(t, None)[1] == 4 and any(k[0] == "call" and k[1].endswith("::len") for k in affine(t, None)[0]) for t in ts)
            has_inc = any(any(x[0] == "bin" and x[1].startswith("Mul") and x[3] == ("const", 4, "usize") and any(y[0] == "call" and is_popcount(facts, y[1]) for y in walk(x[2])) for x in walk(t)) for t in ts)
            if has_base and has_inc:
                size_ok = True
            elif has_base:
                for t in ts:
                    for x in walk(t):
                        if x[0] == "bin" and x[1].startswith("Mul") and x[3][0] == "const" and any(y[0] == "call" and is_popcount(facts, y[1]) for y in walk(x[2])):
                            size_bad = "record size grows by %s per set bit" % x[3][1]
            # closed form: 4 * sum(count_bits(flag)) + 4 + len(flags)
            if len(ts) == 1:
                pl = poly(ts[0])
                if pl and () in pl and len(pl) == 3:
                    lens = [m for m in pl if len(m) == 1 and m[0][0] == "call" and m[0][1].endswith("::len")]
                    sums = [m for m in pl if len(m) == 1 and m[0][0] == "call" and m[0][1].rsplit("::", 1)[-1] == "sum"]
                    if lens and sums:
                        counts = any(x[0] == "agg" and x[1] == "closure" and x[2] in facts.bodies and any(
                            is_popcount(facts, callee_names(t2)[1] or callee_names(t2)[0] or "") for _, t2 in facts.bodies[x[2]].calls()) for x in walk(cf.term_of_local(l)))
                        if counts:
                            if (pl[()], pl[lens[0]], pl[sums[0]]) == (4, 1, 4):
                                size_ok = True
                            else:
                                size_bad = "record size is %d + %d*len(flags) + %d per set bit" % (pl[()], pl[lens[0]], pl[sums[0]])
    if size_ok:
        rep.ok(R2, {"size": "len(flags) + 4 + 4 * popcount(flags)"})
    elif size_bad:
        rep.violation(R2, cf.name, "size", size_bad + "; specified len(flags) + 4 + 4 per set bit", cfw)
    elif not any(is_popcount(facts, callee_names(t)[1] or callee_names(t)[0] or "") for b0 in [cf] + [facts.bodies[i] for i in facts.bodies if facts.bodies[i].parent == cf.id] for _, t in b0.calls()):
        rep.violation(R2, cf.name, "size", "record size is not len(flags) + 4 + 4 per set bit: the set bits are never counted", cfw)
    else:
        rep.inconc(R2, "record size computation not recognised")
    # count_bits counts all 8 bits
    cb = facts.body("mila::asset_binary::count_bits")
    if cb is None:
        # the helper under another name
        for n_, o_ in getattr(facts, "renamed", {}).items():
            if o_.endswith("asset_binary::count_bits"):
                cb = facts.body(n_)
    if cb is not None:
        rng = [x for bb, t in cb.calls() for x in walk(cb.term_of_operand(t["args"][0])) if t["args"] and x[0] == "agg" and x[2] and x[2].endswith("ops::Range")]
        ones = [t for bb, t in cb.calls() if (callee_names(t)[1] or callee_names(t)[0] or "").endswith("<impl u8>::count_ones")
                and strip_refs(cb.term_of_operand(t["args"][0]))[0] == "param"]
        if ones and not rng and len(list(cb.calls())) == 1:
            rep.ok(R2, {"popcount": "u8::count_ones"})
        elif rng and rng[0][4][0][0] == "const" and rng[0][4][1][0] == "const":
            if rng[0][4][0][1] == 0 and rng[0][4][1][1] == 8:
                rep.ok(R2, {"popcount": "bits 0..8"})
            else:
                rep.violation(R2, cb.name, "popcount", "count_bits examines bits %s..%s, a flag byte has bits 0..8" % (rng[0][4][0][1], rng[0][4][1][1]), "%s:%s" % (cb.file, cb.line))
        else:
            rep.inconc(R2, "count_bits: neither a 0..8 bit loop nor u8::count_ones")


def container_rules(facts, rep, R3):
    ser = facts.body(BIN + "::serialize")
    par = facts.body(BIN + "::from_archive")
    if ser is None or par is None:
        rep.inconc(R3, "AssetBinary::serialize / from_archive missing")
        return
    idx = rpo_index(ser)
    seq = []
    for bb, t in sorted(ser.calls(), key=lambda x: idx.get(x[0], 0)):
        nm = (callee_names(t)[1] or "").rsplit("::", 1)[-1]
        if nm in ("allocate_at_end", "write_u32", "append", "serialize"):
            args = [ser.term_of_operand(a) for a in t["args"][1:]]
            seq.append((nm, [fmt(norm(a))[:30] for a in args]))
    names = [s[0] for s in seq]
    if names == ["allocate_at_end", "write_u32", "append", "allocate_at_end", "serialize"] and seq[0][1] == ["4"] and seq[3][1] == ["4"] and seq[1][1][0] == "0" and "flags" in seq[1][1][1]:
        rep.ok(R3, {"writer": "flags word, specs, 4 zero bytes"})
        rep.ok(R3, {"writer_terminator": 4})
    else:
        rep.violation(R3, ser.name, "container-writer", "container is written as %s" % seq, "%s:%s" % (ser.file, ser.line))
    try:
        ps = enum_paths(par)
    except PathLimit:
        rep.inconc(R3, "from_archive: too many paths")
        return
    first_u32 = False
    push_on_ok = stop_on_err = False
    for p in ps:
        evs = [e for e in p.events if e["k"] == "call" and e["callee"]]
        if evs and any(e["callee"].endswith("::read_u32") for e in evs[:4]):
            first_u32 = True
        for (bb, term, vals, neg, dty) in p.conds:
            if term[0] == "discr" and term[1][0] == "call" and term[1][1].endswith("::from_stream"):
                ok = (vals == (0,)) != neg
                pushes = [e for e in evs if e["callee"].endswith("::push")]
                if ok and pushes and any(x == term[1] for x in walk(pushes[-1]["args"][1])):
                    push_on_ok = True
                if not ok and not pushes and p.end in ("loop", "ret"):
                    stop_on_err = True
    if first_u32:
        rep.ok(R3, {"reader": "flags word first"})
    else:
        rep.violation(R3, par.name, "container-flags", "reader does not start with the u32 flags word", "%s:%s" % (par.file, par.line))
    if push_on_ok and stop_on_err:
        rep.ok(R3, {"reader": "push each Ok spec, stop at the first Err"})
    elif not any(term[0] == "discr" and term[1][0] == "call" and term[1][1].endswith("::from_stream") for p in ps for (bb, term, vals, neg, dty) in p.conds):
        rep.inconc(R3, "from_archive: how the result of from_stream is consumed was not recognised")
    else:
        rep.violation(R3, par.name, "container-loop", "reader loop does not (push on Ok, stop on Err)", "%s:%s" % (par.file, par.line))
    # the spec loop must not stop while a minimal record (flags word + name cell = 8 bytes) and the 4-byte trailer
    # are still ahead of the cursor: evaluate every position-dependent condition inside the loop at such positions
    def pos_val(t, env):
        t = strip_refs(t)
        while t[0] in ("cast", "deref"):
            t = strip_refs(t[1])
        if t[0] == "const" and isinstance(t[1], int) and not isinstance(t[1], bool):
            return t[1]
        if t[0] == "call" and t[1].rsplit("::", 1)[-1] in ("tell", "position"):
            return env["tell"]
        if t[0] == "call" and t[1].rsplit("::", 1)[-1] in ("size", "len", "length"):
            return env["size"]
        if t[0] == "field" and t[3] == 0 and t[1][0] == "bin" and t[1][1].endswith("WithOverflow"):
            t = ("bin", t[1][1].replace("WithOverflow", ""), t[1][2], t[1][3])
        if t[0] == "bin":
            a_, b_ = pos_val(t[2], env), pos_val(t[3], env)
            if a_ is None or b_ is None:
                return None
            op_ = t[1].replace("WithOverflow", "").replace("Unchecked", "")
            if op_ == "Sub" and a_ < b_:
                return None
            return {"Add": a_ + b_, "Sub": a_ - b_, "Mul": a_ * b_, "Eq": a_ == b_, "Ne": a_ != b_, "Lt": a_ < b_, "Le": a_ <= b_, "Gt": a_ > b_, "Ge": a_ >= b_}.get(op_)
        if t[0] == "call" and t[1].rsplit("::", 1)[-1] in ("saturating_sub",) and len(t[2]) == 2:
            a_, b_ = pos_val(t[2][0], env), pos_val(t[2][1], env)
            return None if a_ is None or b_ is None else max(a_ - b_, 0)
        return None
    lblocks = set()
    for h_, bl_ in par.loops().items():
        lblocks |= set(bl_)
    stops = None
    undecided = None
    n_pos = 0
    for bi_ in sorted(lblocks):
        tt_ = par.blocks[bi_]["term"]
        if tt_["k"] != "switch":
            continue
        d_ = par.term_of_operand(tt_["d"])
        if not any(x[0] == "call" and x[1].rsplit("::", 1)[-1] in ("tell", "position") for x in walk(d_)):
            continue
        n_pos += 1
        for t0 in (4, 12, 40):
            v_ = pos_val(d_, {"tell": t0, "size": t0 + 12})
            if v_ is None:
                undecided = fmt(d_)[:60]
                continue
            tk_ = tt_["otherwise"]
            for val_, b_ in tt_["targets"]:
                if val_ == int(bool(v_)):
                    tk_ = b_
            if tk_ not in lblocks:
                stops = (fmt(d_)[:70], t0)
    if stops:
        rep.violation(R3, par.name, "stops-early", "the spec loop leaves on `%s` with the cursor at %d of %d bytes: a minimal 8-byte record followed by the 4-byte trailer is still there and is never read" % (stops[0], stops[1], stops[1] + 12), "%s:%s" % (par.file, par.line))
    elif undecided:
        rep.inconc(R3, "from_archive: a loop condition on the cursor position was not evaluated (%s)" % undecided)
    else:
        rep.ok(R3, {"reader_loop": "no position-dependent exit before the last record", "position_conditions": n_pos})
    # ... nor on the *value* of a word it peeks at: the list has no in-band terminator a record could not also start
    # with (a spec with no optional field present has an all-zero flag word)
    for bi_ in sorted(lblocks):
        tt_ = par.blocks[bi_]["term"]
        if tt_["k"] != "switch" or tt_.get("dty") in ("bool", "isize"):
            continue
        d_ = par.term_of_operand(tt_["d"])
        if d_[0] == "discr" or not any(x[0] == "call" and re.search(r"read_(u8|u16|u32|i32)$", x[1]) for x in walk(d_)):
            continue
        def leaves(b_):
            """does control, entering block b_, leave the loop through straight-line code and switches on boolean
            temporaries assigned on the way (`matches!(word, Ok(0))` is such a temporary)?"""
            known = {}
            for _ in range(12):
                if b_ not in lblocks:
                    return True
                blk_ = par.blocks[b_]
                for st_ in blk_["stmts"]:
                    if st_["k"] == "assign" and not st_["lhs"]["p"]:
                        a_ = st_["rv"].get("a") if st_["rv"].get("k") == "use" else None
                        k_ = a_.get("k") if isinstance(a_, dict) else None
                        if isinstance(k_, dict) and isinstance(k_.get("val"), dict) and k_["val"].get("kind") in ("bool", "int"):
                            known[st_["lhs"]["l"]] = k_["val"]["v"]
                        else:
                            known.pop(st_["lhs"]["l"], None)
                t_ = blk_["term"]
                if t_["k"] in ("goto", "drop"):
                    b_ = t_["t"]
                elif t_["k"] == "switch":
                    pl_ = t_["d"].get("m") or t_["d"].get("c")
                    if not pl_ or pl_["p"] or pl_["l"] not in known:
                        return False
                    nb_ = t_["otherwise"]
                    for v2_, b2_ in t_["targets"]:
                        if v2_ == known[pl_["l"]]:
                            nb_ = b2_
                    b_ = nb_
                else:
                    return False
            return False
        exits = [v_ for v_, b_ in tt_["targets"] if leaves(b_)]
        if leaves(tt_["otherwise"]) and not exits:
            exits = ["any other value"]
        if exits:
            rep.violation(R3, par.name, "stops-on-word", "the spec loop ends when a word read from the archive equals %s (`%s`): a spec whose flag word has that value (no optional field present gives 0) is taken for the end of the list, and it and every later spec are dropped" % (
                exits[0], fmt(d_)[:60]), "%s:%s" % (par.file, tt_.get("line")))
            break

