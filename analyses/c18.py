"""C18 — asset binary: reader, flag computation, size and writer tables agree for all 51 optional fields."""
import re
from mir import fmt, walk, strip_refs, norm, callee_names
from binser import rpo_index, root_of, affine, fmt_affine
from flow import guards, control_deps, cond_truth, enum_paths, PathLimit

EXPLANATION = ("Four tables are extracted from the MIR with control-dependence guards: (a) reader: field stored, flag "
               "bit tested, read kind, presence companion; (b) flag computation: presence predicate and bit set per "
               "field; (c) writer: field written, presence predicate, write kind, in order; (d) record size. They "
               "must agree position by position for the name and all 51 optional fields; short/long form rules and "
               "the container framing are checked as well. Bit-exact value transport follows from kind/width "
               "agreement and C04 and is not separately decided.")
ASSUMPTIONS = ["every field kind occupies one 4-byte cell (string pointer, colour, f32, u32)"]

SPEC = "mila::asset_binary::AssetSpec"
BIN = "mila::asset_binary::AssetBinary"
KIND_R = {"read_string": "string", "read_flag_str": "string", "read_color": "colour", "read_f32": "f32", "read_u32": "u32"}
KIND_W = {"write_string": "string", "write_flag_str": "string", "write_color": "colour", "write_f32": "f32", "write_u32": "u32"}


def self_field(t, param=1):
    """If t denotes (*self).F (through refs / as_deref), return F."""
    for x in walk(t):
        if x[0] == "field" and len(x) > 4 and x[4] == SPEC and strip_refs(x[1])[0] in ("param",):
            return x[2]
    return None


def flag_bit_of_cond(term):
    """cond `flags[B] & MASK != 0`  ->  8*B + log2(MASK)"""
    for x in walk(term):
        if x[0] == "bin" and x[1] == "BitAnd":
            a, b = x[2], x[3]
            if a[0] == "const":
                a, b = b, a
            if b[0] == "const" and isinstance(b[1], int) and b[1] > 0 and b[1] & (b[1] - 1) == 0:
                byte = None
                for y in walk(a):
                    if y[0] == "call" and "ops::Index" in y[1] and y[2][1][0] == "const":
                        byte = y[2][1][1]
                    if y[0] == "index" and y[2][0] == "const":
                        byte = y[2][1]
                if byte is not None:
                    return 8 * byte + b[1].bit_length() - 1
    return None


def reader_table(facts, rd):
    idx = rpo_index(rd)
    cd = control_deps(rd)
    rows = []
    comp = {}
    spec_local = None
    for bi, si, s in rd.stmts():
        if s["k"] != "assign" or not s["lhs"]["p"]:
            continue
        if rd.blocks[bi]["cleanup"] or bi not in idx:
            continue
        e0 = s["lhs"]["p"][0]
        if not (isinstance(e0, dict) and e0.get("adt") == SPEC):
            continue
        fld = e0["name"]
        t = rd.term_of_rvalue(s["rv"])
        g = guards(rd, bi, cd)
        bit = "always"
        long_form = False
        for (a, succ, c) in g:
            ct = cond_truth(c)
            if not ct:
                continue
            fb = flag_bit_of_cond(ct[0])
            if fb is not None and ct[0][0] == "bin" and ct[0][1] in ("Ne", "Eq"):
                want = (ct[0][1] == "Ne") == ct[1]
                if want:
                    bit = fb
            elif ct[0][0] == "bin" and ct[0][1] in ("Gt", "Ge") and ct[1]:
                long_form = True
        if t == ("const", True, "bool"):
            comp[fld] = (bit, idx.get(bi, 0))
            continue
        kind = None
        fbit = None
        for x in walk(t):
            if x[0] == "call":
                sh = x[1].rsplit("::", 1)[-1]
                if sh in KIND_R and kind is None:
                    kind = KIND_R[sh]
                    if sh == "read_flag_str":
                        ia = x[2][2]
                        if ia[0] == "const":
                            fbit = ia[1]
        if kind is None:
            continue
        if fbit is not None:
            bit = fbit
        rows.append({"field": fld, "bit": bit, "kind": kind, "order": idx.get(bi, 0), "long": long_form, "line": s["line"]})
    rows.sort(key=lambda r: r["order"])
    for r in rows:
        c = comp.get("use_" + r["field"])
        r["companion"] = ("use_" + r["field"]) if c and c[0] == r["bit"] else (None if r["kind"] == "string" else "?")
    return rows, comp


def flag_table(facts, cf):
    """field -> (predicate, bit) from `flags[B] |= if pred {0} else {MASK}`"""
    cd = control_deps(cf)
    out = {}
    order = []
    for bi, si, s in cf.stmts():
        if s["k"] != "assign" or s["rv"]["k"] != "bin" or s["rv"]["op"] != "BitOr":
            continue
        lhs = s["lhs"]
        if lhs["p"] != ["deref"]:
            continue
        tgt = cf.term_of_local(lhs["l"])
        if not (tgt[0] == "call" and "index_mut" in tgt[1] and tgt[2][1][0] == "const"):
            continue
        byte = tgt[2][1][1]
        v = s["rv"]["b"]
        vl = (v.get("m") or v.get("c") or {}).get("l")
        if vl is None:
            k = v.get("k")
            if k and k.get("val", {}).get("kind") == "int":
                out["#long-marker"] = ("len>4", 8 * byte + k["val"]["v"].bit_length() - 1, bi)
            continue
        defs = cf.defs().get(vl, [])
        mask = None
        pred = None
        for (dbi, dsi, kind, payload) in defs:
            if kind != "assign":
                continue
            t = cf.term_of_rvalue(payload["rv"])
            if t[0] == "const" and t[1]:
                mask = t[1]
                for (a, succ, c) in guards(cf, dbi, cd):
                    ct = cond_truth(c)
                    if not ct:
                        continue
                    term, truth = ct
                    f = self_field(term)
                    if f is None:
                        continue
                    if term[0] == "call" and term[1].endswith("is_none"):
                        pred = ("is_some", f) if not truth else ("is_none", f)
                    elif term[0] == "call" and term[1].endswith("is_some"):
                        pred = ("is_some", f) if truth else ("is_none", f)
                    else:
                        pred = ("flag", f) if truth else ("not-flag", f)
        if mask is None or pred is None or mask & (mask - 1):
            order.append(("?", byte, mask, pred, s["line"]))
            continue
        bit = 8 * byte + mask.bit_length() - 1
        out[pred[1]] = (pred[0], bit, s["line"])
        order.append((pred[1], byte, mask, pred, s["line"]))
    return out, order


def writer_table(facts, ap):
    idx = rpo_index(ap)
    cd = control_deps(ap)
    rows = []
    for bb, t in sorted(ap.calls(), key=lambda x: idx.get(x[0], 0)):
        nm = callee_names(t)[1] or callee_names(t)[0] or ""
        sh = nm.rsplit("::", 1)[-1]
        if sh not in KIND_W:
            continue
        args = [ap.term_of_operand(a) for a in t["args"]]
        fld = None
        for a in args:
            f = self_field(a)
            if f:
                fld = f
        if fld is None:
            continue
        pred = None
        long_form = False
        for (a, succ, c) in guards(ap, bb, cd):
            ct = cond_truth(c)
            if not ct:
                continue
            term, truth = ct
            f = self_field(term)
            if f and term[0] == "field" and truth:
                pred = ("flag", f)
            elif term[0] == "bin" and term[1] in ("Gt", "Ge") and truth:
                long_form = True
        kind = KIND_W[sh]
        if sh == "write_flag_str":
            pred = ("is_some", fld)
        elif sh == "write_string" and pred is None:
            pred = ("always", fld)
        rows.append({"field": fld, "kind": kind, "pred": pred, "long": long_form, "order": idx.get(bb, 0), "line": t["line"]})
    return rows


def run(facts, rep, ctx):
    R1 = rep.rule("R18.1", "four-table agreement: field order reader = writer; bit(reader) = bit(flag computation); predicate(flag computation) = predicate(writer); kinds; presence companions", floor=150)
    R2 = rep.rule("R18.2", "short/long form: 4 vs 8 flag bytes by bit 0; extended fields only in the long form; long form iff any of flag bytes 4..6 is non-zero", floor=5)
    R3 = rep.rule("R18.3", "container: u32 header flags, specs in order, 4-byte zero terminator; reader stops at the first malformed spec", floor=4)
    rd = facts.body(SPEC + "::from_stream")
    ap = facts.body(SPEC + "::append")
    if rd is None or ap is None or not rd.pub or not ap.pub:
        rep.inconc(R1, "anchors AssetSpec::from_stream / append missing")
        return
    cf = None
    for f in facts.callees(ap):
        cb = facts.bodies.get(f.get("res_id") or f.get("def_id"))
        if cb is not None and cb.local_ty(0).startswith("(std::vec::Vec<u8>") and cb.name.startswith(SPEC):
            cf = cb
    if cf is None:
        rep.inconc(R1, "flag computation (callee of append returning (Vec<u8>, usize)) not identified")
        return
    rrows, comp = reader_table(facts, rd)
    ftab, forder = flag_table(facts, cf)
    wrows = writer_table(facts, ap)
    rw = "%s:%s" % (rd.file, rd.line)
    ww = "%s:%s" % (ap.file, ap.line)
    # helper callee checks: write_flag_str writes iff Some ; read_flag_str tests bit `index`
    helper_checks(facts, rep, R1)
    # ---- order ------------------------------------------------------------------------------------
    rseq = [r["field"] for r in rrows]
    wseq = [w["field"] for w in wrows]
    n = max(len(rseq), len(wseq))
    for i in range(n):
        a = rseq[i] if i < len(rseq) else None
        b = wseq[i] if i < len(wseq) else None
        if a == b:
            rep.ok(R1, {"position": i, "field": a})
        else:
            rep.violation(R1, ap.name, "order:%d" % i, "stream position %d: reader stores `%s`, writer emits `%s`" % (i, a, b), ww)
    # ---- per field ----------------------------------------------------------------------------------
    wby = {w["field"]: w for w in wrows}
    last_bit = -1
    for r in rrows:
        f = r["field"]
        w = wby.get(f)
        if r["bit"] == "always":
            if w and w["pred"] and w["pred"][0] == "always":
                rep.ok(R1, {"field": f, "presence": "always"})
            else:
                rep.violation(R1, ap.name, "always:" + f, "`%s` is always read but written under %s" % (f, w["pred"] if w else None), ww)
            continue
        ft = ftab.get(f) or ftab.get("use_" + f)
        if ft is None:
            rep.violation(R1, cf.name, "flag-missing:" + f, "no flag bit is computed for `%s` (reader tests bit %s)" % (f, r["bit"]), "%s:%s" % (cf.file, cf.line))
            continue
        pred, bit, line = ft
        if bit == r["bit"]:
            rep.ok(R1, {"field": f, "bit": bit})
        else:
            rep.violation(R1, cf.name, "bit:" + f, "`%s`: reader tests flag bit %s, the flag computation sets bit %s" % (f, r["bit"], bit), "%s:%s" % (cf.file, line))
        # predicate agreement flag computation <-> writer
        fpred = (pred, f if pred.startswith("is_") else ("use_" + f if ("use_" + f) in ftab else f))
        if pred == "flag":
            fpred = ("flag", [k for k in (f, "use_" + f) if k in ftab][0])
        wp = w["pred"] if w else None
        if wp is not None and ((pred == "is_some" and wp == ("is_some", f)) or (pred == "flag" and wp == ("flag", fpred[1]))):
            rep.ok(R1, {"field": f, "predicate": "%s(%s)" % (pred, fpred[1])})
        else:
            rep.violation(R1, ap.name, "pred:" + f, "`%s`: bit set under %s(%s) but written under %s" % (f, pred, fpred[1], wp), ww)
        # kinds
        if w and w["kind"] == r["kind"]:
            rep.ok(R1, {"field": f, "kind": r["kind"]})
        else:
            rep.violation(R1, ap.name, "kind:" + f, "`%s` is read as %s and written as %s" % (f, r["kind"], w["kind"] if w else None), ww)
        # presence companion of typed fields
        if r["kind"] != "string":
            if r["companion"] == fpred[1]:
                rep.ok(R1, {"field": f, "companion": r["companion"]})
            else:
                rep.violation(R1, rd.name, "companion:" + f, "reader sets %s for `%s`, writer/flags test %s" % (r["companion"], f, fpred[1]), rw)
        # strictly increasing bits along the stream
        if isinstance(r["bit"], int):
            if r["bit"] <= last_bit:
                rep.violation(R1, rd.name, "bit-order:" + f, "flag bits are not increasing along the stream at `%s` (%s after %s)" % (f, r["bit"], last_bit), rw)
            last_bit = r["bit"]
        # long-form membership
        if isinstance(r["bit"], int) and (r["bit"] >= 32) != r["long"]:
            rep.violation(R2, rd.name, "long-read:" + f, "`%s` (bit %s) is read %s the long-form guard" % (f, r["bit"], "under" if r["long"] else "outside"), rw)
        if w and isinstance(r["bit"], int) and (r["bit"] >= 32) != w["long"]:
            rep.violation(R2, ap.name, "long-write:" + f, "`%s` (bit %s) is written %s the long-form guard" % (f, r["bit"], "under" if w["long"] else "outside"), ww)
    extra = [k for k in ftab if not k.startswith("#") and k not in rseq and k.replace("use_", "", 1) not in rseq]
    for k in extra:
        rep.violation(R1, cf.name, "flag-extra:" + k, "a flag bit is computed for `%s`, which the reader never consumes" % k, "%s:%s" % (cf.file, cf.line))
    form_rules(facts, rep, R2, rd, cf, ap, ftab)
    container_rules(facts, rep, R3)


def helper_checks(facts, rep, R1):
    rf = facts.body("mila::asset_binary::read_flag_str")
    wf = facts.body("mila::asset_binary::write_flag_str")
    for b, name in ((rf, "read_flag_str"), (wf, "write_flag_str")):
        if b is None:
            continue  # helpers may be inlined; the tables then carry the information themselves
        try:
            ps = enum_paths(b)
        except PathLimit:
            rep.inconc(R1, name + ": too many paths")
            continue
        if name == "read_flag_str":
            # index/8 selects the byte, index%8 the bit; read iff the bit is set and the byte exists
            good = False
            for p in ps:
                reads = [e for e in p.events if e["k"] == "call" and e["callee"] and e["callee"].endswith("::read_string")]
                for (bb, term, vals, neg, dty) in p.conds:
                    pass
                if reads:
                    txt = " ".join(fmt(norm(c[1])) for c in p.conds)
                    good = "Div(index, 8)" in txt and "Rem(index, 8)" in txt and "Shl(1" in txt
            if good:
                rep.ok(R1, {"helper": name, "bit": "flags[index/8] & (1 << index%8)"})
            else:
                rep.violation(R1, b.name, "helper-bit", "read_flag_str does not test bit index%8 of byte index/8", "%s:%s" % (b.file, b.line))
        else:
            good = True
            for p in ps:
                some = None
                for (bb, term, vals, neg, dty) in p.conds:
                    if term[0] == "discr" and strip_refs(term[1])[0] == "param":
                        some = (vals == (1,)) != neg
                wr = [e for e in p.events if e["k"] == "call" and e["callee"] and e["callee"].endswith("::write_string")]
                if some is True and len(wr) != 1 and p.end == "ret" and p.ret[0] == "agg":
                    good = False
                if some is False and wr:
                    good = False
            if good:
                rep.ok(R1, {"helper": name, "writes": "iff Some"})
            else:
                rep.violation(R1, b.name, "helper-write", "write_flag_str does not write exactly when the value is Some", "%s:%s" % (b.file, b.line))


def form_rules(facts, rep, R2, rd, cf, ap, ftab):
    rw = "%s:%s" % (rd.file, rd.line)
    # reader: flag_count = 3 (+4 iff raw & 1): evaluate from the defs of the count variable
    cnt_defs = []
    for l in range(len(rd.locals)):
        if rd.local_ty(l) == "usize" and len(rd.defs().get(l, [])) == 2:
            ts = [rd.term_of_rvalue(d[3]["rv"]) for d in rd.defs()[l] if d[2] == "assign"]
            consts = [t for t in ts if t[0] == "const"]
            adds = [t for t in ts if t[0] == "field" and t[1][0] == "bin" and t[1][1].startswith("Add")]
            if len(consts) == 1 and len(adds) == 1:
                cnt_defs.append((l, consts[0][1], adds[0][1][3][1] if adds[0][1][3][0] == "const" else None, rd.defs()[l]))
    if len(cnt_defs) == 1:
        l, base, inc, defs = cnt_defs[0]
        # the increment is guarded by raw & 1 == 1
        cd = control_deps(rd)
        inc_bb = [d[0] for d in defs if d[2] == "assign" and rd.term_of_rvalue(d[3]["rv"])[0] != "const"][0]
        bit0 = False
        for (a, s, c) in guards(rd, inc_bb, cd):
            ct = cond_truth(c)
            if ct and ct[1] and any(x[0] == "bin" and x[1] == "BitAnd" and x[3][0] == "const" and x[3][1] == 1 for x in walk(ct[0])):
                bit0 = True
        if base + 1 == 4 and inc == 4 and bit0:
            rep.ok(R2, {"reader_flag_bytes": "1 + 3, +4 iff bit 0"})
        else:
            rep.violation(R2, rd.name, "flag-count", "reader reads 1+%s flag bytes, +%s under bit0=%s (specified 4 / 8 by bit 0)" % (base, inc, bit0), rw)
    else:
        rep.inconc(R2, "reader flag-count variable not recognised")
    # writer: resize(4) iff bytes 4,5,6 all zero ; bit 0 set iff len > 4 after the size is computed
    cfw = "%s:%s" % (cf.file, cf.line)
    cd = control_deps(cf)
    resize = [(bb, t) for bb, t in cf.calls() if (callee_names(t)[1] or "").endswith("Vec::<T, A>::resize")]
    if len(resize) != 1:
        rep.inconc(R2, "flag computation: short-form truncation not found")
    else:
        bb, t = resize[0]
        newlen = cf.term_of_operand(t["args"][1])
        bytes_tested = set()
        for (a, s, c) in guards(cf, bb, cd):
            ct = cond_truth(c)
            if ct and ct[1] and ct[0][0] == "bin" and ct[0][1] == "Eq" and ct[0][3] == ("const", 0, "u8"):
                for y in walk(ct[0][2]):
                    if y[0] == "call" and "ops::Index" in y[1] and y[2][1][0] == "const":
                        bytes_tested.add(y[2][1][1])
        ext_bytes = set(b // 8 for (p, b, l) in [v for k, v in ftab.items() if not k.startswith("#")] if b >= 32)
        if newlen == ("const", 4, "usize") and bytes_tested == ext_bytes and ext_bytes:
            rep.ok(R2, {"short_form": "flags truncated to 4 bytes iff bytes %s are all zero" % sorted(bytes_tested)})
        else:
            rep.violation(R2, cf.name, "short-form", "flags are truncated to %s when bytes %s are zero; extended fields live in bytes %s" % (fmt(newlen), sorted(bytes_tested), sorted(ext_bytes)), cfw)
    marker = ftab.get("#long-marker")
    if marker and marker[1] == 0:
        # must come after the size computation (count_bits loop): its block is after the loop
        mbb = marker[2]
        cb = [bb for bb, t in cf.calls() if (callee_names(t)[1] or "").endswith("count_bits")]
        idx = rpo_index(cf)
        g_ok = False
        for (a, s, c) in guards(cf, mbb, cd):
            ct = cond_truth(c)
            if ct and ct[1] and ct[0][0] == "bin" and ct[0][1] == "Gt" and ct[0][3] == ("const", 4, "usize"):
                g_ok = True
        if cb and idx.get(mbb, 0) > idx.get(cb[0], 0) and g_ok:
            rep.ok(R2, {"long_marker": "bit 0 set iff more than 4 flag bytes, after the size is computed"})
        else:
            rep.violation(R2, cf.name, "long-marker", "bit 0 is not set (only) for the long form after the size computation", cfw)
    else:
        rep.violation(R2, cf.name, "long-marker-missing", "the long-form marker bit 0 is never set", cfw)
    # size = len(flags) + 4 + 4 * popcount
    size_ok = False
    for l in range(len(cf.locals)):
        if cf.local_ty(l) == "usize" and cf.local_name(l):
            ts = [cf.term_of_rvalue(d[3]["rv"]) for d in cf.defs().get(l, []) if d[2] == "assign"]
            has_base = any(affine(t, None) and affine(t, None)[1] == 4 and any(k[0] == "call" and k[1].endswith("::len") for k in affine(t, None)[0]) for t in ts)
            has_inc = any(any(x[0] == "bin" and x[1].startswith("Mul") and x[3] == ("const", 4, "usize") and any(y[0] == "call" and y[1].endswith("count_bits") for y in walk(x[2])) for x in walk(t)) for t in ts)
            if has_base and has_inc:
                size_ok = True
    if size_ok:
        rep.ok(R2, {"size": "len(flags) + 4 + 4 * popcount(flags)"})
    else:
        rep.violation(R2, cf.name, "size", "record size is not len(flags) + 4 + 4 per set bit", cfw)
    # count_bits counts all 8 bits
    cb = facts.body("mila::asset_binary::count_bits")
    if cb is not None:
        rng = [x for bb, t in cb.calls() for x in walk(cb.term_of_operand(t["args"][0])) if t["args"] and x[0] == "agg" and x[2] and x[2].endswith("ops::Range")]
        if rng and rng[0][4][0][1] == 0 and rng[0][4][1][1] == 8:
            rep.ok(R2, {"popcount": "bits 0..8"})
        else:
            rep.violation(R2, cb.name, "popcount", "count_bits does not examine bits 0..8", "%s:%s" % (cb.file, cb.line))


def container_rules(facts, rep, R3):
    ser = facts.body(BIN + "::serialize")
    par = facts.body(BIN + "::from_archive")
    if ser is None or par is None:
        rep.inconc(R3, "AssetBinary::serialize / from_archive missing")
        return
    idx = rpo_index(ser)
    seq = []
    for bb, t in sorted(ser.calls(), key=lambda x: idx.get(x[0], 0)):
        nm = (callee_names(t)[1] or "").rsplit("::", 1)[-1]
        if nm in ("allocate_at_end", "write_u32", "append", "serialize"):
            args = [ser.term_of_operand(a) for a in t["args"][1:]]
            seq.append((nm, [fmt(norm(a))[:30] for a in args]))
    names = [s[0] for s in seq]
    if names == ["allocate_at_end", "write_u32", "append", "allocate_at_end", "serialize"] and seq[0][1] == ["4"] and seq[3][1] == ["4"] and seq[1][1][0] == "0" and "flags" in seq[1][1][1]:
        rep.ok(R3, {"writer": "flags word, specs, 4 zero bytes"})
        rep.ok(R3, {"writer_terminator": 4})
    else:
        rep.violation(R3, ser.name, "container-writer", "container is written as %s" % seq, "%s:%s" % (ser.file, ser.line))
    try:
        ps = enum_paths(par)
    except PathLimit:
        rep.inconc(R3, "from_archive: too many paths")
        return
    first_u32 = False
    push_on_ok = stop_on_err = False
    for p in ps:
        evs = [e for e in p.events if e["k"] == "call" and e["callee"]]
        if evs and any(e["callee"].endswith("::read_u32") for e in evs[:4]):
            first_u32 = True
        for (bb, term, vals, neg, dty) in p.conds:
            if term[0] == "discr" and term[1][0] == "call" and term[1][1].endswith("::from_stream"):
                ok = (vals == (0,)) != neg
                pushes = [e for e in evs if e["callee"].endswith("::push")]
                if ok and pushes and any(x == term[1] for x in walk(pushes[-1]["args"][1])):
                    push_on_ok = True
                if not ok and not pushes and p.end in ("loop", "ret"):
                    stop_on_err = True
    if first_u32:
        rep.ok(R3, {"reader": "flags word first"})
    else:
        rep.violation(R3, par.name, "container-flags", "reader does not start with the u32 flags word", "%s:%s" % (par.file, par.line))
    if push_on_ok and stop_on_err:
        rep.ok(R3, {"reader": "push each Ok spec, stop at the first Err"})
    else:
        rep.violation(R3, par.name, "container-loop", "reader loop does not (push on Ok, stop on Err)", "%s:%s" % (par.file, par.line))
