"""Position-dependent loop exits of stream parsers: a reader loop must not leave while a whole minimal record is
still ahead of the cursor.  Every switch inside a loop whose discriminant mentions the cursor position
(`tell()` / `position()`) is evaluated with `ahead` bytes left; taking an edge out of the loop there is the witness."""
from mir import fmt, walk, strip_refs


def pos_val(t, env):
    t = strip_refs(t)
    while t[0] in ("cast", "deref"):
        t = strip_refs(t[1])
    if t[0] == "const" and isinstance(t[1], int) and not isinstance(t[1], bool):
        return t[1]
    if t[0] == "call" and t[1].rsplit("::", 1)[-1] in ("tell", "position"):
        return env["tell"]
    if t[0] == "call" and t[1].rsplit("::", 1)[-1] in ("size", "len", "length"):
        return env["size"]
    if t[0] == "field" and t[3] == 0 and t[1][0] == "bin" and t[1][1].endswith("WithOverflow"):
        t = ("bin", t[1][1].replace("WithOverflow", ""), t[1][2], t[1][3])
    if t[0] == "bin":
        a_, b_ = pos_val(t[2], env), pos_val(t[3], env)
        if a_ is None or b_ is None:
            return None
        op_ = t[1].replace("WithOverflow", "").replace("Unchecked", "")
        if op_ == "Sub" and a_ < b_:
            return None
        return {"Add": a_ + b_, "Sub": a_ - b_, "Mul": a_ * b_, "Eq": a_ == b_, "Ne": a_ != b_, "Lt": a_ < b_, "Le": a_ <= b_, "Gt": a_ > b_, "Ge": a_ >= b_}.get(op_)
    if t[0] == "call" and t[1].rsplit("::", 1)[-1] in ("saturating_sub",) and len(t[2]) == 2:
        a_, b_ = pos_val(t[2][0], env), pos_val(t[2][1], env)
        return None if a_ is None or b_ is None else max(a_ - b_, 0)
    return None


def position_exit(body, ahead, starts=(4, 12, 40)):
    """(stops, undecided, n): stops = (condition text, cursor) of an exit taken with `ahead` bytes left;
    undecided = a position condition that could not be evaluated; n = position conditions seen."""
    lblocks = set()
    for h_, bl_ in body.loops().items():
        lblocks |= set(bl_)
    stops = undecided = None
    n = 0
    for bi_ in sorted(lblocks):
        tt_ = body.blocks[bi_]["term"]
        if tt_["k"] != "switch":
            continue
        d_ = body.term_of_operand(tt_["d"])
        if not any(x[0] == "call" and x[1].rsplit("::", 1)[-1] in ("tell", "position") for x in walk(d_)):
            continue
        n += 1
        for t0 in starts:
            v_ = pos_val(d_, {"tell": t0, "size": t0 + ahead})
            if v_ is None:
                undecided = fmt(d_)[:60]
                continue
            tk_ = tt_["otherwise"]
            for val_, b_ in tt_["targets"]:
                if val_ == int(bool(v_)):
                    tk_ = b_
            if tk_ not in lblocks:
                stops = (fmt(d_)[:70], t0)
    return stops, undecided, n
