"""C17 — animation-set file: reader and writer are dual structures (8 groups x 32 bits, index map, label)."""
from mir import fmt, walk, strip_refs, norm, callee_names
from binser import for_loops, enclosing_loops, rpo_index, root_of, affine, fmt_affine, deep
from flow import enum_paths, PathLimit, guards, control_deps, cond_truth

EXPLANATION = ("Reader and writer of the animation-set file are compared structurally: same table label constant, "
               "same loop bounds (257 / 8 groups / 32 bits), bit test vs bit set on the loop counters, identical "
               "slot index map 32*group + bit + 1 in the flag computation and in the emission loop, the reader pushes "
               "exactly one slot per bit in every branch, a group word is emitted iff its flags are non-zero iff its "
               "main bit is set, a string iff its bit is set, and the space allocated per set is 4 bytes per emitted "
               "word. Byte stability of re-serialisation depends on C02 and is not decided.")
ASSUMPTIONS = ["the clip table has 257 entries (property's domain); the writer emits len(table) entries",
               "BinArchive string/label cells behave as decided under C01-C04"]

RD = "mila::aset::ASetFile::from_archive"
WR = "mila::aset::ASetFile::serialize"


def range_loops(nv):
    """for-loops over constant ranges / adaptors: list of (loop, lo, hi or None, take)"""
    out = []
    for lp in for_loops(nv):
        if lp["kind"] != "for" or lp["src"] is None:
            continue
        lo = hi = take = None
        for x in walk(lp["src"]):
            if x[0] == "agg" and x[2] and x[2].endswith("ops::Range") and len(x[4]) == 2:
                if x[4][0][0] == "const" and x[4][1][0] == "const":
                    lo, hi = x[4][0][1], x[4][1][1]
            if x[0] == "call" and x[1].endswith("Iterator::take") and x[2][1][0] == "const":
                take = x[2][1][1]
        out.append((lp, lo, hi, take))
    return out


def loop_item_local(nv, lp):
    """The named local bound to the loop's item (or to a component of it)."""
    res = []
    for l in range(len(nv.locals)):
        if nv.is_atom(l):
            ds = nv.defs().get(l, [])
            if len(ds) == 1 and ds[0][0] in lp["blocks"]:
                d = nv.definition(l)
                if any(x[0] == "call" and x[1].endswith("::next") and len(x) > 3 and x[3] == lp.get("next_bb") for x in walk(d)):
                    res.append(l)
    return res


def bit_test_cond(c):
    """bit_test for a branch condition in either form: a boolean comparison, or a `match` on the masked word
    itself (`match (w >> s) & 1 { 0 => .., _ => .. }`)."""
    term, vals, neg, dty = c
    ct = cond_truth(c)
    if ct:
        return bit_test(ct[0], ct[1])
    if dty in ("u8", "u16", "u32", "u64", "usize", "i32") and vals == (0,):
        # arm `0` (not neg): the masked value is zero -> bit clear; the other arm: set
        return bit_test(("bin", "Ne", term, ("const", 0, dty)), neg)
    return None


def bit_test(t, truth):
    """A condition that tests one bit of a word, however it is spelt:  `w & (1 << s) != 0`,  `(w >> s) & 1 == 1`,
    `(w >> s) & 1 != 0`, and their negations.  Returns (normed word term, shift term, bit is set on this arm)."""
    def sc(x):
        while x[0] == "cast":
            x = x[1]
        if x[0] == "field" and x[3] == 0 and x[1][0] == "bin" and x[1][1].endswith("WithOverflow"):
            x = ("bin", x[1][1].replace("WithOverflow", ""), x[1][2], x[1][3])
        return x
    t = sc(t)
    if not (t[0] == "bin" and t[1] in ("Ne", "Eq") and t[3][0] == "const" and isinstance(t[3][1], int)):
        return None
    k = t[3][1]
    e = sc(t[2])
    if not (e[0] == "bin" and e[1] == "BitAnd"):
        return None
    for a, b in ((e[2], e[3]), (e[3], e[2])):
        b0, a0 = sc(b), sc(a)
        if b0[0] == "bin" and b0[1] == "Shl" and b0[2][0] == "const" and b0[2][1] == 1 and k == 0:
            return (norm(a0), b0[3], ((t[1] == "Ne") == truth))
        if b0[0] == "const" and b0[1] == 1 and a0[0] == "bin" and a0[1] == "Shr" and k in (0, 1):
            nonzero = (t[1] == "Ne") if k == 0 else (t[1] == "Eq")
            return (norm(a0[2]), a0[3], (nonzero == truth))
    return None


def bulk_slot_writes(rep, R1, wr, ww):
    """A run of slots written in one go (`for entry in &set[a..b] { write_string(entry) }`) under a test that fixes the
    group's flag word to a constant K: the reader will pull one string per set bit of K, so the run has to hold
    exactly popcount(K) slots."""
    from flow import dom_guards, cond_truth
    from binser import const_fold
    loops = for_loops(wr)
    for lp in loops:
        blocks = lp["blocks"]
        if not any((callee_names(t)[1] or "").endswith("::write_string") for bb, t in wr.calls() if bb in blocks):
            continue
        src = lp.get("src")
        rng = None
        for x in walk(src) if src else ():
            if x[0] == "call" and "ops::Index" in x[1] and len(x[2]) == 2 and strip_refs(x[2][1])[0] == "agg" and (strip_refs(x[2][1])[2] or "").endswith("ops::Range"):
                rng = strip_refs(x[2][1])
        if rng is None or len(rng[4]) != 2:
            continue
        a, b = affine(rng[4][0], None), affine(rng[4][1], None)
        if a is None or b is None:
            rep.inconc(R1, "writer: a run of slots %s is written in one loop; its length is not affine" % fmt(rng)[:60])
            continue
        diff = {k: b[0].get(k, 0) - a[0].get(k, 0) for k in set(a[0]) | set(b[0])}
        if any(diff.values()):
            rep.inconc(R1, "writer: a run of slots %s is written in one loop; its length is not a constant" % fmt(rng)[:60])
            continue
        n = b[1] - a[1]
        K = None
        for (ab, sb_, c) in dom_guards(wr, lp["head"]):
            ct = cond_truth(c)
            if ct and ct[0][0] == "bin" and ct[0][1] in ("Eq", "Ne") and ((ct[0][1] == "Eq") == ct[1]):
                for side in (ct[0][2], ct[0][3]):
                    v = const_fold(side)
                    if v is not None:
                        K = v
        if K is None:
            rep.inconc(R1, "writer: %d slots are written in one loop under a condition that does not fix the group's flag word" % n)
            continue
        bits = bin(K & 0xFFFFFFFF).count("1")
        if bits == n:
            rep.ok(R1, {"bulk_run": "%d slots under flag word %#x" % (n, K)})
        else:
            rep.violation(R1, wr.name, "bulk-run-length", "under flag word %#x (%d set bits) the writer emits a run of %d slots (%s): the reader pulls one string per set bit, so every later cell of the file is read %d cell(s) off" % (
                K, bits, n, fmt(rng)[:60], abs(bits - n)), ww)


def slot_access_rule(facts, rep, R1, wr, ww):
    """Every element access `view.get(i)` / `view[i]` of the writer into a set: the set index it denotes
    (sub-slice offsets added) must be 32*group + bit + 1, and a constant cap on the viewed range must not cut off
    slot 256."""
    loops = range_loops(wr)
    bound_of_bb = {}
    for lp, lo, hi, tk in loops:
        if lp.get("next_bb") is not None and lo == 0 and hi is not None:
            bound_of_bb[lp["next_bb"]] = hi
        elif lp.get("next_bb") is not None and hi is None and tk is not None and any(
                x[0] == "call" and x[1].endswith("Iterator::enumerate") for x in walk(lp["src"])):
            bound_of_bb[lp["next_bb"]] = tk        # `.enumerate().take(k)`: the index runs over 0..k

    def mark(t):
        """loop items as ('const', 'loop@bb', ..) markers, so that they survive term normalisation"""
        if not isinstance(t, tuple) or not t:
            return t
        if t[0] == "call" and t[1].endswith("::next") and len(t) > 3 and t[3] in bound_of_bb:
            return ("param", 1000 + t[3], "loop")
        return tuple(mark(x) if isinstance(x, tuple) else x for x in t)

    def atom_bound(a):
        for x in walk(a):
            if x[0] == "param" and isinstance(x[1], int) and x[1] >= 1000 and (x[1] - 1000) in bound_of_bb:
                return bound_of_bb[x[1] - 1000]
        return None

    def peel(base):
        """(offset affine, cap) of a view into the set vector; cap = smallest constant bound on the exclusive end"""
        off = ({}, 0)
        cap = None
        for _ in range(6):
            base = strip_refs(base)
            while base[0] == "deref":
                base = strip_refs(base[1])
            # `view.get(a..).unwrap_or(&[])`, `view.get(a..b)?`: the same view as `&view[a..]` where it exists
            if base[0] == "call" and base[1].rsplit("::", 1)[-1] in ("unwrap_or", "unwrap_or_default", "unwrap", "expect", "unwrap_or_else") and base[2]:
                inner_ = strip_refs(base[2][0])
                if inner_[0] == "call" and inner_[1].endswith("<impl [T]>::get") and len(inner_[2]) == 2 and strip_refs(inner_[2][1])[0] == "agg":
                    base = ("call", "ops::Index::index", (inner_[2][0], inner_[2][1]))
                else:
                    return None
            if base[0] in ("field", "downcast") and any(x[0] == "call" and x[1].endswith("<impl [T]>::get") for x in walk(base)):
                g_ = [x for x in walk(base) if x[0] == "call" and x[1].endswith("<impl [T]>::get") and len(x[2]) == 2 and strip_refs(x[2][1])[0] == "agg"]
                if len(g_) != 1:
                    return None
                base = ("call", "ops::Index::index", (g_[0][2][0], g_[0][2][1]))
            if base[0] == "call" and "ops::Index" in base[1] and len(base[2]) == 2 and strip_refs(base[2][1])[0] == "agg":
                rg = strip_refs(base[2][1])
                kind = (rg[2] or "").rsplit("::", 1)[-1]
                st = en = None
                if kind == "Range" and len(rg[4]) == 2:
                    st, en = rg[4]
                elif kind == "RangeFrom":
                    st = rg[4][0]
                elif kind == "RangeTo":
                    en = rg[4][0]
                elif kind != "RangeFull":
                    return None
                if st is not None:
                    a = affine(st, None)
                    if a is None:
                        return None
                    off = ({k: off[0].get(k, 0) + a[0].get(k, 0) for k in set(off[0]) | set(a[0])}, off[1] + a[1])
                    # a cap found on an outer view counts from this view's start
                    if cap is not None:
                        cap = cap + a[1] if not a[0] else None
                if en is not None:
                    from binser import const_fold
                    e_ = strip_refs(en)
                    ks = []
                    if const_fold(e_) is not None:
                        ks = [const_fold(e_)]
                    elif e_[0] == "call" and e_[1].rsplit("::", 1)[-1] == "min":
                        ks = [const_fold(a_) for a_ in e_[2] if const_fold(a_) is not None]
                    for k_ in ks:
                        # the cap is expressed in the coordinates of the view being sliced
                        capk = k_ + 0
                        cap = capk if cap is None else min(cap, capk)
                base = base[2][0]
                continue
            if base[0] == "call" and base[1].rsplit("::", 1)[-1] in ("deref", "as_slice", "as_ref", "borrow", "iter") and base[2]:
                base = base[2][0]
                continue
            if base[0] == "call":
                return None          # a view produced some other way: where it starts is not known
            break
        return off, cap, base
    found = []
    for bb, t in wr.calls():
        nm = callee_names(t)[1] or ""
        is_get = nm.endswith("<impl [T]>::get") and len(t["args"]) == 2
        is_idx = "ops::Index" in nm and nm.endswith("::index") and len(t["args"]) == 2
        if not (is_get or is_idx):
            continue
        idx_t = wr.term_of_operand(t["args"][1])
        if strip_refs(idx_t)[0] == "agg":
            continue
        a = affine(mark(idx_t), None)
        if a is None or not a[0]:
            continue
        bounds = [(atom_bound(k), v) for k, v in a[0].items()]
        if any(b_ is None for b_, v in bounds):
            continue
        bounds = sorted(bounds)
        pl = peel(wr.term_of_operand(t["args"][0]))
        if pl is None:
            continue
        off, cap, root = pl
        if off[0]:
            continue
        found.append((bounds, a[1] + off[1], cap, t["line"]))
    for bounds, const, cap, line in found:
        if sorted(bounds) != [(8, 32), (32, 1)]:
            continue     # not a slot access (some other indexed collection)
        where = "%s:%s" % (wr.file, line)
        if const != 1:
            rep.violation(R1, wr.name, "slot-index:%d" % const, "the writer looks at set index 32*group + bit + %d (specified + 1: index 0 holds the label)" % const, where)
        elif cap is not None and cap < 257:
            rep.violation(R1, wr.name, "slot-cap:%d" % cap, "the writer views the set through a range capped at index %d: slot %d .. 256 (group 7, bit 31) are never serialised" % (cap, cap), where)
        else:
            rep.ok(R1, {"slot_access": "set[32*group + bit + 1]", "line": line})
    # any sub-slice view of a set, however its elements are then reached (chunks, zip, iterators): a constant cap on its
    # end below 257 cuts off slot 256
    for bb, t in wr.calls():
        nm = callee_names(t)[1] or ""
        if "ops::Index" in nm and nm.endswith("::index") and len(t["args"]) == 2:
            idx_t = strip_refs(wr.term_of_operand(t["args"][1]))
            if idx_t[0] != "agg" or not str(idx_t[2] or "").startswith("std::ops::Range"):
                continue
            whole = ("call", nm, (wr.term_of_operand(t["args"][0]), wr.term_of_operand(t["args"][1])), bb, nm)
            pl = peel(whole)
            if pl is None:
                continue
            off, cap, root = pl
            from_sets = any(x[0] == "field" and x[2] == "sets" for x in walk(root))
            if from_sets and cap is not None and cap < 257 and not off[0] and off[1] >= 0:
                key = "slot-cap:%d" % cap
                if not any(v["key"].endswith(key) for v in rep.violations):
                    rep.violation(R1, wr.name, key, "the writer views the set through a range capped at index %d: slot %d .. 256 (group 7, bit 31) are never serialised" % (cap, cap), "%s:%s" % (wr.file, t["line"]))
    return len([f for f in found if sorted(f[0]) == [(8, 32), (32, 1)]])


def slot_index_width(rep, R1, wr, ww):
    """A set has the unused entry 0 and the slots 1 ..= 256 (8 groups x 32 bits): a position in the set does not fit
    in a byte.  Witness: the writer converts an `enumerate()` position over the set to u8 (`u8::try_from`, `as u8`)
    with no arithmetic in between -- position 256, the last slot, is lost or wraps to 0."""
    def positional(t):
        return any(x[0] == "call" and x[1].endswith("Iterator::enumerate") for x in walk(t)) and not any(x[0] == "bin" for x in walk(t))
    for bb, t in wr.calls():
        nm = callee_names(t)[1] or ""
        if ("TryFrom<usize> for u8" in nm or "TryFrom<u32> for u8" in nm or "TryFrom<u16> for u8" in nm) and t["args"] and positional(wr.term_of_operand(t["args"][0])):
            rep.violation(R1, wr.name, "slot-index-narrowed",
                          "the writer converts a position in the set to u8 (%s): slots are numbered 1 ..= 256, position 256 (group 8, bit 31) does not fit and is never flagged or written" % nm.rsplit("::", 1)[-1], ww)
            return
    for blk in wr.blocks:
        for st in blk["stmts"]:
            if st["k"] == "assign" and st["rv"].get("k") == "cast" and st.get("lty") == "u8":
                t = wr.term_of_rvalue(st["rv"])
                if t[0] == "cast" and positional(t[1]):
                    rep.violation(R1, wr.name, "slot-index-narrowed",
                                  "the writer casts a position in the set to u8: slots are numbered 1 ..= 256, position 256 (group 8, bit 31) wraps to 0", ww)
                    return


def run(facts, rep, ctx):
    R1 = rep.rule("R17.1", "dual structure: label constant, loop bounds, bit test/set, slot index map, one slot per bit, group/main-bit coupling, string/bit coupling", floor=11)
    R2 = rep.rule("R17.2", "space accounting: 4 bytes per emitted word per set; 12-byte header; 4 bytes per clip-table entry", floor=3)
    R3 = rep.rule("R17.3", "archive adders under the set writer (write_label for set names, write_string for slots): payload stored on every non-error path, no payload-dependent refusal, no removal keyed on the label being added (two sets may carry the same label text)", floor=2)
    import annot
    annot.contract(facts, rep, R3, ("write_label", "write_string"))
    rd = facts.body(RD)
    wr = facts.body(WR)
    if rd is None or wr is None or not rd.pub or not wr.pub:
        rep.inconc(R1, "anchors ASetFile::from_archive / serialize missing")
        return
    rw = "%s:%s" % (rd.file, rd.line)
    ww = "%s:%s" % (wr.file, wr.line)
    rnv, wnv = rd.named_view(), wr.named_view()
    slot_index_width(rep, R1, wr, ww)
    # ---- label constant ---------------------------------------------------------------------------
    rl = wl = None
    for bb, t in rd.calls():
        if (callee_names(t)[1] or "").endswith("BinArchive::find_label_address"):
            a = strip_refs(rd.term_of_operand(t["args"][1]))
            if a[0] == "const":
                rl = a[1]
    for bb, t in wr.calls():
        if (callee_names(t)[1] or "").endswith("BinArchiveWriter::<'a>::write_label") and not enclosing_loops(for_loops(wnv), bb):
            a = strip_refs(wr.term_of_operand(t["args"][1]))
            if a[0] == "const":
                wl = a[1]
    if rl is not None and rl == wl:
        rep.ok(R1, {"table_label": rl})
    elif rl is None or wl is None:
        rep.inconc(R1, "clip-table label constant not found (writer %r, reader %r)" % (wl, rl))
    else:
        rep.violation(R1, wr.name, "table-label", "writer labels the clip table %r, reader looks for %r" % (wl, rl), ww)
    # ---- loop bounds ---------------------------------------------------------------------------------
    rloops = range_loops(rnv)
    wloops = range_loops(wnv)
    rb = sorted((hi for lp, lo, hi, tk in rloops if hi is not None and lo == 0))
    wb = sorted((hi for lp, lo, hi, tk in wloops if hi is not None and lo == 0))
    takes = [tk for lp, lo, hi, tk in wloops if tk is not None]
    fill32 = any((callee_names(t)[1] or callee_names(t)[0] or "").rsplit("::", 1)[-1] == "extend" and len(t["args"]) == 2 and any(
        x[0] == "call" and x[1].endswith("Iterator::take") and len(x[2]) == 2 and x[2][1][:2] == ("const", 32) for x in walk(rd.term_of_operand(t["args"][1]))) for bb, t in rd.calls())
    # a table read written as (0..257).map(..).collect()
    mapped = sorted(x[4][1][1] for bb, t in rd.calls() if (callee_names(t)[0] or "").endswith("Iterator::map") for x in walk(rd.term_of_operand(t["args"][0]))
                    if x[0] == "agg" and x[2] and x[2].endswith("ops::Range") and len(x[4]) == 2 and x[4][0][:2] == ("const", 0) and x[4][1][0] == "const")
    # (in the analysis view such a pipeline is already a loop: count it once)
    rb = sorted(rb + [m_ for m_ in mapped if m_ not in rb])
    has_resize32 = fill32 or any((callee_names(t)[1] or "").endswith("Vec::<T, A>::resize") and (affine(rd.term_of_operand(t["args"][1]), None) or (None, None))[1] == 32 for bb, t in rd.calls() if len(t["args"]) == 3)
    if rb == [8, 32, 32, 257] or (rb == [8, 32, 257] and has_resize32):
        rep.ok(R1, {"reader_loops": rb})
    elif len(rb) != 4:
        # e.g. the 32 absent slots produced by `resize` instead of a loop: a different shape, not a different bound
        if set(rb) - {8, 32, 257} and len(rb) == 3 and not (set(rb) & {256}):
            rep.violation(R1, rd.name, "reader-bounds", "reader loops run to %s (specified: 257 table entries, 8 groups, 32 bits)" % rb, rw)
        else:
            # (a single loop over 8 * 32 = 256 slots, or any other nesting: a different shape, not a different bound)
            rep.inconc(R1, "reader loop structure not recognised: constant-range loops %s" % rb)
    else:
        rep.violation(R1, rd.name, "reader-bounds", "reader loops run to %s (specified: 257 table entries, 8 groups, 32 bits, 32 absent slots)" % rb, rw)
    if wb == [8, 32, 32] and takes == [8]:
        rep.ok(R1, {"writer_loops": wb, "take": takes})
    elif len(wb) != 3 or len(takes) != 1:
        if set(wb) - {8, 32} or set(takes) - {8, 32}:
            rep.violation(R1, wr.name, "writer-bounds", "writer loops run to %s, emission takes %s groups (specified: 8 x 32, 8)" % (wb, takes), ww)
        else:
            rep.inconc(R1, "writer loop structure not recognised: constant-range loops %s, take %s" % (wb, takes))
    else:
        rep.violation(R1, wr.name, "writer-bounds", "writer loops run to %s, emission takes %s groups (specified: 8 x 32, 8)" % (wb, takes), ww)
    # ---- index maps (writer) ----------------------------------------------------------------------------
    idx_forms = []
    for l in range(len(wnv.locals)):
        if wnv.is_atom(l) and wnv.local_ty(l) == "usize":
            ds = wnv.defs().get(l, [])
            if len(ds) == 1 and ds[0][2] == "assign":
                a = affine(wnv.definition(l), wnv, expand=False)
                if a and a[1] == 1 and len(a[0]) == 2 and sorted(a[0].values()) == [1, 32]:
                    # the weight-32 atom must be a group-loop item, the weight-1 atom a bit-loop item
                    g = [k for k, v in a[0].items() if v == 32][0]
                    b_ = [k for k, v in a[0].items() if v == 1][0]
                    idx_forms.append((l, g, b_, ds[0][0]))
                elif a and len(a[0]) == 2 and any(k[0] == "local" for k in a[0]):
                    idx_forms.append((l, None, None, ds[0][0], a))
    good_forms = [f for f in idx_forms if f[1] is not None]
    bad_forms = [f for f in idx_forms if f[1] is None]

    def loop_bound_of(nv, atom, loops):
        if atom[0] != "local":
            return None
        for lp, lo, hi, tk in loops:
            if atom[1] in loop_item_local(nv, lp):
                return hi if hi is not None else tk
        return None
    # slot accesses of the writer on the fully expanded terms (independent of how locals are named)
    n_slots = slot_access_rule(facts, rep, R1, wr, ww)
    bulk_slot_writes(rep, R1, wr, ww)
    if len(good_forms) == 2 and not bad_forms:
        okb = all(loop_bound_of(wnv, f[1], wloops) == 8 and loop_bound_of(wnv, f[2], wloops) == 32 for f in good_forms)
        if okb:
            rep.ok(R1, {"slot_index": "32*group + bit + 1 (flag computation)"})
            rep.ok(R1, {"slot_index": "32*group + bit + 1 (emission)"})
        else:
            rep.violation(R1, wr.name, "index-loops", "slot index uses loop counters with bounds other than (8, 32)", ww)
    elif not bad_forms and n_slots >= 2:
        pass        # decided by the slot-access rule above
    elif not bad_forms:
        rep.inconc(R1, "writer slot index: %d expression(s) of the form 32*group + bit + 1 recognised (2 expected)" % len(good_forms))
    else:
        desc = [fmt_affine(f[4]) for f in bad_forms] or ["%d index expressions" % len(good_forms)]
        rep.violation(R1, wr.name, "index-map", "writer slot index is %s (specified: 32*group + bit + 1 in both the flag computation and the emission loop)" % desc, ww)
    # ---- reader: one push per bit in every branch, label first ------------------------------------------
    try:
        rpaths = enum_paths(rd)
    except PathLimit:
        rep.inconc(R1, "reader: too many paths")
        return
    # the set loop does not leave while a minimal set (its main flag word alone: 4 bytes) is still ahead
    from posloop import position_exit
    stops, undec, npos = position_exit(rd, 4)
    if stops:
        rep.violation(R1, rd.name, "stops-early", "the set loop leaves on `%s` with the cursor at %d of %d bytes: a set that consists of its main flag word alone (every group absent) is still there and is never read" % (stops[0], stops[1], stops[1] + 4), rw)
    elif undec:
        rep.inconc(R1, "from_archive: a loop condition on the cursor position was not evaluated (%s)" % undec)
    elif npos:
        rep.ok(R1, {"set_loop": "continues while any byte is ahead", "position_conditions": npos})
    # every trip round the set loop stores one set: a path back to the loop head that pushed nothing drops a set
    def head_cond(h):
        x_ = h
        for _ in range(8):
            tt_ = rd.blocks[x_]["term"]
            if tt_["k"] == "switch":
                return rd.term_of_operand(tt_["d"])
            nx_ = [y for y in rd.succs(x_)]
            if len(nx_) != 1 and tt_["k"] != "call":
                return None
            x_ = tt_.get("t") if tt_["k"] in ("call", "goto", "drop", "assert") else None
            if x_ is None:
                return None
        return None
    heads = [h for h in rd.loops() if head_cond(h) is not None and any(
        x[0] == "call" and x[1].rsplit("::", 1)[-1] in ("tell", "position") for x in walk(head_cond(h)))]
    if len(heads) == 1:
        h = heads[0]
        trips = [p for p in rpaths if p.end == "loop" and getattr(p, "loop_to", None) == h and h in p.blocks]
        dropped = None
        for p in trips:
            pos = p.blocks.index(h)
            later = set(p.blocks[pos:])
            stored = False
            for e in p.events:
                if e["k"] == "call" and e["callee"] and e["bb"] in later and e["callee"].rsplit("::", 1)[-1] in ("push", "extend", "insert", "push_back") and e["args"]:
                    a0 = e["args"][0]
                    raw0 = rd.blocks[e["bb"]]["term"]["args"][0] if rd.blocks[e["bb"]]["term"]["k"] == "call" and rd.blocks[e["bb"]]["term"]["args"] else {}
                    rawp = raw0.get("m") or raw0.get("c")
                    raw_ty = (rd.local_ty(rawp["l"]) or "") if rawp and not rawp["p"] else ""
                    if any(x[0] == "field" and x[2] == "sets" for x in walk(a0)) or "std::vec::Vec<std::vec::Vec<" in raw_ty or any(
                            x[0] in ("var", "local") and (rd.local_ty(x[1]) or "").startswith("std::vec::Vec<std::vec::Vec<") for x in walk(a0)):
                        stored = True
            if not stored:
                conds = [c for c in p.conds if c[0] in later]
                dropped = "; ".join(fmt(c[1])[:50] for c in conds[-2:])
        if dropped is not None:
            rep.violation(R1, rd.name, "set-dropped", "the set loop can go round without storing a set (under [%s]): that set is missing from the re-read value" % dropped, rw)
        elif trips:
            rep.ok(R1, {"set_loop": "every trip stores one set", "paths": len(trips)})
    per_bit = {}
    resize_absent = []
    bit_tests = set()
    main_tests = set()
    for p in rpaths:
        if p.end != "loop":
            continue
        # paths through the 32-iteration loops end when the loop head repeats: count pushes to `set`
        last_next = None
        pushes_after = 0
        kinds = []
        for e in p.events:
            if e["k"] == "call" and e["callee"] and e["callee"].endswith("::next") and "Range" in e["callee"]:
                last_next = e
                pushes_after = 0
                kinds = []
            elif e["k"] == "call" and e["callee"] and e["callee"].endswith("Vec::<T, A>::push"):
                pushes_after += 1
                v = e["args"][1]
                kinds.append("string" if any(x[0] == "call" and x[1].endswith("::read_string") for x in walk(v)) else ("none" if (v[0] == "agg" and v[3] == "None") else "other"))
        if last_next is None:
            continue
        rng = [x for x in walk(last_next["args"][0]) if x[0] == "agg" and x[2] and x[2].endswith("ops::Range")]
        if rng and rng[0][4][1][:2] == ("const", 8):
            # an iteration of the group loop that fills the 32 slots of an absent group in one go:
            # set.resize(set.len() + 32, None)
            for e in p.events:
                if e["k"] == "call" and e["callee"] and e["callee"].rsplit("::", 1)[-1] == "extend" and len(e["args"]) == 2:
                    tk = [x for x in walk(e["args"][1]) if x[0] == "call" and x[1].endswith("Iterator::take") and len(x[2]) == 2 and x[2][1][0] == "const"]
                    rp = [x for x in walk(e["args"][1]) if x[0] == "call" and x[1].endswith("iter::repeat") and x[2]]
                    if tk and rp:
                        v = strip_refs(rp[0][2][0])
                        mkey = []
                        for (bb, term, vals, neg, dty) in p.conds:
                            bt = bit_test_cond((term, vals, neg, dty))
                            if bt:
                                mkey.append(bt[2])
                        resize_absent.append((tk[0][2][1][1], v[0] == "agg" and v[3] == "None", mkey))
                if e["k"] == "call" and e["callee"] and e["callee"].endswith("Vec::<T, A>::resize") and len(e["args"]) == 3 and e.get("bb", -1) >= 0:
                    af = affine(e["args"][1], None)
                    v = e["args"][2]
                    is_none = v[0] == "agg" and v[3] == "None"
                    if af and len(af[0]) == 1 and list(af[0].values()) == [1] and list(af[0])[0][0] == "call" and list(af[0])[0][1].endswith("::len"):
                        grow = af[1]
                        mkey = []
                        for (bb, term, vals, neg, dty) in p.conds:
                            bt = bit_test_cond((term, vals, neg, dty))
                            if bt:
                                mkey.append(bt[2])
                        resize_absent.append((grow, is_none, mkey))
        if not rng or rng[0][4][1][1] != 32:
            continue
        # only iterations that actually ran (next() returned Some)
        took = None
        for (bb, term, vals, neg, dty) in p.conds:
            if term[0] == "discr" and term[1] == last_next["val"]:
                took = (vals == (1,)) != neg
        if not took:
            continue
        # which branch: bit test truth
        key = []
        for (bb, term, vals, neg, dty) in p.conds:
            bt = bit_test_cond((term, vals, neg, dty))
            if bt is None:
                continue
            src, shv, is_set = bt
            z = shv
            while z[0] in ("cast", "ref", "deref"):
                z = z[1]
            direct = "item:next" if (z[0] == "field" and z[1][0] == "downcast" and z[1][1][0] == "call" and z[1][1][1].endswith("::next")) else None
            if direct is None:
                # an affine function of a loop counter other than the counter itself is a different bit
                af = affine(z, None)
                if af and len(af[0]) == 1:
                    (atom, coef), = af[0].items()
                    a0 = atom
                    while a0[0] in ("cast", "ref", "deref"):
                        a0 = a0[1]
                    if a0[0] == "field" and a0[1][0] == "downcast" and a0[1][1][0] == "call" and a0[1][1][1].endswith("::next") and (coef, af[1]) != (1, 0):
                        direct = "wrong:%d*counter%+d" % (coef, af[1])
            key.append((fmt(src)[:40], direct, is_set))
        per_bit.setdefault(tuple(key), []).append((pushes_after, kinds))
    good = bool(per_bit)
    desc = []
    unk = []
    for key, lst in per_bit.items():
        for n, kinds in lst:
            if n != 1:
                good = False
                desc.append("%s pushes %d slot(s) per iteration" % (key, n))
            if key and key[-1][1] is None:
                unk.append("bit test is not `flags & (1 << counter)`")
                continue
            if key and str(key[-1][1]).startswith("wrong:"):
                good = False
                desc.append("bit test shifts by %s instead of the loop counter" % key[-1][1][6:])
                continue
            if key and key[-1][2] is True and kinds != ["string"]:
                good = False
                desc.append("bit set but pushes %s" % kinds)
            if key and key[-1][2] is False and kinds != ["none"]:
                good = False
                desc.append("bit clear but pushes %s" % kinds)
    for grow, is_none, mkey in resize_absent:
        if grow != 32 or not is_none:
            desc.append("an absent group is filled with %s slot(s)%s (specified: 32 absent slots)" % (grow, "" if is_none else " that are not None"))
        elif mkey and mkey[-1] is True:
            desc.append("32 absent slots are appended when the group's main bit is set")
    absent_by_resize = any(grow == 32 and is_none and mkey and mkey[-1] is False for grow, is_none, mkey in resize_absent)
    if desc:
        rep.violation(R1, rd.name, "one-slot-per-bit", "reader slot accounting: %s" % desc, rw)
    elif good and (len(per_bit) >= 3 or (len(per_bit) >= 2 and absent_by_resize)) and not unk:
        rep.ok(R1, {"reader": "exactly one slot per bit: string if set, absent if clear, 32 absent for a missing group", "branches": len(per_bit)})
    else:
        rep.inconc(R1, "reader slot accounting: %s" % (unk[0] if unk else "branches not recognised (%d)" % len(per_bit)))
    # main-bit test uses the group counter, bit test the bit counter
    cnt_ok = 0
    for key in per_bit:
        for (src, shv, truth) in key:
            if shv and "next" in shv:
                cnt_ok += 1
    if cnt_ok >= 3 or (cnt_ok >= 2 and absent_by_resize):
        rep.ok(R1, {"reader_bit_tests": "flags & (1 << loop counter)"})
    else:
        rep.inconc(R1, "reader bit tests of the form `flags & (1 << loop counter)` not recognised")
    # label first, then main flags
    first = None
    for p in rpaths:
        evs = [e["callee"].rsplit("::", 1)[-1] for e in p.events if e["k"] == "call" and e["callee"] and "BinArchiveReader" in e["callee"] and e["callee"].rsplit("::", 1)[-1] in ("read_label", "read_u32", "read_string")]
        if "read_label" in evs:
            i = evs.index("read_label")
            if first is None or len(evs[i:i + 2]) > len(first):
                first = evs[i:i + 2]
    if first == ["read_label", "read_u32"]:
        rep.ok(R1, {"reader_set_header": "label at the cursor, then the main flags"})
    elif first is None and any((callee_names(t)[1] or "").rsplit("::", 1)[-1] in ("all_labels", "get_labels") and "BinArchive" in (callee_names(t)[1] or "") for bb, t in rd.calls()):
        # no label is looked up at the set's own address, and the archive's whole label list is fetched instead:
        # the sets get their names by position in that list
        rep.violation(R1, rd.name, "label-by-position", "the reader never looks a label up at a set's own position; it fetches the list of all labels of the archive and hands them to the sets in order: a set without a label shifts every later name to the wrong set", rw)
    elif first is None:
        rep.inconc(R1, "reader: the label read that starts a set was not found")
    else:
        rep.violation(R1, rd.name, "set-header", "a set starts with %s (specified: label, main flags)" % first, rw)
    # ---- every set in the data is read: the set loop is left only by its own condition or by an error -------
    import c20
    okb = set(c20.ok_blocks(rd))
    outer = None
    for lp in for_loops(rd):
        if lp["kind"] == "while" and (outer is None or len(lp["blocks"]) > len(outer["blocks"])):
            outer = lp
    if outer is None:
        rep.inconc(R1, "reader set loop not found")
    else:
        head_exit_sources = set()
        early = []
        cond_blocks = [outer["head"]] + [s_ for s_ in rd.succs(outer["head"]) if s_ in outer["blocks"]]
        for u in outer["blocks"]:
            for v in rd.succs(u):
                if v in outer["blocks"]:
                    continue
                reach = rd.reachable_blocks(v)
                if reach & okb:
                    # a normal (non-error) exit
                    t = rd.blocks[u]["term"]
                    is_cond = t["k"] == "switch" and any(x[0] == "call" and x[1].endswith("::tell") for x in walk(rd.term_of_operand(t["d"])))
                    if is_cond:
                        head_exit_sources.add(u)
                    else:
                        early.append((u, t.get("line")))
        if early:
            rep.violation(R1, rd.name, "early-exit", "the set loop can be left from inside its body without an error (line %s): the remaining sets are silently dropped" % early[0][1], rw)
        elif head_exit_sources:
            rep.ok(R1, {"reader_loop": "left only when the cursor reaches the end of the data, or by an error"})
        else:
            rep.inconc(R1, "reader set loop exit not recognised")
    # ---- writer couplings -------------------------------------------------------------------------------
    cd = control_deps(wnv)
    names = {wnv.local_name(l): l for l in range(len(wnv.locals)) if wnv.is_atom(l)}
    # accumulators: u32 locals updated with BitOr(self, Shl(1, counter))
    accs = {}
    counters = {}
    for l in range(len(wnv.locals)):
        if not wnv.is_atom(l):
            continue
        for (bi, si, kind, payload) in wnv.defs().get(l, []):
            if kind != "assign":
                continue
            t = wnv.term_of_rvalue(payload["rv"])
            tt = t
            if tt[0] == "field" and tt[1][0] == "bin":
                tt = tt[1]
            if tt[0] == "bin" and tt[1] == "BitOr" and tt[2] == ("local", l, wnv.local_name(l)):
                sh = tt[3]
                if sh[0] == "bin" and sh[1] == "Shl" and sh[2][0] == "const" and sh[2][1] == 1:
                    accs[l] = (bi, sh[3])
            if tt[0] == "bin" and tt[1].startswith("Add") and tt[2] == ("local", l, wnv.local_name(l)) and tt[3][0] == "const" and tt[3][1] == 1:
                counters[l] = bi
    grp = [l for l, (bi, sh) in accs.items() if loop_bound_of(wnv, sh, wloops) == 32]
    mains = [l for l, (bi, sh) in accs.items() if loop_bound_of(wnv, sh, wloops) == 8]
    wrong_shift = []
    for l, (bi, sh) in accs.items():
        if sh[0] != "local":
            af = affine(sh, wnv, expand=False)
            if af and len(af[0]) == 1:
                (atom, coef), = af[0].items()
                if loop_bound_of(wnv, atom, wloops) in (8, 32) and (coef, af[1]) != (1, 0):
                    wrong_shift.append("%s |= 1 << (%s)" % (wnv.local_name(l), fmt_affine(af)))
    if wrong_shift:
        rep.violation(R1, wr.name, "bit-set", "writer sets %s: the reader tests bit `counter` (specified group |= 1 << bit, main |= 1 << group)" % wrong_shift[0], ww)
        return
    if len(grp) == 1 and len(mains) == 1:
        rep.ok(R1, {"writer_bit_sets": "group |= 1 << bit ; main |= 1 << group"})
    else:
        rep.inconc(R1, "writer flag accumulation of the form group |= 1 << bit (32), main |= 1 << group (8) not recognised: %s" % {wnv.local_name(l): fmt(sh)[:40] for l, (bi, sh) in accs.items()})
        return
    g_l, m_l = grp[0], mains[0]
    # main bit set under `group_flags != 0`, and one counter incremented under the same guard
    def guard_terms(bb):
        out = []
        for (a, s, c) in guards(wnv, bb, cd):
            ct = cond_truth(c)
            if ct:
                out.append(ct)
        return out
    mg = guard_terms(accs[m_l][0])
    def nonzero(t, truth, who):
        return t[0] == "bin" and t[2] == who and t[3][0] == "const" and t[3][1] == 0 and ((t[1] == "Ne" and truth) or (t[1] == "Eq" and not truth))
    G_L = ("local", g_l, wnv.local_name(g_l))
    main_guard_ok = any(nonzero(t, truth, G_L) for t, truth in mg)
    flag_counter = [l for l, bi in counters.items() if any(nonzero(t, truth, G_L) for t, truth in guard_terms(bi))]
    gg = guard_terms(accs[g_l][0])
    present_guard = [t for t, truth in gg if truth and t[0] == "local"]
    str_counter = [l for l, bi in counters.items() if bi == accs[g_l][0] or any(t in present_guard for t, truth in guard_terms(bi) if truth)]
    str_counter = [l for l in str_counter if l not in flag_counter]
    if main_guard_ok and len(flag_counter) == 1:
        rep.ok(R1, {"coupling": "main bit set iff group flags != 0, counted once"})
    else:
        rep.violation(R1, wr.name, "main-coupling", "the main bit / group-word counter are not both guarded by `group flags != 0`", ww)
    # emission: write_u32(*flag) and the string loop guarded by *flag != 0 ; string write guarded by the slot being Some
    em_ok = False
    str_ok = False
    em_seen = False
    str_seen = False
    for bb, t in wnv.calls():
        nm = callee_names(t)[1] or ""
        if nm.endswith("BinArchiveWriter::<'a>::write_u32") and enclosing_loops(for_loops(wnv), bb):
            v = wnv.term_of_operand(t["args"][1])
            gts = guard_terms(bb)
            em_seen = True
            if any(tt[0] == "bin" and norm(tt[2]) == norm(v) and tt[3][0] == "const" and tt[3][1] == 0 and ((tt[1] == "Ne" and truth) or (tt[1] == "Eq" and not truth)) for tt, truth in gts):
                em_ok = True
        if nm.endswith("BinArchiveWriter::<'a>::write_string") and len(enclosing_loops(for_loops(wnv), bb)) >= 3:
            str_seen = True
            # `for name in slots.iter().flatten()`: only present slots are visited at all
            for lp in enclosing_loops(for_loops(wnv), bb):
                src = deep(wnv, lp.get("src")) if lp.get("src") else None
                if src and any(x[0] == "call" and x[1].endswith("Iterator::flatten") for x in walk(src)):
                    v = wnv.term_of_operand(t["args"][1])
                    if any(x[0] == "call" and x[1].endswith("::next") and len(x) > 3 and x[3] == lp.get("next_bb") for x in walk(v)) or any(
                            x[0] == "local" and x[1] in loop_item_local(wnv, lp) for x in walk(v)):
                        str_ok = True
            for (a, s, c) in guards(wnv, bb, cd):
                term, vals, neg, dty = c
                if term[0] == "discr" and any(x[0] == "call" and x[1].endswith("<impl [T]>::get") for x in walk(term)) and ((vals == (1,)) != neg):
                    str_ok = True
    if em_ok:
        rep.ok(R1, {"coupling": "group word emitted iff non-zero"})
    elif not em_seen:
        rep.inconc(R1, "writer: emission of the group words not recognised")
    else:
        rep.violation(R1, wr.name, "emit-coupling", "the group word is not emitted under `flags != 0` of the same word", ww)
    if str_ok:
        rep.ok(R1, {"coupling": "string emitted iff the slot is present"})
    elif not str_seen:
        rep.inconc(R1, "writer: emission of the slot strings not recognised")
    else:
        rep.violation(R1, wr.name, "string-coupling", "a slot's string is not emitted under `slot is Some`", ww)
    # presence predicate in the flag computation derives from the same slot lookup
    pres_ok = False
    for l in range(len(wnv.locals)):
        if wnv.is_atom(l) and wnv.local_ty(l) == "bool":
            d = wnv.definition(l) if len(wnv.defs().get(l, [])) == 1 else None
            if d is not None and any(x[0] == "call" and x[1].endswith("<impl [T]>::get") for x in walk(d)):
                cb = [x for x in walk(d) if x[0] == "agg" and x[1] == "closure"]
                inner = facts.bodies.get(cb[0][2]) if cb else None
                if inner is not None and any((callee_names(t)[1] or "").endswith("Option::<T>::is_some") for bb, t in inner.calls()):
                    if ("local", l, wnv.local_name(l)) in present_guard:
                        pres_ok = True
    if pres_ok:
        rep.ok(R1, {"coupling": "bit set iff set.get(index) is Some(Some(_))"})
    elif not present_guard:
        rep.violation(R1, wr.name, "presence", "the group bit is set unconditionally (specified: only when the slot holds a name)", ww)
    else:
        rep.inconc(R1, "writer: the presence test guarding the group bit is not of the form `set.get(index)` is Some(Some(_))")
    # ---- R17.2 space ---------------------------------------------------------------------------------------
    allocs = []
    for bb, t in wnv.calls():
        nm = callee_names(t)[1] or ""
        if nm.endswith("::allocate_at_end"):
            allocs.append((bb, affine(wnv.term_of_operand(t["args"][1]), wnv, expand=False), bool(enclosing_loops(for_loops(wnv), bb))))
    hdr = [a for bb, a, inl in allocs if not inl and a and not a[0]]
    tab = [a for bb, a, inl in allocs if not inl and a and a[0]]
    per = [a for bb, a, inl in allocs if inl]
    flat = [a for bb, a, inl in allocs if not inl]
    if hdr and hdr[0][1] == 12 and tab and list(tab[0][0].values()) == [4] and tab[0][1] == 0:
        rep.ok(R2, {"header_bytes": 12})
        rep.ok(R2, {"clip_table": "4 bytes per entry"})
    elif flat and all(a is not None for a in flat):
        # total outside the set loop = 12 + 4 * entries, however it is split over calls
        tot_c = sum(a[1] for a in flat)
        tot = {}
        for a in flat:
            for k, v in a[0].items():
                tot[k] = tot.get(k, 0) + v
        # an atom may be a named local holding 4 * len: expand one level
        exp = {}
        for k, v in tot.items():
            sub = affine(wnv.definition(k[1]), wnv, expand=False) if (k[0] == "local" and len(wnv.defs().get(k[1], [])) == 1) else None
            if sub is not None:
                tot_c += v * sub[1]
                for k2, v2 in sub[0].items():
                    exp[k2] = exp.get(k2, 0) + v * v2
            else:
                exp[k] = exp.get(k, 0) + v
        if tot_c == 12 and list(exp.values()) == [4]:
            rep.ok(R2, {"header_bytes": 12})
            rep.ok(R2, {"clip_table": "4 bytes per entry"})
        elif len(exp) == 1:
            rep.violation(R2, wr.name, "header-alloc", "space allocated before the sets is %d + %s (specified 12 + 4 x entries)" % (tot_c, fmt_affine((exp, 0))), ww)
        else:
            rep.inconc(R2, "allocation before the sets not recognised: %s" % [fmt_affine(a) for a in flat])
    else:
        rep.inconc(R2, "allocation before the sets not recognised")
    want = {("local", l, wnv.local_name(l)): 4 for l in (flag_counter + str_counter)}
    if len(per) == 1 and per[0] is not None and per[0][0] == want and per[0][1] == 4 and len(want) == 2:
        rep.ok(R2, {"per_set": fmt_affine(per[0])})
    elif len(per) != 1 or per[0] is None or len(want) != 2 or set(per[0][0]) != set(want):
        rep.inconc(R2, "per-set allocation not recognised: %s" % [fmt_affine(a) if a else None for a in per])
    else:
        rep.violation(R2, wr.name, "set-alloc", "per-set allocation is %s (specified 4 x (1 + group words + strings))" % [fmt_affine(a) for a in per], ww)
