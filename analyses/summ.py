"""Decision-table evaluation of *extracted summaries*.

A function summary is the list of acyclic paths produced by flow.enum_paths: each path is a
conjunction of branch conditions (terms over the parameters) and a result term.  `Evaluator`
evaluates such summaries at the representatives of a finite partition of the inputs (ordering
classes of integers, enum variants, booleans) to obtain a decision table that a rule compares
with the specified table.  The analysed crate is never compiled to machine code or run; what is
evaluated are the terms the extractor read off the MIR, with local callees expanded through
their own summaries (bounded depth) and a fixed table of pure std models.
"""
from flow import enum_paths, TRY_BRANCH, FROM_RESIDUAL_PREFIX, STD_VARIANTS, PathLimit
from mir import walk

INT_BITS = {"u8": 8, "u16": 16, "u32": 32, "u64": 64, "usize": 64, "u128": 128,
            "i8": 8, "i16": 16, "i32": 32, "i64": 64, "isize": 64, "i128": 128}


class Unknown(Exception):
    """The summary contains a construct the evaluator has no model for -> INCONCLUSIVE."""


class Panic(Exception):
    """The summary reaches an assert/panic at this class representative."""
    def __init__(self, what):
        Exception.__init__(self, what)
        self.what = what


class Adt:
    __slots__ = ("ty", "variant", "fields")

    def __init__(self, ty, variant, fields=()):
        self.ty = ty
        self.variant = variant
        self.fields = tuple(fields)

    def __eq__(self, o):
        return isinstance(o, Adt) and (self.ty_last(), self.variant, self.fields) == (o.ty_last(), o.variant, o.fields)

    def __hash__(self):
        return hash((self.ty_last(), self.variant, self.fields))

    def ty_last(self):
        return (self.ty or "").split("<")[0].rsplit("::", 1)[-1]

    def __repr__(self):
        if self.fields:
            return "%s::%s(%s)" % (self.ty_last(), self.variant, ", ".join(repr(f) for f in self.fields))
        return "%s::%s" % (self.ty_last(), self.variant)


class Ref:
    __slots__ = ("v",)

    def __init__(self, v):
        self.v = v

    def __repr__(self):
        return "&%r" % (self.v,)


class Closure:
    def __init__(self, body_id, captures):
        self.body_id = body_id
        self.captures = captures


def deref(v):
    while isinstance(v, Ref):
        v = v.v
    return v


def wrap(v, ty):
    b = INT_BITS.get(ty)
    if b is None or not isinstance(v, int):
        return v
    if ty.startswith("u"):
        return v & ((1 << b) - 1)
    v &= (1 << b) - 1
    if v >> (b - 1):
        v -= 1 << b
    return v


def in_range(v, ty):
    b = INT_BITS.get(ty)
    if b is None:
        return True
    if ty.startswith("u"):
        return 0 <= v < (1 << b)
    return -(1 << (b - 1)) <= v < (1 << (b - 1))


class Evaluator:
    def __init__(self, facts, models=None, max_depth=8):
        self.facts = facts
        self.models = dict(STD_MODELS)
        if models:
            self.models.update(models)
        self.max_depth = max_depth
        self._summ = {}
        self.trace = []

    def summary(self, body):
        if body.id not in self._summ:
            try:
                self._summ[body.id] = enum_paths(body)
            except PathLimit:
                raise Unknown("too many paths in " + body.name)
        return self._summ[body.id]

    # -- calling a local function on values ------------------------------------------------
    def call_body(self, body, args, depth=0, captures=None):
        if depth > self.max_depth:
            raise Unknown("inlining depth exceeded at " + body.name)
        env = {("p", i + 1): a for i, a in enumerate(args)}
        paths = self.summary(body)
        for p in paths:
            ok = True
            local = dict(env)
            try:
                # evaluate events in order up to each condition: asserts/panics interleave with
                # conditions by block order, so walk blocks
                ok = self._path_holds(body, p, local, depth)
            except _Mismatch:
                ok = False
            if ok:
                if p.end == "ret":
                    self._effect_guard(body, p)
                    return self.ev(p.ret, local, body, depth)
                if p.end == "diverge":
                    raise Panic("diverging call in %s" % body.name)
                if p.end == "loop":
                    raise Unknown("loop in " + body.name)
                raise Unknown("path ends with %s in %s" % (p.end, body.name))
        raise Unknown("no path of %s matches" % body.name)

    def _effect_guard(self, body, p):
        """The evaluator is pure: a returned value that mentions an object which the path also hands out as
        `&mut` (retain, sort, push, ...) or stores into cannot be read off its defining term."""
        mutated = []
        for e in p.events:
            if e["k"] == "call":
                for a in e["args"]:
                    if a[0] == "ref" and a[2] and a[1][0] not in ("param", "const"):
                        mutated.append((a[1], e.get("callee")))
            elif e["k"] == "write":
                r = e["place"]
                while r[0] in ("deref", "index", "field", "downcast", "ref"):
                    r = r[1]
                if r[0] == "call":
                    mutated.append((r, "a store"))
        if not mutated:
            return
        inside = set()
        for x in walk(p.ret):
            inside.add(x)
        for t, who in mutated:
            # iterators advanced by next() / any() / find() ... are consumed, not observed afterwards
            if who and who.rsplit("::", 1)[-1] in ("next", "any", "all", "find", "find_map", "position", "rposition", "count", "sum", "fold",
                                                   "last", "nth", "for_each", "try_for_each", "max", "min", "next_back") and "Iterator" in who:
                continue
            if t in inside:
                raise Unknown("%s returns a value that was changed in place by %s (not modelled)" % (body.name, (who or "?").rsplit("::", 1)[-1]))

    def _path_holds(self, body, p, env, depth):
        # interleave asserts (events carry bb) and conditions (carry bb) by path block order
        order = {bb: i for i, bb in enumerate(p.blocks)}
        items = []
        for c in p.conds:
            items.append((order.get(c[0], 0), 1, c))
        for e in p.events:
            if e["k"] == "assert":
                items.append((order.get(e["bb"], 0), 0, e))
            elif e["k"] == "call" and e.get("callee") and e["callee"].startswith("core::panicking"):
                items.append((order.get(e["bb"], 0), 0, e))
        items.sort(key=lambda x: (x[0], x[1]))
        for _, kind, it in items:
            if kind == 1:
                bb, term, vals, neg, dty = it
                v = self.ev(term, env, body, depth)
                if isinstance(v, bool):
                    v = int(v)
                if isinstance(v, Adt):
                    raise Unknown("switch on ADT value")
                hit = v in vals
                if hit == neg:
                    raise _Mismatch()
            else:
                e = it
                if e["k"] == "assert":
                    if e["kind"] in ("Misaligned", "NullPtr"):
                        continue
                    c = self.ev(e["cond"], env, body, depth)
                    if bool(c) != e["expected"]:
                        raise Panic("%s %s at %s:%s" % (e["kind"], e.get("op") or "", body.file, e["line"]))
                else:
                    raise Panic("explicit panic at %s:%s" % (body.file, e["line"]))
        return True

    # -- term evaluation -------------------------------------------------------------------
    def ev(self, t, env, body, depth=0):
        tag = t[0]
        if tag == "param":
            k = ("p", t[1])
            if k not in env:
                raise Unknown("unbound parameter %s" % (t[2],))
            return env[k]
        if tag == "const":
            v = t[1]
            if v is None:
                raise Unknown("opaque constant")
            return v
        if tag == "var":
            k = ("v", t[1])
            if k in env:
                return env[k]
            raise Unknown("path-dependent variable %s in %s" % (t[2] or t[1], body.name))
        if tag == "ref":
            return Ref(self.ev(t[1], env, body, depth))
        if tag == "deref":
            v = self.ev(t[1], env, body, depth)
            if isinstance(v, Ref):
                return v.v
            return v
        if tag == "cast":
            v = deref(self.ev(t[1], env, body, depth))
            if isinstance(v, bool):
                v = int(v)
            if isinstance(v, int):
                return wrap(v, t[2])
            return v
        if tag == "un":
            v = deref(self.ev(t[2], env, body, depth))
            if t[1] == "Not":
                if isinstance(v, bool):
                    return not v
                raise Unknown("bitwise not")
            if t[1] == "Neg":
                return -v
            if t[1] == "PtrMetadata":
                if isinstance(v, (tuple, list, bytes)):
                    return len(v)
                if isinstance(v, SeqVal):
                    return len(v.items)
                if isinstance(v, dict) and "len" in v:
                    return v["len"]
                raise Unknown("len of non-sequence")
            raise Unknown("unop " + t[1])
        if tag == "bin":
            a = deref(self.ev(t[2], env, body, depth))
            b = deref(self.ev(t[3], env, body, depth))
            return self.binop(t[1], a, b, t[4] if len(t) > 4 else None)
        if tag == "field":
            v = deref(self.ev(t[1], env, body, depth))
            idx = t[3]
            if isinstance(v, tuple):
                return v[idx]
            if isinstance(v, Adt):
                if idx < len(v.fields):
                    return v.fields[idx]
                raise Unknown("field %s of %r" % (idx, v))
            if isinstance(v, Closure):
                return v.captures[idx]
            if isinstance(v, dict):
                if t[2] in v:
                    return v[t[2]]
                raise Unknown("field %s unknown" % (t[2],))
            raise Unknown("field of %r" % (v,))
        if tag == "downcast":
            v = deref(self.ev(t[1], env, body, depth))
            if isinstance(v, Adt):
                if v.variant != t[2]:
                    raise Unknown("downcast mismatch %r as %s" % (v, t[2]))
                return v
            raise Unknown("downcast of non-ADT")
        if tag == "discr":
            v = deref(self.ev(t[1], env, body, depth))
            if isinstance(v, Adt):
                return self.discr_of(v)
            raise Unknown("discriminant of %r" % (v,))
        if tag == "agg":
            fields = tuple(self.ev(f, env, body, depth) for f in t[4])
            if t[1] == "tuple":
                return fields
            if t[1] == "adt":
                return Adt(t[2], t[3], fields)
            if t[1] == "closure":
                return Closure(t[2], fields)
            if t[1] == "array":
                return fields
            raise Unknown("aggregate " + str(t[1]))
        if tag == "call":
            return self.call(t, env, body, depth)
        if tag == "index":
            v = deref(self.ev(t[1], env, body, depth))
            i = deref(self.ev(t[2], env, body, depth))
            if isinstance(v, (tuple, list, bytes)):
                return v[i]
            raise Unknown("index of opaque")
        raise Unknown("term " + tag)

    def discr_of(self, v):
        last = v.ty_last()
        if last in STD_VARIANTS:
            for k, n in STD_VARIANTS[last].items():
                if n == v.variant:
                    return k
        for key, a in self.facts.adts.items():
            if key.rsplit("::", 1)[-1] == last:
                for vv in a["variants"]:
                    if vv["name"] == v.variant:
                        return vv["discr"]
        raise Unknown("discriminant of %r" % (v,))

    def binop(self, op, a, b, ty):
        if isinstance(a, bool) and isinstance(b, bool):
            if op == "BitAnd":
                return a and b
            if op == "BitOr":
                return a or b
            if op == "BitXor":
                return a != b
        if op in ("Eq", "Ne", "Lt", "Le", "Gt", "Ge"):
            if isinstance(a, Adt) or isinstance(b, Adt):
                if op == "Eq":
                    return a == b
                if op == "Ne":
                    return a != b
                raise Unknown("ordering of ADTs")
            return {"Eq": a == b, "Ne": a != b, "Lt": a < b, "Le": a <= b, "Gt": a > b, "Ge": a >= b}[op]
        if not (isinstance(a, int) and isinstance(b, int)):
            raise Unknown("arith on %r %r" % (a, b))
        base = op.replace("WithOverflow", "").replace("Unchecked", "")
        if base == "Add":
            r = a + b
        elif base == "Sub":
            r = a - b
        elif base == "Mul":
            r = a * b
        elif base == "Div":
            if b == 0:
                raise Panic("division by zero")
            r = abs(a) // abs(b) * (1 if (a >= 0) == (b >= 0) else -1)
        elif base == "Rem":
            if b == 0:
                raise Panic("remainder by zero")
            r = abs(a) % abs(b) * (1 if a >= 0 else -1)
        elif base == "BitAnd":
            r = a & b
        elif base == "BitOr":
            r = a | b
        elif base == "BitXor":
            r = a ^ b
        elif base == "Shl":
            r = a << (b & ((INT_BITS.get(ty, 64)) - 1))
        elif base == "Shr":
            r = a >> (b & ((INT_BITS.get(ty, 64)) - 1))
        else:
            raise Unknown("binop " + op)
        if op.endswith("WithOverflow"):
            ov = not in_range(r, ty) if ty else False
            return (wrap(r, ty) if ty else r, ov)
        return wrap(r, ty) if ty else r

    def call(self, t, env, body, depth):
        name = t[1]
        written = t[4] if len(t) > 4 else name
        if name in TRY_BRANCH:
            v = deref(self.ev(t[2][0], env, body, depth))
            if isinstance(v, Adt):
                if v.variant in ("Ok", "Some"):
                    return Adt("std::ops::ControlFlow", "Continue", v.fields)
                return Adt("std::ops::ControlFlow", "Break", (v,))
            raise Unknown("Try::branch of %r" % (v,))
        if name.startswith(FROM_RESIDUAL_PREFIX):
            v = deref(self.ev(t[2][0], env, body, depth))
            return v
        args = [self.ev(a, env, body, depth) for a in t[2]]
        # local function?
        lb = None
        for cand in (name, written):
            lb = self.facts.body(cand) if cand else None
            if lb is not None:
                break
        if lb is not None:
            return self.call_body(lb, args, depth + 1)
        for cand in (name, written):
            if cand in self.models:
                return self.models[cand](self, args, depth)
        raise Unknown("no model for callee %s" % name)

    def call_closure(self, clo, args, depth=0):
        clo = deref(clo)
        if not isinstance(clo, Closure):
            raise Unknown("calling a non-closure %r" % (clo,))
        b = self.facts.bodies.get(clo.body_id)
        if b is None:
            raise Unknown("closure body missing")
        return self.call_body(b, [Ref(clo)] + list(args), depth + 1)

    # -- partial evaluation: which paths are consistent with a class representative ----------
    def _assert_switches(self, body):
        """switch blocks whose one arm leads (through straight-line blocks) to an assertion-failure call"""
        cache = self.__dict__.setdefault("_asw", {})
        if body.id in cache:
            return cache[body.id]
        out = set()
        targets = set()
        for bb, t in body.calls():
            from mir import callee_names as _cn
            nm = _cn(t)[1] or _cn(t)[0] or ""
            if not nm.startswith("core::panicking"):
                continue
            is_assert = nm.endswith("assert_failed") or any(
                x[0] == "const" and isinstance(x[1], str) and x[1].startswith("assertion") for a_ in t["args"] for x in walk(body.term_of_operand(a_)))
            if is_assert:
                targets.add(bb)
        for tb in targets:
            front = {tb}
            for _ in range(5):
                prev = set(bi for bi in range(len(body.blocks)) if set(body.succs(bi)) & front and not body.blocks[bi]["cleanup"])
                sw = [bi for bi in prev if body.blocks[bi]["term"]["k"] == "switch"]
                if sw:
                    out |= set(sw)
                    break
                front = prev
        # the blocks that compute an asserted condition (straight-line predecessors of its test): an arithmetic
        # check inside them belongs to the stated invariant as well
        pre = set(out)
        for sw_ in list(out):
            x = sw_
            for _ in range(4):
                ps = [bi for bi in range(len(body.blocks)) if x in body.succs(bi) and not body.blocks[bi]["cleanup"]]
                if len(ps) != 1 or body.blocks[ps[0]]["term"]["k"] not in ("assert", "goto", "call") or len(body.succs(ps[0])) != 1:
                    break
                x = ps[0]
                pre.add(x)
        self.__dict__.setdefault("_aswpre", {})[body.id] = pre
        cache[body.id] = out
        return out

    def outcomes(self, body, args):
        """Evaluate the branch conditions and asserts of every path of `body` at the given
        argument values.  Conditions that depend on opaque values are 'maybe'.  Returns a list
        of dicts {path, definite, panic, env}: the paths not refuted at this representative."""
        env0 = {("p", i + 1): a for i, a in enumerate(args)}
        res = []
        asw = self._assert_switches(body)
        for p in self.summary(body):
            env = dict(env0)
            order = {bb: i for i, bb in enumerate(p.blocks)}
            items = []
            for c in p.conds:
                items.append((order.get(c[0], 0), 1, c))
            for e in p.events:
                if e["k"] == "assert":
                    items.append((order.get(e["bb"], 0), 0, e))
                elif e["k"] == "call" and e.get("callee") and e["callee"].startswith("core::panicking"):
                    items.append((order.get(e["bb"], 0), 0, e))
            items.sort(key=lambda x: (x[0], x[1]))
            definite = True
            refuted = False
            panic = None
            for _, kind, it in items:
                if kind == 1:
                    bb, term, vals, neg, dty = it
                    if bb in asw:
                        # the test of an assert!/debug_assert!: a stated invariant, possibly about state this evaluator
                        # does not update (values after a mutation) -- neither branch is refuted
                        definite = False
                        continue
                    try:
                        v = self.ev(term, env, body, 0)
                    except Unknown as u:
                        definite = False
                        self.trace.append(str(u))
                        continue
                    except Panic as e:
                        panic = e.what
                        break
                    if isinstance(v, bool):
                        v = int(v)
                    if (v in vals) == neg:
                        refuted = True
                        break
                else:
                    e = it
                    if e["k"] == "assert":
                        if e["kind"] in ("Misaligned", "NullPtr"):
                            continue
                        if e.get("bb") in self.__dict__.get("_aswpre", {}).get(body.id, ()):
                            continue
                        try:
                            c = self.ev(e["cond"], env, body, 0)
                        except Unknown:
                            continue
                        except Panic as pe:
                            panic = pe.what
                            break
                        if bool(c) != e["expected"]:
                            panic = "%s %s at %s:%s" % (e["kind"], e.get("op") or "", body.file, e["line"])
                            break
                    else:
                        # assert!/debug_assert! (a stated invariant) is told apart from panic!/todo!/unreachable!
                        is_assert = (e.get("callee") or "").endswith("assert_failed") or any(
                            x[0] == "const" and isinstance(x[1], str) and x[1].startswith("assertion") for a_ in (e.get("args") or []) for x in walk(a_))
                        panic = "explicit panic%s at %s:%s" % (" (assertion)" if is_assert else "", body.file, e["line"])
                        break
            if refuted:
                continue
            res.append({"path": p, "definite": definite, "panic": panic, "env": env})
        return res


class _Mismatch(Exception):
    pass


# pure std models -------------------------------------------------------------------------

def _range_contains(ev, args, depth):
    r = deref(args[0])
    x = deref(args[1])
    if isinstance(r, Adt) and len(r.fields) == 2:
        return r.fields[0] <= x < r.fields[1]
    raise Unknown("Range::contains on %r" % (r,))


def _range_incl_new(ev, args, depth):
    return Adt("std::ops::RangeInclusive", "RangeInclusive", (deref(args[0]), deref(args[1])))


def _range_incl_contains(ev, args, depth):
    r = deref(args[0])
    x = deref(args[1])
    if isinstance(r, Adt) and len(r.fields) >= 2:
        return r.fields[0] <= x <= r.fields[1]
    raise Unknown("RangeInclusive::contains on %r" % (r,))


def _min(ev, args, depth):
    return min(deref(args[0]), deref(args[1]))


def _max(ev, args, depth):
    return max(deref(args[0]), deref(args[1]))


def _clone(ev, args, depth):
    return deref(args[0])


def _clone_fwd(ev, args, depth):
    return deref(args[0])


def _is_some(ev, args, depth):
    v = deref(args[0])
    if isinstance(v, Adt):
        return v.variant == "Some"
    raise Unknown("is_some on %r" % (v,))


def _is_none(ev, args, depth):
    return not _is_some(ev, args, depth)


def _ref_add(ev, args, depth):
    a, b = deref(args[0]), deref(args[1])
    r = a + b
    if not in_range(r, "usize"):
        raise Panic("overflow in &usize + usize")
    return r


def _ref_sub(ev, args, depth):
    a, b = deref(args[0]), deref(args[1])
    r = a - b
    if not in_range(r, "usize"):
        raise Panic("overflow in &usize - usize")
    return r


class Iter:
    """A finite sequence standing for an iterator over class representatives."""
    def __init__(self, items):
        self.items = list(items)

    def __repr__(self):
        return "Iter%r" % (self.items,)


class MapVal:
    """A map given by representative (key, value) pairs."""
    def __init__(self, pairs):
        self.pairs = tuple(pairs)

    def __repr__(self):
        return "Map%r" % (self.pairs,)


class SeqVal:
    def __init__(self, items):
        self.items = tuple(items)

    def __repr__(self):
        return "Seq%r" % (self.items,)

    def __eq__(self, o):
        return isinstance(o, SeqVal) and self.items == o.items

    def __hash__(self):
        return hash(self.items)


def _iter(ev, args, depth):
    m = deref(args[0])
    if isinstance(m, MapVal):
        return Iter([(Ref(k), Ref(v)) for k, v in m.pairs])
    if isinstance(m, SeqVal):
        return Iter([Ref(x) for x in m.items])
    if isinstance(m, Iter):
        return m
    raise Unknown("iter over %r" % (m,))


def _into_iter(ev, args, depth):
    m = args[0]
    if isinstance(m, Ref):
        return _iter(ev, args, depth)
    if isinstance(m, MapVal):
        return Iter(list(m.pairs))
    if isinstance(m, SeqVal):
        return Iter(list(m.items))
    if isinstance(m, Iter):
        return m
    raise Unknown("into_iter over %r" % (m,))


def _values(ev, args, depth):
    m = deref(args[0])
    if isinstance(m, MapVal):
        return Iter([Ref(v) for k, v in m.pairs])
    raise Unknown("values over %r" % (m,))


def _keys(ev, args, depth):
    m = deref(args[0])
    if isinstance(m, MapVal):
        return Iter([Ref(k) for k, v in m.pairs])
    raise Unknown("keys over %r" % (m,))


def _it_map(ev, args, depth):
    it = deref(args[0])
    if not isinstance(it, Iter):
        raise Unknown("map over %r" % (it,))
    return Iter([ev.call_closure(args[1], [x], depth) for x in it.items])


def _it_filter(ev, args, depth):
    it = deref(args[0])
    if not isinstance(it, Iter):
        raise Unknown("filter over %r" % (it,))
    return Iter([x for x in it.items if ev.call_closure(args[1], [Ref(x)], depth)])


def _it_deref_elems(ev, args, depth):
    it = deref(args[0])
    if not isinstance(it, Iter):
        raise Unknown("cloned over %r" % (it,))
    return Iter([deref(x) for x in it.items])


def _it_any(ev, args, depth):
    it = deref(args[0])
    if not isinstance(it, Iter):
        raise Unknown("any over %r" % (it,))
    return any(bool(ev.call_closure(args[1], [x], depth)) for x in it.items)


def _it_all(ev, args, depth):
    it = deref(args[0])
    if not isinstance(it, Iter):
        raise Unknown("all over %r" % (it,))
    return all(bool(ev.call_closure(args[1], [x], depth)) for x in it.items)


def _it_count(ev, args, depth):
    it = deref(args[0])
    if not isinstance(it, Iter):
        raise Unknown("count over %r" % (it,))
    return len(it.items)


def _collect(ev, args, depth):
    it = deref(args[0])
    if not isinstance(it, Iter):
        raise Unknown("collect of %r" % (it,))
    items = it.items
    if items and all(isinstance(x, tuple) and len(x) == 2 for x in items):
        return MapVal(items)
    return SeqVal(items)


def _vec_deref(ev, args, depth):
    return deref(args[0])


def _checked(op, ty):
    def f(ev, args, depth):
        a, b = deref(args[0]), deref(args[1])
        r = {"add": a + b, "sub": a - b, "mul": a * b}[op]
        if in_range(r, ty):
            return Adt("std::option::Option", "Some", (r,))
        return Adt("std::option::Option", "None", ())
    return f


def _ok_or(ev, args, depth):
    v = deref(args[0])
    if isinstance(v, Adt) and v.variant == "Some":
        return Adt("std::result::Result", "Ok", v.fields)
    if isinstance(v, Adt) and v.variant == "None":
        return Adt("std::result::Result", "Err", (args[1],))
    raise Unknown("ok_or on %r" % (v,))


def _saturating_sub(ev, args, depth):
    a, b = deref(args[0]), deref(args[1])
    return max(a - b, 0)


def _wrapping(op, ty):
    def f(ev, args, depth):
        a, b = deref(args[0]), deref(args[1])
        return wrap({"add": a + b, "sub": a - b, "mul": a * b}[op], ty)
    return f


def _len(ev, args, depth):
    v = deref(args[0])
    if isinstance(v, SeqVal):
        return len(v.items)
    if isinstance(v, MapVal):
        return len(v.pairs)
    if isinstance(v, (tuple, bytes, str)):
        return len(v)
    if isinstance(v, dict) and "len" in v:
        return v["len"]
    raise Unknown("len of %r" % (v,))


def _is_empty(ev, args, depth):
    return _len(ev, args, depth) == 0


def _wrapping_op(op, ty):
    def f(ev, args, depth):
        a, b = deref(args[0]), deref(args[1])
        av = a.fields[0] if isinstance(a, Adt) else a
        bv = b.fields[0] if isinstance(b, Adt) else b
        r = wrap({"add": av + bv, "sub": av - bv, "mul": av * bv}[op], ty)
        return Adt("std::num::Wrapping", "Wrapping", (r,))
    return f


def _fn_call(ev, args, depth):
    """Fn::call(&f, (a, b, ..)) on a closure built in the caller (a generic helper taking `impl Fn`)"""
    tup = deref(args[1])
    if not isinstance(tup, tuple):
        raise Unknown("closure call with opaque arguments")
    f = deref(args[0])
    if isinstance(f, Closure):
        return ev.call_closure(f, list(tup), depth)
    raise Unknown("call of a non-closure %r" % (f,))


def _it_filter_map(ev, args, depth):
    it = deref(args[0])
    if not isinstance(it, Iter):
        raise Unknown("filter_map over %r" % (it,))
    out = []
    for x in it.items:
        r = deref(ev.call_closure(args[1], [x], depth))
        if isinstance(r, Adt) and r.variant == "Some":
            out.append(r.fields[0])
        elif isinstance(r, Adt) and r.variant == "None":
            continue
        else:
            raise Unknown("filter_map closure returned %r" % (r,))
    return Iter(out)


def _opt_map(ev, args, depth):
    o = deref(args[0])
    if isinstance(o, Adt) and o.variant == "Some":
        return Adt(o.ty, "Some", (ev.call_closure(args[1], [o.fields[0]], depth),))
    if isinstance(o, Adt) and o.variant == "None":
        return o
    raise Unknown("map over %r" % (o,))


def _bool_then(ev, args, depth):
    b = deref(args[0])
    if isinstance(b, bool):
        if b:
            return Adt("std::option::Option", "Some", (ev.call_closure(args[1], [], depth),))
        return Adt("std::option::Option", "None", ())
    raise Unknown("then on %r" % (b,))


def _bool_then_some(ev, args, depth):
    b = deref(args[0])
    if isinstance(b, bool):
        return Adt("std::option::Option", "Some", (args[1],)) if b else Adt("std::option::Option", "None", ())
    raise Unknown("then_some on %r" % (b,))


def _int_cmp(ev, args, depth):
    a, b = deref(args[0]), deref(args[1])
    if isinstance(a, int) and isinstance(b, int):
        return Adt("std::cmp::Ordering", "Less" if a < b else ("Equal" if a == b else "Greater"), ())
    raise Unknown("cmp on %r %r" % (a, b))


def _is_pow2(ev, args, depth):
    a = deref(args[0])
    if isinstance(a, int):
        return a > 0 and (a & (a - 1)) == 0
    raise Unknown("is_power_of_two on %r" % (a,))


def _overflowing(op, ty):
    def f(ev, args, depth):
        a, b = deref(args[0]), deref(args[1])
        if not (isinstance(a, int) and isinstance(b, int)):
            raise Unknown("overflowing_%s on %r %r" % (op, a, b))
        r = {"add": a + b, "sub": a - b, "mul": a * b}[op]
        bits = INT_BITS[ty]
        return (r % (1 << bits), not in_range(r, ty))
    return f


def _sized_get(ev, args, depth):
    """slice / Vec `get(i)` on a value of which only the length is known."""
    v, i = deref(args[0]), deref(args[1])
    if isinstance(v, dict) and "len" in v and isinstance(i, int):
        if i < v["len"]:
            return Adt("std::option::Option", "Some", (Ref(Adt("opaque", "elem")),))
        return Adt("std::option::Option", "None", ())
    if isinstance(v, SeqVal) and isinstance(i, int):
        if i < len(v.items):
            return Adt("std::option::Option", "Some", (Ref(v.items[i]),))
        return Adt("std::option::Option", "None", ())
    raise Unknown("get on %r" % (v,))


def _ord_pred(which):
    def f(ev, args, depth):
        v = deref(args[0])
        if isinstance(v, Adt) and v.ty_last() == "Ordering":
            return {"is_lt": v.variant == "Less", "is_le": v.variant != "Greater", "is_gt": v.variant == "Greater",
                    "is_ge": v.variant != "Less", "is_eq": v.variant == "Equal", "is_ne": v.variant != "Equal"}[which]
        raise Unknown(which + " on %r" % (v,))
    return f


def _opt_copied(ev, args, depth):
    v = deref(args[0])
    if isinstance(v, Adt) and v.variant == "Some":
        return Adt("std::option::Option", "Some", tuple(deref(x) for x in v.fields))
    if isinstance(v, Adt) and v.variant == "None":
        return v
    raise Unknown("copied on %r" % (v,))


def _ok_or_else(ev, args, depth):
    v = deref(args[0])
    if isinstance(v, Adt) and v.variant == "Some":
        return Adt("std::result::Result", "Ok", v.fields)
    if isinstance(v, Adt) and v.variant == "None":
        try:
            e = ev.call_closure(args[1], [], depth + 1)
        except (Unknown, Panic):
            e = Adt("opaque", "E")
        return Adt("std::result::Result", "Err", (e,))
    raise Unknown("ok_or_else on %r" % (v,))


def _res_map(ev, args, depth):
    v = deref(args[0])
    if isinstance(v, Adt) and v.variant == "Err":
        return v
    if isinstance(v, Adt) and v.variant == "Ok":
        try:
            r = ev.call_closure(args[1], list(v.fields), depth + 1)
        except (Unknown, Panic):
            r = Adt("opaque", "V")
        return Adt("std::result::Result", "Ok", (r,))
    raise Unknown("Result::map on %r" % (v,))


def _res_map_err(ev, args, depth):
    v = deref(args[0])
    if isinstance(v, Adt) and v.variant == "Ok":
        return v
    if isinstance(v, Adt) and v.variant == "Err":
        return Adt("std::result::Result", "Err", (Adt("opaque", "E"),))
    raise Unknown("Result::map_err on %r" % (v,))


def _slice_index(ev, args, depth):
    v, i = deref(args[0]), deref(args[1])
    if isinstance(v, SeqVal):
        v = v.items
    if not isinstance(v, (tuple, bytes, list)):
        raise Unknown("index of %r" % (type(v).__name__,))
    n = len(v)
    if isinstance(i, int) and not isinstance(i, bool):
        if i >= n:
            raise Panic("index out of bounds: the len is %d but the index is %d" % (n, i))
        return Ref(v[i])
    if isinstance(i, Adt):
        kind = i.ty_last()
        f = [deref(x) for x in i.fields]
        lo, hi = 0, n
        if kind == "Range" and len(f) == 2:
            lo, hi = f
        elif kind == "RangeFrom" and len(f) == 1:
            lo = f[0]
        elif kind == "RangeTo" and len(f) == 1:
            hi = f[0]
        elif kind == "RangeFull":
            pass
        elif kind == "RangeInclusive" and len(f) >= 2:
            lo, hi = f[0], f[1] + 1
        else:
            raise Unknown("index by %s" % kind)
        if not (isinstance(lo, int) and isinstance(hi, int)):
            raise Unknown("symbolic range")
        if lo > hi or hi > n:
            raise Panic("range %d..%d out of range for slice of length %d" % (lo, hi, n))
        return Ref(tuple(v[lo:hi]))
    raise Unknown("index by %r" % (i,))


def _variant_is(names):
    def f(ev, args, depth):
        v = deref(args[0])
        if isinstance(v, Adt):
            return v.variant in names
        raise Unknown("variant test on %r" % (v,))
    return f


def _from_bytes(order, ty):
    def f(ev, args, depth):
        a = deref(args[0])
        if isinstance(a, SeqVal):
            a = a.items
        if not isinstance(a, (tuple, list)) or not all(isinstance(x, int) and not isinstance(x, bool) for x in a):
            raise Unknown("from_%s_bytes of a non-constant array" % order)
        bs = list(a) if order == "le" else list(reversed(a))
        v = 0
        for i, x in enumerate(bs):
            v |= (x & 0xFF) << (8 * i)
        return wrap(v, ty)
    return f


def _saturating(op, ty):
    def f(ev, args, depth):
        a, b = deref(args[0]), deref(args[1])
        if not isinstance(a, int) or not isinstance(b, int):
            raise Unknown("saturating_%s of non-integers" % op)
        bits = {"u8": 8, "u16": 16, "u32": 32, "u64": 64, "usize": 64}[ty]
        v = a + b if op == "add" else (a * b if op == "mul" else a - b)
        return max(0, min(v, (1 << bits) - 1))
    return f


STD_MODELS = {
    "core::slice::index::<impl std::ops::Index<I> for [T]>::index": _slice_index,
    "std::result::Result::<T, E>::is_ok": _variant_is(("Ok",)),
    "std::result::Result::<T, E>::is_err": _variant_is(("Err",)),
    "std::option::Option::<&T>::copied": _opt_copied,
    "std::option::Option::<&T>::cloned": _opt_copied,
    "std::option::Option::<&mut T>::copied": _opt_copied,
    "std::option::Option::<T>::ok_or_else": _ok_or_else,
    "std::result::Result::<T, E>::map": _res_map,
    "std::result::Result::<T, E>::map_err": _res_map_err,
    "std::cmp::Ord::cmp": _int_cmp,
    "core::cmp::impls::<impl std::cmp::Ord for usize>::cmp": _int_cmp,
    "core::cmp::impls::<impl std::cmp::Ord for u32>::cmp": _int_cmp,
    "core::cmp::impls::<impl std::cmp::Ord for u64>::cmp": _int_cmp,
    "core::num::<impl usize>::is_power_of_two": _is_pow2,
    "core::num::<impl usize>::overflowing_add": _overflowing("add", "usize"),
    "core::num::<impl usize>::overflowing_sub": _overflowing("sub", "usize"),
    "core::num::<impl usize>::overflowing_mul": _overflowing("mul", "usize"),
    "core::slice::<impl [T]>::get": _sized_get,
    "core::slice::<impl [T]>::get_mut": _sized_get,
    "std::cmp::Ordering::is_lt": _ord_pred("is_lt"), "std::cmp::Ordering::is_le": _ord_pred("is_le"),
    "std::cmp::Ordering::is_gt": _ord_pred("is_gt"), "std::cmp::Ordering::is_ge": _ord_pred("is_ge"),
    "std::cmp::Ordering::is_eq": _ord_pred("is_eq"), "std::cmp::Ordering::is_ne": _ord_pred("is_ne"),
    "std::ops::Fn::call": _fn_call,
    "std::ops::FnMut::call_mut": _fn_call,
    "std::ops::FnOnce::call_once": _fn_call,
    "std::iter::Iterator::filter_map": _it_filter_map,
    "std::option::Option::<T>::map": _opt_map,
    "core::bool::<impl bool>::then": _bool_then,
    "core::bool::<impl bool>::then_some": _bool_then_some,
    "<std::num::Wrapping<u8> as std::ops::Sub>::sub": _wrapping_op("sub", "u8"),
    "<std::num::Wrapping<u8> as std::ops::Add>::add": _wrapping_op("add", "u8"),
    "<std::num::Wrapping<i32> as std::ops::Sub>::sub": _wrapping_op("sub", "i32"),
    "<std::num::Wrapping<i32> as std::ops::Add>::add": _wrapping_op("add", "i32"),
    "std::vec::Vec::<T, A>::is_empty": _is_empty,
    "core::slice::<impl [T]>::is_empty": _is_empty,
    "std::collections::HashMap::<K, V, S, A>::is_empty": _is_empty,
    "core::num::<impl usize>::checked_add": _checked("add", "usize"),
    "core::num::<impl usize>::checked_sub": _checked("sub", "usize"),
    "core::num::<impl usize>::checked_mul": _checked("mul", "usize"),
    "core::num::<impl u32>::checked_add": _checked("add", "u32"),
    "core::num::<impl u32>::checked_sub": _checked("sub", "u32"),
    "core::num::<impl u32>::checked_mul": _checked("mul", "u32"),
    "core::num::<impl usize>::saturating_sub": _saturating_sub,
    "core::num::<impl usize>::saturating_mul": _saturating("mul", "usize"),
    "core::num::<impl usize>::saturating_add": _saturating("add", "usize"),
    "core::num::<impl u32>::saturating_mul": _saturating("mul", "u32"),
    "core::num::<impl u32>::saturating_add": _saturating("add", "u32"),
    "core::num::<impl u32>::saturating_sub": _saturating("sub", "u32"),
    "core::num::<impl u64>::saturating_mul": _saturating("mul", "u64"),
    "core::num::<impl u32>::from_le_bytes": _from_bytes("le", "u32"),
    "core::num::<impl u32>::from_be_bytes": _from_bytes("be", "u32"),
    "core::num::<impl u16>::from_le_bytes": _from_bytes("le", "u16"),
    "core::num::<impl u16>::from_be_bytes": _from_bytes("be", "u16"),
    "core::num::<impl u64>::from_le_bytes": _from_bytes("le", "u64"),
    "core::num::<impl usize>::from_le_bytes": _from_bytes("le", "usize"),
    "core::num::<impl usize>::wrapping_add": _wrapping("add", "usize"),
    "core::num::<impl usize>::wrapping_sub": _wrapping("sub", "usize"),
    "core::num::<impl u8>::wrapping_add": _wrapping("add", "u8"),
    "core::num::<impl u8>::wrapping_sub": _wrapping("sub", "u8"),
    "std::option::Option::<T>::ok_or": _ok_or,
    "std::vec::Vec::<T, A>::len": _len,
    "core::slice::<impl [T]>::len": _len,
    "std::collections::HashMap::<K, V, S, A>::len": _len,
    "indexmap::IndexMap::<K, V, S>::len": _len,
    "std::collections::HashMap::<K, V, S, A>::iter": _iter,
    "indexmap::IndexMap::<K, V, S>::iter": _iter,
    "core::slice::<impl [T]>::iter": _iter,
    "std::collections::HashMap::<K, V, S, A>::values": _values,
    "std::collections::HashMap::<K, V, S, A>::keys": _keys,
    "<&'a std::collections::HashMap<K, V, S, A> as std::iter::IntoIterator>::into_iter": _into_iter,
    "<&'a std::vec::Vec<T, A> as std::iter::IntoIterator>::into_iter": _into_iter,
    "<std::collections::HashMap<K, V, S, A> as std::iter::IntoIterator>::into_iter": _into_iter,
    "<std::vec::Vec<T, A> as std::iter::IntoIterator>::into_iter": _into_iter,
    "<I as std::iter::IntoIterator>::into_iter": _into_iter,
    "std::iter::Iterator::map": _it_map,
    "std::iter::Iterator::filter": _it_filter,
    "std::iter::Iterator::cloned": _it_deref_elems,
    "std::iter::Iterator::copied": _it_deref_elems,
    "std::iter::Iterator::collect": _collect,
    "std::iter::Iterator::any": _it_any,
    "<std::slice::Iter<'a, T> as std::iter::Iterator>::any": _it_any,
    "std::iter::Iterator::all": _it_all,
    "<std::slice::Iter<'a, T> as std::iter::Iterator>::all": _it_all,
    "std::iter::Iterator::count": _it_count,
    "<std::vec::Vec<T, A> as std::ops::Deref>::deref": _vec_deref,
    "<std::collections::HashMap<K, V, S, A> as std::clone::Clone>::clone": _clone_fwd,
    "<std::vec::Vec<T, A> as std::clone::Clone>::clone": _clone_fwd,
    "<std::string::String as std::clone::Clone>::clone": _clone_fwd,
    "std::ops::Range::<Idx>::contains": _range_contains,
    "std::ops::RangeInclusive::<Idx>::new": _range_incl_new,
    "std::ops::RangeInclusive::<Idx>::contains": _range_incl_contains,
    "std::cmp::min": _min,
    "std::cmp::max": _max,
    "std::cmp::Ord::min": _min,
    "std::cmp::Ord::max": _max,
    "std::clone::Clone::clone": _clone,
    "<T as std::borrow::ToOwned>::to_owned": _clone,
    "std::option::Option::<T>::is_some": _is_some,
    "std::option::Option::<T>::is_none": _is_none,
    "<&usize as std::ops::Add<usize>>::add": _ref_add,
    "<&usize as std::ops::Sub<usize>>::sub": _ref_sub,
}
