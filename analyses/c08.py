"""C08 — LZ10 compression emits a valid stream (format constants and token layout)."""
from mir import fmt, walk, strip_refs, norm, callee_names
from flow import PathLimit, cond_truth
from lz import Encoder, bitslice, canon, fmt_byte, NotBits, prune

EXPLANATION = ("Header bytes, token bit layout (bit-slice domain), flag-bit position, group flush conditions, "
               "read-position advance and the caps that make length and displacement fit their fields, all read off "
               "the MIR of LZ10CompressionFormat::compress. That the expansion equals the input is a value-level "
               "fact of the match search and is not decided.")
ASSUMPTIONS = ["the match search returns true matches (value-level)", "nintendo_lz expands conforming streams correctly"]

FN = "mila::lz10::LZ10CompressionFormat::compress"


def loop_vars(enc):
    """(read var, group counter var, group size) from the loop conditions."""
    read = cnt = None
    gsize = None
    for p in enc.paths:
        for (bb, term, vals, neg, dty) in p.conds:
            if term[0] == "bin" and term[1] == "Lt" and term[2][0] == "var" and enc.classify(term[3]) == "n":
                read = term[2]
            if term[0] == "bin" and term[1] == "Eq" and term[3][0] == "const":
                x = term[2]
                if x[0] == "field" and x[1][0] == "bin" and x[1][1].startswith("Add") and x[1][3] == ("const", 1, x[1][3][2]) and x[1][2][0] == "var":
                    x = x[1][2]     # tested right after the increment: same group size
                if x[0] == "var":
                    cnt = x
                    gsize = term[3][1]
    return read, cnt, gsize


def strip_casts_(t):
    while t[0] == "cast":
        t = t[1]
    return t


def check_header(rep, R, enc, expect_prefix, where):
    hb = enc.header_bytes()
    want = list(expect_prefix) + [("n", 0), ("n", 8), ("n", 16)]
    # expect_prefix entries: ("const", v) or ("any",)
    if getattr(enc, "header_unknown", None):
        rep.inconc(R, "header: %s" % enc.header_unknown)
        return
    if len(hb) < len(want):
        if not hb or getattr(enc, "header_unknown", None):
            rep.inconc(R, "%s: header bytes not recognised (%s)" % (enc.body.name.rsplit("::", 2)[-2], getattr(enc, "header_unknown", None) or "none found"))
            return
        rep.violation(R, enc.body.name, "header-length", "header has %d byte(s), specified %d" % (len(hb), len(want)), where)
        return
    for i, w in enumerate(want):
        t = hb[i]
        try:
            b = canon(*bitslice(t, enc.classify))
        except NotBits as e:
            rep.inconc(R, "header byte %d: %s" % (i, e))
            continue
        if w[0] == "const":
            good = b == ([], w[1])
            desc = hex(w[1])
        elif w[0] == "any":
            rep.ok(R, {"header_byte": i, "value": fmt_byte(b)})
            continue
        else:
            good = b == ([(w[0], 0, w[1], 8, 0)], 0)
            desc = "bits [%d,%d) of the input length" % (w[1], w[1] + 8)
        if good:
            rep.ok(R, {"header_byte": i, "value": fmt_byte(b)})
        else:
            rep.violation(R, enc.body.name, "header-byte-%d" % i, "header byte %d is %s, specified %s" % (i, fmt_byte(b), desc), where)


def group_typestate(rep, R4, enc, cnt, gsize, where):
    """Graph rules on the group buffer (need only the token counter and the group size)."""
    def src_root(t):
        while True:
            t = strip_refs(t)
            if t[0] in ("index", "field", "cast", "subslice"):
                t = t[1]
            elif t[0] == "call" and t[2] and t[1].rsplit("::", 1)[-1] in ("index", "index_mut", "deref", "deref_mut", "as_slice", "as_mut_slice", "borrow"):
                t = t[2][0]
            else:
                return norm(t)

    def raw_root(bb, i, term):
        """identity of the buffer behind argument i of the call ending block bb: the named local it borrows
        (two buffers that are both `Vec::new()` are different buffers), else the term"""
        body_ = enc.body
        tt = body_.blocks[bb]["term"]
        if tt["k"] != "call" or i >= len(tt["args"]):
            return src_root(term)
        op = tt["args"][i]
        pl = op.get("m") or op.get("c")
        for _ in range(8):
            if pl is None:
                break
            l = pl["l"]
            if body_.local_name(l) or l <= body_.argc:
                return ("buf", l)
            ds = body_.defs().get(l, [])
            if len(ds) != 1 or ds[0][2] != "assign":
                break
            rv = ds[0][3]["rv"]
            if rv["k"] == "ref":
                pl = rv["place"]
            elif rv["k"] in ("use", "cast"):
                pl = rv["a"].get("m") or rv["a"].get("c")
            else:
                break
        else:
            pass
        if pl is None:
            return src_root(term)
        # a call result (`&token[..n]` -> Index::index(&token, ..)): follow the first argument of handle calls
        ds = enc.body.defs().get(pl["l"], [])
        if len(ds) == 1 and ds[0][2] == "call":
            t2 = ds[0][3]
            nm2 = (callee_names(t2)[1] or callee_names(t2)[0] or "").rsplit("::", 1)[-1]
            if nm2 in ("index", "index_mut", "deref", "deref_mut", "as_slice", "as_mut_slice", "borrow") and t2["args"]:
                return raw_root(ds[0][0], 0, term)
        return src_root(term)

    def ext_events(p):
        return [e for e in p.events if e["k"] == "call" and e["callee"] and e["callee"].rsplit("::", 1)[-1] in ("extend_from_slice", "append", "extend") and len(e["args"]) > 1]
    in_loop = set()
    for blks in enc.body.loops().values():
        in_loop |= set(blks)
    group_roots = set(raw_root(e["bb"], 1, e["args"][1]) for p in enc.paths if p.end == "loop" for e in ext_events(p) if e["bb"] in in_loop)
    # an append *into* a buffer that is itself appended somewhere else is a token going into the group buffer
    # (`group.extend_from_slice(&token[..n])`), not a flush: its source is not a group root
    into_group = set(raw_root(e["bb"], 1, e["args"][1]) for p in enc.paths for e in ext_events(p) if raw_root(e["bb"], 0, e["args"][0]) in group_roots)
    if group_roots - into_group:
        group_roots -= into_group

    def flushes(p):
        return [e for e in ext_events(p) if not group_roots or raw_root(e["bb"], 1, e["args"][1]) in group_roots]
    # flush / reset pairing on the graph (across iterations): once a group has been copied to the output, the token
    # counter must be reset before the next copy, or the same group is written twice
    body = enc.body
    cl = cnt[1] if cnt[0] in ("var", "local") else None
    if cl is not None and group_roots:
        fl_blocks = set(e_["bb"] for p_ in enc.paths for e_ in flushes(p_))
        resets = set()
        for bi_, si_, st_ in body.stmts():
            if st_["k"] == "assign" and not st_["lhs"]["p"] and st_["lhs"]["l"] == cl and st_["rv"]["k"] == "use" and "k" in st_["rv"]["a"]:
                resets.add(bi_)
        twice = None
        from flow import dom_guards as _dg, cond_truth as _ct

        def known_at(f_):
            """value of the counter established by the guards of the flush block (`count == 8`), if any"""
            for (a_, s_, c_) in _dg(body, f_):
                ct_ = _ct(c_)
                if ct_ and ct_[0][0] == "bin" and ct_[0][1] in ("Eq", "Ne") and ct_[0][3][0] == "const" and strip_refs(ct_[0][2])[:2] == ("var", cl):
                    if (ct_[0][1] == "Eq") == ct_[1]:
                        return ct_[0][3][1]
            return None

        def writes_counter(x_):
            return any(st_["k"] == "assign" and not st_["lhs"]["p"] and st_["lhs"]["l"] == cl for st_ in body.blocks[x_]["stmts"])

        for f_ in sorted(fl_blocks):
            seen_, st2 = set(), [(s_, known_at(f_)) for s_ in body.succs(f_)]
            while st2:
                x_, kv = st2.pop()
                if (x_, kv) in seen_:
                    continue
                seen_.add((x_, kv))
                if x_ in fl_blocks:
                    twice = (f_, x_)
                    break
                if x_ in resets:
                    continue
                if writes_counter(x_):
                    kv = None
                tt_ = body.blocks[x_]["term"]
                nxt_ = list(body.succs(x_))
                if kv is not None and tt_["k"] == "switch":
                    d_ = body.term_of_operand(tt_["d"])
                    if d_[0] == "bin" and d_[1] in ("Eq", "Ne", "Lt", "Le", "Gt", "Ge") and d_[3][0] == "const" and strip_refs(d_[2])[:2] == ("var", cl):
                        k_ = d_[3][1]
                        val_ = {"Eq": kv == k_, "Ne": kv != k_, "Lt": kv < k_, "Le": kv <= k_, "Gt": kv > k_, "Ge": kv >= k_}[d_[1]]
                        tk_ = tt_["otherwise"]
                        for v_, b_ in tt_["targets"]:
                            if v_ == int(val_):
                                tk_ = b_
                        nxt_ = [tk_]
                st2.extend((n_, kv) for n_ in nxt_)
            if twice:
                break
        if twice:
            rep.violation(R4, enc.body.name, "flush-twice", "a group copied to the output at line %s can be copied again at line %s without the token counter being reset in between: the group's bytes are written twice" % (
                body.blocks[twice[0]]["term"].get("line"), body.blocks[twice[1]]["term"].get("line")), where)
        elif fl_blocks and resets:
            rep.ok(R4, {"flush_reset": "every flush is followed by a counter reset before the next flush"})
        # group capacity: between two increments of the token counter the "group full?" test must be passed, or a
        # ninth token can be stored under the same flag byte
        incs = set()
        for bi_, si_, st_ in body.stmts():
            if st_["k"] == "assign" and not st_["lhs"]["p"] and st_["lhs"]["l"] == cl:
                tv = body.term_of_rvalue(st_["rv"])
                if any(x[0] == "bin" and x[1].startswith("Add") for x in walk(tv)) and any(x[0] == "var" and x[1] == cl for x in walk(tv)):
                    incs.add(bi_)
        tests = set()
        for bi_, blk_ in enumerate(body.blocks):
            tt_ = blk_["term"]
            if tt_["k"] == "switch":
                d_ = body.term_of_operand(tt_["d"])
                if d_[0] == "bin" and d_[1] in ("Eq", "Ne", "Ge", "Gt", "Lt", "Le") and d_[3][0] == "const" and d_[3][1] in (gsize, gsize - 1) and strip_refs(d_[2])[:2] == ("var", cl):
                    tests.add(bi_)
        over = None
        if incs and tests:
            for i_ in sorted(incs):
                seen_, st2 = set(), list(body.succs(i_))
                while st2:
                    x_ = st2.pop()
                    if x_ in seen_ or x_ in tests or x_ in resets:
                        continue
                    seen_.add(x_)
                    if x_ in incs:
                        over = (i_, x_)
                        break
                    st2.extend(body.succs(x_))
                if over:
                    break
            if over:
                l1 = [s_["line"] for s_ in body.blocks[over[0]]["stmts"] if s_["k"] == "assign" and s_["lhs"]["l"] == cl][:1]
                l2 = [s_["line"] for s_ in body.blocks[over[1]]["stmts"] if s_["k"] == "assign" and s_["lhs"]["l"] == cl][:1]
                rep.violation(R4, enc.body.name, "group-overfull", "after the token counted at line %s another token can be counted at line %s without the group-full test in between: a group can receive more than %d tokens under one flag byte" % (
                    (l1 or ["?"])[0], (l2 or ["?"])[0], gsize), where)
            else:
                rep.ok(R4, {"group_capacity": "the group-full test lies between any two token counts"})


def stray_flag_rule(rep, R4, body, where):
    """In-place group framing (`flag_index = out.len(); out.push(0)` and `out[flag_index] |= bit` later): a flag byte
    pushed into the output must be followed by at least one token on every way out of the function.  A push that sits
    after the token emission ("group full, open the next one") is followed by none when the input ends right there:
    one stray byte after the last group."""
    # the output vector: the one whose length is saved in a local right before a constant-zero byte is pushed to it
    def vec_local(op):
        pl = op.get("m") or op.get("c")
        for _ in range(6):
            if pl is None:
                return None
            if pl["p"] not in ([], ["deref"]):
                return None
            l = pl["l"]
            if body.local_name(l) or l <= body.argc:
                return l
            ds = body.defs().get(l, [])
            if len(ds) != 1 or ds[0][2] != "assign":
                return None
            rv = ds[0][3]["rv"]
            pl = rv["place"] if rv["k"] == "ref" else (rv["a"].get("m") or rv["a"].get("c") if rv["k"] in ("use", "cast") else None)
        return None
    pushes = []      # (block, vec local, is constant zero)
    for bb, t in body.calls():
        nm = callee_names(t)[1] or ""
        if nm.startswith("std::vec::Vec") and nm.endswith("::push") and len(t["args"]) == 2:
            v = vec_local(t["args"][0])
            val = body.term_of_operand(t["args"][1])
            pushes.append((bb, v, val[0] == "const" and val[1] == 0))
        elif nm.startswith("std::vec::Vec") and nm.rsplit("::", 1)[-1] in ("extend_from_slice", "extend") and len(t["args"]) == 2:
            pushes.append((bb, vec_local(t["args"][0]), False))
    # index-saving: `idx = len(vec)` named local, used later as `vec[idx] |= ..`
    saved = set()
    for bb, t in body.calls():
        nm = callee_names(t)[1] or ""
        if nm.endswith("::len") and "Vec" in nm and t["args"]:
            v = vec_local(t["args"][0])
            d = t["dest"]["l"]
            # the length flows into a named local
            for bi, si, st in body.stmts():
                if st["k"] == "assign" and not st["lhs"]["p"] and body.local_name(st["lhs"]["l"]) and st["rv"]["k"] in ("use", "cast") and (st["rv"]["a"].get("m") or st["rv"]["a"].get("c") or {}).get("l") == d:
                    saved.add(v)
            if body.local_name(d):
                saved.add(v)
    saved.discard(None)
    if not saved:
        return
    loops = body.loops()
    in_loop = set()
    for blks in loops.values():
        in_loop |= set(blks)
    flag_pushes = [(bb, v) for bb, v, z in pushes if z and v in saved and bb in in_loop]
    if not flag_pushes:
        return
    token_blocks = {}
    for bb, v, z in pushes:
        if not z:
            token_blocks.setdefault(v, set()).add(bb)
    shrink = set(bb for bb, t in body.calls() if (callee_names(t)[1] or "").startswith("std::vec::Vec") and (callee_names(t)[1] or "").rsplit("::", 1)[-1] in ("pop", "truncate", "set_len", "drain", "remove"))
    def const_assigns(x):
        out = {}
        for st in body.blocks[x]["stmts"]:
            if st["k"] == "assign" and not st["lhs"]["p"]:
                k = st["rv"]["a"].get("k") if st["rv"]["k"] == "use" else None
                if k and k.get("val", {}).get("kind") == "int":
                    out[st["lhs"]["l"]] = k["val"]["v"]
                else:
                    out[st["lhs"]["l"]] = None
        tt = body.blocks[x]["term"]
        if tt["k"] == "call" and not tt["dest"]["p"]:
            out[tt["dest"]["l"]] = None
        return out

    def resolve_local(l):
        """a comparison temp `_t = copy counter`: the named local behind it"""
        for _ in range(4):
            ds = body.defs().get(l, [])
            if body.local_name(l) or len(ds) != 1 or ds[0][2] != "assign" or ds[0][3]["rv"]["k"] not in ("use", "cast"):
                return l
            pl = ds[0][3]["rv"]["a"].get("m") or ds[0][3]["rv"]["a"].get("c")
            if pl is None or pl["p"]:
                return l
            l = pl["l"]
        return l
    for fb, v in flag_pushes:
        toks = token_blocks.get(v, set())
        # values known right after the push (`buffered = 0` next to it), carried along and used to decide the
        # branches that test them: the counter is 0 at the loop exit reached from here
        kv0 = {k: val for k, val in const_assigns(fb).items() if val is not None}
        seen, todo = set(), [(s_, tuple(sorted(kv0.items()))) for s_ in body.succs(fb)]
        stray = False
        undone = False
        while todo:
            x, kvt = todo.pop()
            if (x, kvt) in seen or body.blocks[x]["cleanup"]:
                continue
            seen.add((x, kvt))
            if x in toks:
                continue
            if x in shrink:
                undone = True
                continue
            tt = body.blocks[x]["term"]
            if tt["k"] == "ret":
                stray = True
                continue
            kv = dict(kvt)
            for l_, val_ in const_assigns(x).items():
                if val_ is None:
                    kv.pop(l_, None)
                else:
                    kv[l_] = val_
            nxt = list(body.succs(x))
            if tt["k"] == "switch":
                d_ = body.term_of_operand(tt["d"])
                val = None
                dl = tt["d"].get("m") or tt["d"].get("c")
                # the switch operand is a temp holding `counter OP const`
                for st in body.blocks[x]["stmts"]:
                    if st["k"] == "assign" and dl is not None and st["lhs"]["l"] == dl["l"] and st["rv"]["k"] == "bin":
                        a_ = st["rv"]["a"].get("m") or st["rv"]["a"].get("c")
                        b_ = st["rv"]["b"].get("k")
                        if a_ is not None and not a_["p"] and b_ and b_.get("val", {}).get("kind") == "int":
                            al = resolve_local(a_["l"])
                            if al in kv:
                                k_ = b_["val"]["v"]
                                val = {"Eq": kv[al] == k_, "Ne": kv[al] != k_, "Lt": kv[al] < k_, "Le": kv[al] <= k_, "Gt": kv[al] > k_, "Ge": kv[al] >= k_}.get(st["rv"]["op"])
                if val is not None:
                    tk = tt["otherwise"]
                    for v_, b2 in tt["targets"]:
                        if v_ == int(val):
                            tk = b2
                    nxt = [tk]
            kvt2 = tuple(sorted(kv.items()))
            todo.extend((n_, kvt2) for n_ in nxt)
        line = body.blocks[fb]["term"].get("line")
        if stray:
            rep.violation(R4, body.name, "stray-flag", "the flag byte pushed at line %s opens a new group after the tokens of the old one; when the input ends there the function returns with that byte in the output and no token under it: one stray byte after the last group" % line, where)
        elif undone:
            rep.inconc(R4, "a flag byte pushed at line %s can be followed by the end of the input and is then taken back (pop / truncate); not checked further" % line)
        else:
            rep.ok(R4, {"in_place_flag": "every flag byte pushed at line %s is followed by a token on all ways out" % line})


def token_checks(rep, R2, R4, enc, forms, where, flag_shift=7):
    stray_flag_rule(rep, R4, enc.body, where)
    if enc.search is not None and not rep.pid == "C10":
        # (C10 runs this rule itself under R10.4)
        from c10 import match_kept_rule
        before = len(rep.violations)
        sub_ok = rep.rules[R4]["ok"]
        match_kept_rule(rep, R4, enc, where)
        if len(rep.violations) == before:
            # keep instance counts as they were: the rule's own ok line is C10's
            rep.rules[R4]["instances"] -= rep.rules[R4]["ok"] - sub_ok
            rep.rules[R4]["ok"] = sub_ok
    """forms: list of (class predicate on recorded length conds, [spec bytes]) for the reference branch.
    Returns the set of literal thresholds seen."""
    read, cnt, gsize = loop_vars(enc)
    thresholds = set()
    if read is None or cnt is None or gsize is None:
        rep.inconc(R2, "%s: read position / token counter / group size of the main loop not recognised (%s, %s, %s)" % (
            enc.body.name.rsplit("::", 2)[-2], fmt(read)[:20] if read else None, fmt(cnt)[:20] if cnt else None, gsize))
        if cnt is not None and gsize is not None:
            group_typestate(rep, R4, enc, cnt, gsize, where)
        return thresholds
    unknown_emission = None
    seen_forms = {}
    lit_ok = None
    adv = {"lit": set(), "ref": set(), "cnt": set()}
    for p in enc.loop_paths():
        classes = enc.branch_of(p)
        is_lit = None
        for (op, c, truth) in classes:
            if op == "Lt":
                thresholds.add(c)
                is_lit = truth
        if is_lit is None:
            continue
        slots = enc.emissions(p)
        if any(s[0][0] == "unknown" for s in slots) or getattr(enc, "emission_unknown", None):
            unknown_emission = getattr(enc, "emission_unknown", None) or "a byte is stored at an index that is not recognised"
        data = [s for s in slots if not (len(s) > 2 and s[2] == "merge-into-existing")]
        if not is_lit and not data:
            unknown_emission = unknown_emission or "the bytes of a reference token were not found"
        flags = [s for s in slots if len(s) > 2 and s[2] == "merge-into-existing"]
        env = p.env or {}
        nread = env.get(read[1]) if read else None
        ncnt = env.get(cnt[1]) if cnt else None
        if ncnt is not None:
            adv["cnt"].add(fmt(norm(ncnt)))
        if is_lit:
            okl = len(data) == 1 and not flags
            if okl:
                v = strip_refs(data[0][1])
                okl = v[0] == "index" and strip_refs(v[1])[0] == "param" and v[2] == read
            lit_ok = okl if lit_ok is None else (lit_ok and okl)
            if nread is not None:
                adv["lit"].add(fmt(norm(nread)))
        else:
            if nread is not None:
                adv["ref"].add(fmt(norm(nread)))
            # flag bit
            for f in flags:
                if not (f[1][0] == "bin" and len(f[1]) > 3):
                    seen_forms["flag"] = "flag byte is overwritten with %s after the token was recorded" % fmt(f[1])[:40]
                    continue
                x = f[1][3]
                while x[0] == "cast":
                    x = x[1]
                good = False
                if x[0] == "bin" and x[1] == "Shr" and x[2][0] == "const" and x[2][1] == (1 << flag_shift) and (strip_casts_(x[3]) == cnt or strip_casts_(x[3])[:2] == ("const", 0)):
                    good = True      # 0x80 >> k  ==  1 << (7 - k)
                if x[0] == "bin" and x[1] == "Shl" and x[2][0] == "const" and x[2][1] == 1:
                    from binser import affine as _aff2
                    a_sh = _aff2(x[3], None)
                    if a_sh is not None and a_sh[1] == flag_shift and len(a_sh[0]) == 1 and list(a_sh[0].values()) == [-1] and norm(strip_casts_(list(a_sh[0])[0])) == norm(strip_casts_(cnt)):
                        good = True      # (8 - 1) - k and the like
                    if a_sh is not None and not a_sh[0] and a_sh[1] == flag_shift:
                        good = True      # ... on a path where the counter is known to be 0
                    sh = x[3]
                    if sh[0] == "field":
                        sh = ("bin", sh[1][1].replace("WithOverflow", ""), sh[1][2], sh[1][3])
                    if sh[0] == "bin" and sh[1] == "Sub" and sh[2][0] == "const" and sh[2][1] == flag_shift and (strip_casts_(sh[3]) == cnt or strip_casts_(sh[3])[:2] == ("const", 0)):
                        good = True
                if good:
                    seen_forms.setdefault("flag", True)
                else:
                    seen_forms["flag"] = "flag byte receives %s, specified 1 << (%d - token index)" % (fmt(f[1][3])[:60], flag_shift)
            if not flags:
                seen_forms["flag"] = "a reference sets no flag bit"
            # which form
            key = tuple(sorted((op, c, truth) for (op, c, truth) in classes if op != "Lt"))
            caps = enc.caps() or {}
            mx = {"len": (3, caps.get("L")), "disp": (1, caps.get("W"))}
            try:
                got = []
                for s in data:
                    pl, c0 = bitslice(s[1], enc.classify)
                    got.append(canon(prune(pl, mx), c0))
            except NotBits as e:
                rep.inconc(R2, "token bytes: %s" % e)
                continue
            seen_forms[key] = got
    if not thresholds or not (adv["lit"] or adv["ref"]):
        # no trip round the main loop could be told apart as literal or reference step: nothing below is a fact
        rep.inconc(R2, "%s: the literal / reference decision of the main loop was not recognised" % enc.body.name.rsplit("::", 2)[-2])
        return thresholds
    if unknown_emission:
        rep.inconc(R2, "%s: token emission not recognised: %s" % (enc.body.name.rsplit("::", 2)[-2], unknown_emission))
        # what does not depend on how the bytes are stored: one literal step consumes one input byte per token it counts
        lit_adv = set()
        for p in enc.loop_paths():
            cls_ = enc.branch_of(p)
            if not any(op == "Lt" and truth for (op, c, truth) in cls_):
                continue
            env = p.env or {}
            nr, nc = env.get(read[1]), env.get(cnt[1])
            if nr is None or nc is None:
                continue
            from binser import affine as _aff
            ar, ac = _aff(nr, None), _aff(nc, None)
            if ar is None or ac is None:
                continue
            dr = {k: v for k, v in ar[0].items() if norm(k) != norm(read)}
            dc = {k: v for k, v in ac[0].items() if norm(k) != norm(cnt)}
            if (dr, ar[1]) != (dc, ac[1]) and ac[1] == 1 and not dc:
                lit_adv.add(fmt(norm(nr))[:70])
        if lit_adv:
            rep.violation(R4, enc.body.name, "advance-literal", "a literal step counts one token (one flag bit) but moves the read position to %s: more than one input byte can go under a single literal flag" % sorted(lit_adv)[0], where)
        return thresholds
    for name, pred, spec in forms:
        hits = [(k, v) for k, v in seen_forms.items() if k != "flag" and pred(k)]
        if not hits:
            rep.violation(R2, enc.body.name, "form-missing:" + name, "no branch emits the %s form" % name, where)
            continue
        for k, got in hits:
            caps = enc.caps() or {}
            mx = {"len": (3, caps.get("L")), "disp": (1, caps.get("W"))}
            want = [canon(prune(s[0], mx), s[1]) for s in spec]
            if got == want:
                rep.ok(R2, {"form": name, "bytes": [fmt_byte(b) for b in got]})
            else:
                rep.violation(R2, enc.body.name, "form:" + name, "%s form emits [%s], specified [%s]" % (name, "; ".join(fmt_byte(b) for b in got), "; ".join(fmt_byte(b) for b in want)), where)
    fl = seen_forms.get("flag")
    if fl is True:
        rep.ok(R2, {"flag_bit": "1 << (%d - token index)" % flag_shift})
    else:
        rep.violation(R2, enc.body.name, "flag-bit", fl or "flag bit not found", where)
    if lit_ok:
        rep.ok(R2, {"literal": "input byte at the read position, no flag bit"})
    else:
        rep.violation(R2, enc.body.name, "literal", "the literal branch does not emit exactly the input byte at the read position", where)
    # ---- advance / flush (R4) -------------------------------------------------------------------
    want_lit = {fmt(norm(("field", ("bin", "AddWithOverflow", read, ("const", 1, "usize"), "usize"), 0, 0, "tuple")))} if read else set()
    if read and adv["lit"] == want_lit:
        rep.ok(R4, {"advance": "literal +1"})
    else:
        rep.violation(R4, enc.body.name, "advance-literal", "after a literal the read position becomes %s" % sorted(adv["lit"]), where)
    good_ref = bool(adv["ref"])
    for s in adv["ref"]:
        if not (s.startswith("AddWithOverflow(") and "get_occurrence_length" in s or ("Add" in s and ".0" in s)):
            good_ref = False
    # structural: new read = read + (len as usize)
    for p in enc.loop_paths():
        cl = enc.branch_of(p)
        if any(op == "Lt" and not truth for (op, c, truth) in cl):
            nr = (p.env or {}).get(read[1]) if read else None
            if nr is None:
                good_ref = False
                continue
            t = nr
            if t[0] == "field" and t[1][0] == "bin":
                t = t[1]
            if not (t[0] == "bin" and t[1].startswith("Add") and t[2] == read and enc.classify(t[3]) == "len"):
                good_ref = False
    if good_ref:
        rep.ok(R4, {"advance": "reference +match length"})
    else:
        rep.violation(R4, enc.body.name, "advance-reference", "after a reference the read position becomes %s (specified: + match length)" % sorted(adv["ref"]), where)
    if gsize == 8:
        rep.ok(R4, {"group": "flushed when 8 tokens are buffered"})
    else:
        rep.violation(R4, enc.body.name, "group-size", "a group is flushed at %s tokens, specified 8" % gsize, where)
    # tail flush: after the loop, iff at least one token is buffered
    rets = [p for p in enc.paths if p.end == "ret"]

    def src_root(t):
        while True:
            t = strip_refs(t)
            if t[0] in ("index", "field", "cast", "subslice"):
                t = t[1]
            elif t[0] == "call" and t[2] and t[1].rsplit("::", 1)[-1] in ("index", "index_mut", "deref", "deref_mut", "as_slice", "as_mut_slice", "borrow"):
                t = t[2][0]
            else:
                return norm(t)

    def raw_root(bb, i, term):
        """identity of the buffer behind argument i of the call ending block bb: the named local it borrows
        (two buffers that are both `Vec::new()` are different buffers), else the term"""
        body_ = enc.body
        tt = body_.blocks[bb]["term"]
        if tt["k"] != "call" or i >= len(tt["args"]):
            return src_root(term)
        op = tt["args"][i]
        pl = op.get("m") or op.get("c")
        for _ in range(8):
            if pl is None:
                break
            l = pl["l"]
            if body_.local_name(l) or l <= body_.argc:
                return ("buf", l)
            ds = body_.defs().get(l, [])
            if len(ds) != 1 or ds[0][2] != "assign":
                break
            rv = ds[0][3]["rv"]
            if rv["k"] == "ref":
                pl = rv["place"]
            elif rv["k"] in ("use", "cast"):
                pl = rv["a"].get("m") or rv["a"].get("c")
            else:
                break
        else:
            pass
        if pl is None:
            return src_root(term)
        # a call result (`&token[..n]` -> Index::index(&token, ..)): follow the first argument of handle calls
        ds = enc.body.defs().get(pl["l"], [])
        if len(ds) == 1 and ds[0][2] == "call":
            t2 = ds[0][3]
            nm2 = (callee_names(t2)[1] or callee_names(t2)[0] or "").rsplit("::", 1)[-1]
            if nm2 in ("index", "index_mut", "deref", "deref_mut", "as_slice", "as_mut_slice", "borrow") and t2["args"]:
                return raw_root(ds[0][0], 0, term)
        return src_root(term)

    def ext_events(p):
        return [e for e in p.events if e["k"] == "call" and e["callee"] and e["callee"].rsplit("::", 1)[-1] in ("extend_from_slice", "append", "extend") and len(e["args"]) > 1]
    # the group buffer is what the in-loop flush copies from; a header built with extend_from_slice is not a flush
    in_loop = set()
    for blks in enc.body.loops().values():
        in_loop |= set(blks)
    group_roots = set(raw_root(e["bb"], 1, e["args"][1]) for p in enc.paths if p.end == "loop" for e in ext_events(p) if e["bb"] in in_loop)
    # an append *into* a buffer that is itself appended somewhere else is a token going into the group buffer
    # (`group.extend_from_slice(&token[..n])`), not a flush: its source is not a group root
    into_group = set(raw_root(e["bb"], 1, e["args"][1]) for p in enc.paths for e in ext_events(p) if raw_root(e["bb"], 0, e["args"][0]) in group_roots)
    if group_roots - into_group:
        group_roots -= into_group

    def flushes(p):
        return [e for e in ext_events(p) if not group_roots or raw_root(e["bb"], 1, e["args"][1]) in group_roots]
    with_f = [p for p in rets if flushes(p)]
    without_f = [p for p in rets if not flushes(p)]
    tail = None
    if not with_f:
        tail = "no tail flush after the loop"
    elif not without_f:
        tail = "the tail flush is unconditional: an input whose token count is a multiple of the group size (or the empty input) gets a stray flag byte"
    else:
        # the deciding condition is the last one of the flushing path
        bb, term, vals, neg, dty = with_f[0].conds[-1]
        ct = cond_truth((term, vals, neg, dty))
        good = False
        desc = fmt(term)[:60]
        if ct:
            t, truth = ct
            neg_ = False
            while t[0] == "un" and t[1] == "Not":
                t = t[2]
                truth = not truth
            if t[0] == "bin" and t[3][0] == "const":
                op, k = t[1], t[3][1]
                subject = t[2]
                # normalise to "subject >= m" holding on the flushing path
                m = None
                if truth:
                    m = {"Gt": k + 1, "Ge": k, "Ne": (1 if k == 0 else None)}.get(op)
                else:
                    m = {"Le": k + 1, "Lt": k, "Eq": (1 if k == 0 else None)}.get(op)
                if subject == cnt and m is not None and m == 1:
                    good = True
                elif m is not None and subject != cnt:
                    # a byte count of the group buffer: it always holds the flag byte, so >= 2 means a token is buffered
                    is_len = subject[0] == "var" or (subject[0] == "call" and subject[1].endswith("::len"))
                    if is_len and m == 2:
                        good = True
                    desc = "%s >= %s" % (fmt(subject)[:40], m)
            elif t[0] == "call" and t[1].endswith("::is_empty"):
                desc = "%s%s" % ("" if truth else "!", fmt(t)[:50])
        if good:
            tail = True
        else:
            tail = "the tail flush is conditioned on `%s`, which also holds when no token is buffered (the group buffer always contains its flag byte): a stray flag byte is appended" % desc
    if tail is True:
        rep.ok(R4, {"tail": "flushed iff tokens are buffered"})
    else:
        rep.violation(R4, enc.body.name, "tail-flush", tail, where)
    group_typestate(rep, R4, enc, cnt, gsize, where)
    return thresholds


def run(facts, rep, ctx):
    R1 = rep.rule("R08.1", "header: 0x10, then bits [0,8), [8,16), [16,24) of the input length", floor=4)
    R2 = rep.rule("R08.2", "token layout: reference = (len-3)<<4 | (disp-1)>>8 , (disp-1)&0xFF ; flag bit 7-k; literal = input byte", floor=3)
    R3 = rep.rule("R08.3", "caps make the fields fit: look-ahead-3 <= 15, window-1 <= 0xFFF, literal threshold = length bias", floor=3)
    R4 = rep.rule("R08.4", "group flush at 8 tokens and at the end iff non-empty; read position advances by 1 / by the match length", floor=4)
    b = facts.body(FN)
    if b is None or not b.pub:
        rep.inconc(R1, "anchor %s missing" % FN)
        return
    where = "%s:%s" % (b.file, b.line)
    try:
        enc = Encoder(facts, b)
    except PathLimit:
        rep.inconc(R1, "compress: too many paths")
        return
    if enc.search is None:
        rep.inconc(R2, "match-search call not identified")
        return
    check_header(rep, R1, enc, [("const", 0x10)], where)
    spec = [
        ([("len", -3, 0, 4, 4), ("disp", -1, 8, 4, 0)], 0),
        ([("disp", -1, 0, 8, 0)], 0),
    ]
    thr = token_checks(rep, R2, R4, enc, [("2-byte", lambda k: True, spec)], where)
    caps = enc.caps()
    L, W = caps["L"], caps["W"]
    if L is None or W is None:
        rep.inconc(R3, "look-ahead / window caps not found as min(.., const)")
    else:
        if L - 3 <= 15 and L >= 3:
            rep.ok(R3, {"lookahead": L})
        else:
            rep.violation(R3, b.name, "lookahead-cap", "look-ahead cap %s: length-3 does not fit 4 bits" % hex(L), where)
        if 1 <= W <= 0x1000:
            rep.ok(R3, {"window": W})
        else:
            rep.violation(R3, b.name, "window-cap", "window cap %s: displacement-1 does not fit 12 bits" % hex(W), where)
        R5 = rep.rule("R08.5", "back-references reach only into data already produced: the match search reports (length, displacement) of a real window position (shared contract, see C10-R10.3)", floor=5)
        import c10
        sb = facts.body(enc.search["callee"])
        if sb is not None:
            c10.search_contract(facts, rep, R5, sb)
        if thr and all(t >= 3 for t in thr):
            rep.ok(R3, {"threshold": sorted(thr)})
        elif not thr:
            rep.inconc(R3, "literal / reference threshold not recognised")
        else:
            rep.violation(R3, b.name, "threshold", "references are emitted for lengths below the bias 3 (threshold %s): length-3 would underflow" % sorted(thr), where)
