"""Run the compile-fail witnesses (thorough tier): cargo +nightly test --doc on a harness crate that
path-depends on a snapshot of /repo.  Compiling is not running mila: doc-tests marked compile_fail are
only type-checked; the compiling twins contain no assertions and are built with --no-run."""
import os
import re
import shutil
import subprocess
import tempfile

VERIF = os.path.dirname(os.path.dirname(os.path.abspath(__file__)))


def run_witnesses(repo, only=None):
    """Returns (ok: {name: bool}, log).  Each documented item has compile_fail blocks and twins."""
    tmp = tempfile.mkdtemp(prefix="mila-wit-")
    try:
        snap = os.path.join(tmp, "mila")
        os.makedirs(snap)
        shutil.copytree(os.path.join(repo, "src"), os.path.join(snap, "src"))
        for f in ("Cargo.toml", "Cargo.lock"):
            shutil.copy(os.path.join(repo, f), os.path.join(snap, f))
        h = os.path.join(tmp, "harness")
        shutil.copytree(os.path.join(VERIF, "witnesses"), h, ignore=shutil.ignore_patterns("target"))
        ct = open(os.path.join(h, "Cargo.toml")).read().replace("MILA_SNAPSHOT", snap)
        open(os.path.join(h, "Cargo.toml"), "w").write(ct)
        shutil.copy(os.path.join(repo, "Cargo.lock"), os.path.join(h, "Cargo.lock"))
        env = dict(os.environ)
        env["CARGO_NET_OFFLINE"] = "true"
        env["CARGO_TARGET_DIR"] = os.path.join(tmp, "target")
        env.pop("RUSTC_WRAPPER", None)
        env.pop("RUSTC_WORKSPACE_WRAPPER", None)
        r = subprocess.run(["cargo", "+nightly", "test", "--doc", "--offline", "--", "--no-run"] if False else
                           ["cargo", "+nightly", "test", "--doc", "--offline"], cwd=h, env=env,
                           stdout=subprocess.PIPE, stderr=subprocess.STDOUT)
        out = r.stdout.decode(errors="replace")
        res = {}
        for m in re.finditer(r"test src/lib\.rs - (\w+) \(line (\d+)\)( - compile fail)? \.\.\. (\w+)", out):
            name, line, cf, verdict = m.group(1), m.group(2), bool(m.group(3)), m.group(4)
            res.setdefault(name, []).append((cf, verdict == "ok"))
        return res, out[-3000:], r.returncode
    finally:
        shutil.rmtree(tmp, ignore_errors=True)
