"""C14 — path localisation inserts the game's language marker and nothing else."""
from mir import fmt, walk, strip_refs, callee_names
from flow import enum_paths, PathLimit, variant_name, is_try_cond
from c04 import is_err_term

EXPLANATION = ("Exhaustive decision table localizer-variant x language-variant -> marker / error, read off the "
               "MIR of PathLocalizer::localize and the per-game functions it dispatches to; append sequence on "
               "every Ok path is exactly [directory part, marker, final component]; split-helper table; every "
               "LayeredFilesystem operation with a `localized` flag hands the same mapped path to every layer call; "
               "only the two audited unwraps can panic.")
ASSUMPTIONS = ["std::path::Path::{parent,file_name} split relative paths of plain components at the last separator",
               "a sum of the lengths of strings alive at the same time does not exceed usize::MAX (address space)",
               "the marker table is the specification frozen in this checker (checked against the property text)"]

LANGS = ["EnglishNA", "EnglishEU", "Japanese", "Spanish", "French", "Italian", "German", "Dutch"]
ERR = "Err(UnsupportedLanguage)"
TABLE = {
    "FE9": {"EnglishNA": "/", "EnglishEU": "/", "Japanese": "/", "Spanish": "/s_", "French": "/f_", "Italian": "/i_", "German": "/d_", "Dutch": ERR},
    "FE10": {"EnglishNA": "/e_", "EnglishEU": "/e_", "Japanese": "/", "Spanish": "/s_", "French": "/f_", "Italian": "/i_", "German": "/d_", "Dutch": ERR},
    "FE13": {"EnglishNA": "/E/", "EnglishEU": "/U/", "Japanese": "/", "Spanish": "/S/", "French": "/F/", "Italian": "/I/", "German": "/G/", "Dutch": ERR},
    "FE14": {"EnglishNA": "/@E/", "EnglishEU": "/@U/", "Japanese": "/", "Spanish": "/@S/", "French": "/@F/", "Italian": "/@I/", "German": "/@G/", "Dutch": ERR},
    "FE15": {"EnglishNA": "/@NOA_EN/", "EnglishEU": "/@NOE_EN/", "Japanese": "/@J/", "Spanish": "/@NOE_SP/", "French": "/@NOE_FR/", "Italian": "/@NOE_IT/", "German": "/@NOE_GE/", "Dutch": "/@NOE_DU/"},
}
PL = "mila::localization::PathLocalizer"
LANG = "mila::language::Language"
LFS = "mila::layered_filesystem::LayeredFilesystem"
LAYER = "mila::layered_filesystem::FileSystemLayer"


def lang_set(facts, path, lang_param):
    """Languages a path of a per-game function applies to (from its conditions on *language)."""
    allv = {v["discr"]: v["name"] for v in facts.adts[LANG]["variants"]}
    cur = set(allv.values())
    for (bb, term, vals, neg, dty) in path.conds:
        if term[0] == "discr":
            base = strip_refs(term[1])
            if base[0] == "param" and base[1] == lang_param:
                names = set(allv[v] for v in vals if v in allv)
                cur = cur - names if neg else cur & names
    return cur


def appends(path):
    """String appends on the path: list of (kind, term) in order, receiver root term."""
    out = []
    for e in path.events:
        if e["k"] == "call" and e["callee"] in ("std::string::String::push_str", "std::string::String::push"):
            out.append((e["callee"].rsplit("::", 1)[-1], e["args"][0], e["args"][1], e))
        elif e["k"] == "call" and e["callee"] and e["callee"].endswith("::add_assign") and "std::string::String" in e["callee"] and len(e["args"]) == 2:
            out.append(("push_str", e["args"][0], e["args"][1], e))      # result += &str
    return out


def const_text(t):
    t = strip_refs(t)
    if t[0] == "const":
        v = t[1]
        if isinstance(v, int) and not isinstance(v, bool):
            return chr(v)
        if isinstance(v, str):
            return v
    return None


def split_component(t):
    """If t is (a deref of) component k of the split helper's Ok payload, return (k, helper_call)."""
    t = strip_refs(t)
    while t[0] == "call" and t[1].endswith("ops::Deref>::deref"):
        t = strip_refs(t[2][0])
    if t[0] == "field" and isinstance(t[3], int):
        k = t[3]
        inner = strip_refs(t[1])
        # ((Try::branch(helper(..)) as Continue).0).k
        if inner[0] == "field" and inner[1][0] == "downcast":
            br = inner[1][1]
            if br[0] == "call" and br[2]:
                h = br[2][0]
                if h[0] == "call":
                    return k, h
    return None, None


FRESH_STRING = ("std::string::String::new", "std::string::String::with_capacity")
PASS_CALLS = ("to_string", "to_owned", "clone", "into", "from", "deref", "branch", "as_str", "as_ref", "borrow",
              "to_str", "unwrap", "as_os_str", "expect", "to_string_lossy", "into_owned", "as_path", "new")


def direct_component(t, path_param=2):
    """Origin of an appended term when the split is written inline (or in a helper that was expanded):
    'parent' | 'file_name' | 'empty' | 'transformed-by:<fn>' | None (not a path component at all)."""
    t = strip_refs(t)
    while t[0] == "call" and t[1].endswith("ops::Deref>::deref") and t[2]:
        t = strip_refs(t[2][0])
    if t[0] == "call" and t[1] == "std::string::String::new":
        return "empty"
    kind = None
    for x in walk(t):
        if x[0] == "call":
            if x[1] == "std::path::Path::parent":
                kind = "parent"
            elif x[1] == "std::path::Path::file_name":
                kind = "file_name"
    if kind is None:
        return None
    if not any(x[0] == "param" and x[1] == path_param for x in walk(t)):
        return "other-path"
    for x in walk(t):
        if x[0] == "call" and not x[1].startswith("std::path::Path::") and x[1].rsplit("::", 1)[-1] not in PASS_CALLS:
            return "transformed-by:" + x[1].rsplit("::", 1)[-1]
    return kind


def parent_empty(path):
    """truth of `parent(.trim()).is_empty()` on a path of a localizer, None when not tested"""
    empty = None
    for (bb, term, vals, neg, dty) in path.conds:
        tt, inv = term, False
        while tt[0] == "un" and tt[1] == "Not":
            tt, inv = tt[2], not inv
        if tt[0] == "call" and tt[1].rsplit("::", 1)[-1] == "is_empty" and any(x[0] == "call" and x[1] == "std::path::Path::parent" for x in walk(tt)):
            empty = ((vals == (0,)) == neg) != inv
    return empty


def run(facts, rep, ctx):
    R1 = rep.rule("R14.1", "marker table: 6 localizers x 8 languages (exhaustive)", floor=48)
    R2 = rep.rule("R14.2", "every Ok path appends exactly directory part, marker, final component; split-helper table", floor=9)
    R3 = rep.rule("R14.3", "every filesystem operation with a `localized` flag passes the mapped path to every layer call, the raw path otherwise", floor=9)
    R4 = rep.rule("R14.4", "no panic site in the localizers other than to_str().unwrap() on a Path built from &str", floor=1)
    disp = facts.body(PL + "::localize")
    if disp is None or not disp.pub:
        rep.inconc(R1, "anchor PathLocalizer::localize missing")
        return
    if LANG not in facts.adts or PL not in facts.adts:
        rep.inconc(R1, "Language / PathLocalizer ADT missing")
        return
    plv = {v["discr"]: v["name"] for v in facts.adts[PL]["variants"]}
    try:
        dpaths = enum_paths(disp)
    except PathLimit:
        rep.inconc(R1, "dispatch has too many paths")
        return
    per_game = {}
    for p in dpaths:
        variants = set(plv.values())
        for (bb, term, vals, neg, dty) in p.conds:
            if term[0] == "discr" and strip_refs(term[1])[0] == "param" and strip_refs(term[1])[1] == 1:
                names = set(plv[v] for v in vals if v in plv)
                variants = variants - names if neg else variants & names
        calls = [e for e in p.events if e["k"] == "call" and e["callee"] and e["callee"].startswith("mila::localization::") and e["callee"].endswith("::localize")]
        for v in variants:
            per_game.setdefault(v, []).append((p, calls))
    helper_bodies = set()
    direct_ok = []
    for game in sorted(plv.values()):
        lst = per_game.get(game)
        if not lst or len(lst) != 1 or len(lst[0][1]) != 1:
            rep.inconc(R1, "dispatch for PathLocalizer::%s not a single call" % game)
            continue
        p, calls = lst[0]
        call = calls[0]
        # the dispatcher must return the callee's result unchanged and pass path / language through
        if p.ret != call["val"]:
            rep.violation(R1, disp.name, "dispatch-ret:" + game, "PathLocalizer::%s does not return its localizer's result unchanged" % game, "%s:%s" % (disp.file, call["line"]))
        cb = facts.body(call["callee"])
        if cb is None:
            rep.inconc(R1, "callee %s has no body" % call["callee"])
            continue
        args = [strip_refs(a) for a in call["args"]]
        pa = [a for a in args if a[0] == "param" and a[1] == 2]
        if not pa:
            rep.violation(R1, disp.name, "dispatch-path:" + game, "PathLocalizer::%s does not pass the caller's path" % game, "%s:%s" % (disp.file, call["line"]))
        if game == "NoOp":
            try:
                ps = enum_paths(cb)
            except PathLimit:
                rep.inconc(R1, "NoOp: too many paths")
                continue
            good = all(pp.end == "ret" and pp.ret[0] == "agg" and pp.ret[3] == "Ok" and pp.ret[4][0][0] == "call"
                       and pp.ret[4][0][1].endswith("to_string") and strip_refs(pp.ret[4][0][2][0])[0] == "param"
                       and not appends(pp) for pp in ps)
            for lang in LANGS:
                if good:
                    rep.ok(R1, {"game": game, "lang": lang, "marker": "identity"})
                else:
                    rep.violation(R1, cb.name, "cell:NoOp:" + lang, "NoOp localizer is not the identity", "%s:%s" % (cb.file, cb.line))
            continue
        if game not in TABLE:
            rep.violation(R1, disp.name, "unknown-game:" + game, "localizer variant %s has no row in the specification table" % game, "%s:%s" % (disp.file, disp.line))
            continue
        lang_param = None
        for i in range(1, cb.argc + 1):
            if cb.local_ty(i) == "&language::Language":
                lang_param = i
        la = [a for a in args if a[0] == "param" and a[1] == 3]
        if lang_param is None or not la:
            rep.inconc(R1, "%s: language parameter not found / not forwarded" % cb.name)
            continue
        try:
            ps = enum_paths(cb)
        except PathLimit:
            rep.inconc(R1, cb.name + ": too many paths")
            continue
        cells = {}
        shape_bad = None
        shape_unknown = None
        shape_witness = None
        direct_rows = set()
        ok_paths = 0
        for pp in ps:
            err = is_err_term(pp.ret)
            langs = lang_set(facts, pp, lang_param)
            if pp.end == "loop":
                shape_unknown = "the localizer contains a loop (table lookup?) that this rule does not evaluate"
                continue
            if pp.end != "ret":
                shape_bad = "a path ends with %s" % pp.end
                continue
            if err is True:
                # error from the split helper (propagated by ?) applies to all languages: not a table cell
                if pp.ret[0] == "call":
                    # ... unless the propagated value is a locally built LocalizationError (a marker computed
                    # as a Result and unwrapped with `?`)
                    known = [x[3] for x in walk(pp.ret) if x[0] == "agg" and x[1] == "adt" and (x[2] or "").endswith("LocalizationError")]
                    if known == ["UnsupportedLanguage"]:
                        for l in langs:
                            cells.setdefault(l, set()).add("Err(UnsupportedLanguage)")
                    continue
                inner = pp.ret[4][0]
                nm = inner[3] if inner[0] == "agg" else fmt(inner)
                for l in langs:
                    cells.setdefault(l, set()).add("Err(%s)" % nm)
                continue
            ok_paths += 1
            ap = appends(pp)
            texts = []
            first_k = last_k = None
            recv_ok = True
            for i, (kind, recv, arg, e) in enumerate(ap):
                r = strip_refs(recv)
                if not (r[0] == "call" and r[1] in FRESH_STRING):
                    recv_ok = False
                ct = const_text(arg)
                if ct is not None and not (ct == "" and i in (0, len(ap) - 1) and len(ap) > 1):
                    texts.append((i, ct))
                else:
                    k, h = split_component(arg) if ct is None else (None, None)
                    if k is None:
                        # the split written inline / in an expanded helper: decide from the component's origin
                        # (a literal "" in the first/last position is the empty half of the split)
                        o = direct_component(arg) if ct is None else "empty"
                        em = parent_empty(pp)
                        if o is None:
                            shape_bad = "appends %s, which is neither a constant nor a component of the split path" % fmt(arg)[:160]
                        elif o.startswith("transformed-by") or o == "other-path":
                            shape_bad = "appends a path component that is %s" % o
                        elif em is None:
                            shape_unknown = "a path component is appended on a path that does not test whether the parent is empty"
                        else:
                            direct_rows.add((em, i == 0, o))
                            if i == 0:
                                first_k = 0
                            elif i == len(ap) - 1:
                                last_k = 1
                            else:
                                shape_bad = "a path component is appended in the middle"
                    else:
                        helper_bodies.add(h[1])
                        if not (h[2] and any(x[0] == "param" and x[1] == 2 for x in walk(h[2][0]))):
                            shape_bad = "splits %s instead of the caller's path" % fmt(h[2][0])
                        if i == 0:
                            first_k = k
                        elif i == len(ap) - 1:
                            last_k = k
                        else:
                            shape_bad = "a path component is appended in the middle"
            if not recv_ok:
                shape_bad = "appends go to something other than the fresh result string"
            if (first_k != 0 or last_k != 1) and not ap:
                shape_unknown = shape_unknown or "no appends to a fresh string on an Ok path"
                # a result put together by the path API itself (`with_file_name`, `join`, `set_file_name`, `push`) from the
                # caller's path cannot express the single-component rule (a lone component is the *directory*, the marker
                # goes after it): the split helper that implements the swap is bypassed
                api = [x[1].rsplit("::", 1)[-1] for x in walk(pp.ret) if x[0] == "call" and x[1].startswith("std::path::Path") and
                       x[1].rsplit("::", 1)[-1] in ("with_file_name", "join", "with_extension")]
                uses_split = any(e["k"] == "call" and e["callee"] and e["callee"].endswith("get_parent_and_file_name") for e in pp.events)
                empties = parent_empty(pp)
                if api and not uses_split and empties is None and any(x[0] == "param" and x[1] == 2 for x in walk(pp.ret)):
                    shape_witness = "the result is built with Path::%s on the caller's path without the empty-parent test: a single-component path gets the marker glued to the component instead of appended after it as a directory" % api[0]
            elif first_k != 0 or last_k != 1:
                shape_bad = shape_bad or "result is not [directory part, marker, final component] (components %s, %s)" % (first_k, last_k)
            # returned value must be that string
            rv = pp.ret[4][0] if pp.ret[0] == "agg" else None
            if not (rv and rv[0] == "call" and rv[1] in FRESH_STRING):
                if not ap:
                    shape_unknown = "the Ok value %s is built in a way that is not recognised (no appends to a fresh string)" % fmt(pp.ret)[:100]
                else:
                    shape_bad = shape_bad or "returns %s instead of the built string" % fmt(pp.ret)[:120]
            marker = "".join(t for i, t in texts)
            for l in langs:
                cells.setdefault(l, set()).add(marker)
        for lang in LANGS:
            got = cells.get(lang, set())
            want = TABLE[game][lang]
            if shape_unknown and got != {want}:
                rep.inconc(R1, "%s / %s: marker not extracted (%s)" % (game, lang, shape_unknown))
                continue
            if got == {want}:
                rep.ok(R1, {"game": game, "lang": lang, "marker": want})
            else:
                rep.violation(R1, cb.name, "cell:%s:%s" % (game, lang), "%s / %s yields %s, specified %r" % (game, lang, sorted(got) or "nothing", want), "%s:%s" % (cb.file, cb.line))
        if direct_rows and not shape_bad:
            want_rows = {(True, True, "file_name"), (True, False, "empty"), (False, True, "parent"), (False, False, "file_name")}
            if direct_rows != want_rows:
                shape_bad = "split rows (parent empty, first/last, origin) are %s; specified: empty parent -> (file name, \"\"), else (parent, file name)" % sorted(direct_rows)
            else:
                direct_ok.append(cb.name)
        if shape_witness:
            rep.violation(R2, cb.name, "shape-path-api", "%s: %s" % (game, shape_witness), "%s:%s" % (cb.file, cb.line))
        elif shape_bad and not shape_unknown:
            rep.violation(R2, cb.name, "shape", "%s: %s" % (game, shape_bad), "%s:%s" % (cb.file, cb.line))
        elif shape_unknown:
            rep.inconc(R2, "%s: %s" % (game, shape_unknown))
        elif ok_paths:
            rep.ok(R2, {"fn": cb.name, "ok_paths": ok_paths})
        # structural side conditions
        row = TABLE[game]
        style_dir = game in ("FE13", "FE14", "FE15")
        for lang in LANGS:
            if shape_unknown:
                break
            for m in cells.get(lang, ()):
                if m.startswith("Err"):
                    continue
                if not m.startswith("/") or (style_dir and not m.endswith("/")) or (not style_dir and len(m) > 1 and m.endswith("/")):
                    rep.violation(R1, cb.name, "style:%s:%s" % (game, lang), "marker %r has the wrong style for %s" % (m, game), "%s:%s" % (cb.file, cb.line))

    # ---- split helper table ---------------------------------------------------------------------
    for hname in sorted(helper_bodies):
        hb = facts.ibody(hname, combinators=True)
        if hb is None:
            rep.inconc(R2, "split helper %s has no body" % hname)
            continue
        try:
            hp = enum_paths(hb)
        except PathLimit:
            rep.inconc(R2, "split helper: too many paths")
            continue
        rows = []
        for pp in hp:
            if pp.end != "ret":
                rep.violation(R2, hb.name, "helper-end", "split helper path ends with %s" % pp.end, "%s:%s" % (hb.file, hb.line))
                continue
            err = is_err_term(pp.ret)
            conds = [c for c in pp.conds]
            empty = None
            for (bb, term, vals, neg, dty) in conds:
                tt, inv = term, False
                while tt[0] == "un" and tt[1] == "Not":
                    tt, inv = tt[2], not inv
                if tt[0] == "call" and tt[1].rsplit("::", 1)[-1] == "is_empty":
                    empty = ((vals == (0,)) == neg) != inv
            if err is True:
                rows.append(("err", None))
                continue
            tup = pp.ret[4][0]
            if tup[0] != "agg" or len(tup[4]) != 2:
                rep.inconc(R2, "split helper returns %s" % fmt(pp.ret))
                continue

            def origin(x):
                x = strip_refs(x)
                if x[0] == "call" and x[1] == "std::string::String::new":
                    return "empty"
                if const_text(x) == "":
                    return "empty"          # a borrowed `""`
                dc = direct_component(x, path_param=1)
                if dc is not None:
                    return dc
                # the component must be the helper's string itself: no trimming / case folding / slicing on the way
                PASS = ("to_string", "to_owned", "clone", "into", "from", "deref", "branch", "as_str", "as_ref", "borrow")
                for s in walk(x):
                    if s[0] == "call" and not s[1].startswith("mila::localization::") and s[1].rsplit("::", 1)[-1] not in PASS:
                        return "transformed-by:" + s[1].rsplit("::", 1)[-1]
                for s in walk(x):
                    if s[0] == "call" and s[1].startswith("mila::localization::"):
                        sb = facts.body(s[1])
                        if sb:
                            # the sub-helper must hand the component back as it is
                            try:
                                for sp in enum_paths(facts.ibody(s[1], combinators=True)):
                                    if sp.end == "ret" and is_err_term(sp.ret) is False and sp.ret[0] == "agg" and sp.ret[4]:
                                        dc2 = direct_component(sp.ret[4][0], path_param=1)
                                        if dc2 and dc2.startswith("transformed-by"):
                                            return dc2 + " (in %s)" % s[1].rsplit("::", 1)[-1]
                            except PathLimit:
                                pass
                            for bb2, t2 in sb.calls():
                                n2 = callee_names(t2)[1] or ""
                                if n2 == "std::path::Path::parent":
                                    return "parent"
                                if n2 == "std::path::Path::file_name":
                                    return "file_name"
                return "?"
            rows.append(("ok", empty, origin(tup[4][0]), origin(tup[4][1])))
        want = {("ok", True, "file_name", "empty"), ("ok", False, "parent", "file_name")}
        got = set(r for r in rows if r[0] == "ok")
        if got == want and any(r[0] == "err" for r in rows):
            rep.ok(R2, {"fn": hb.name, "table": sorted(map(str, got))})
            for _ in range(3):
                rep.ok(R2, {"fn": hb.name, "row": "helper"})
        elif any("?" in (r[2], r[3]) for r in got):
            rep.inconc(R2, "split helper rows %s: a component's origin was not recognised" % sorted(map(str, got)))
        else:
            rep.violation(R2, hb.name, "helper-table", "split helper rows %s, specified: empty parent -> (file name, \"\"), else (parent, file name)" % sorted(map(str, got)), "%s:%s" % (hb.file, hb.line))

    if direct_ok and not helper_bodies:
        # the split table was checked on the localizers' own paths (helper expanded): same four obligations
        rep.ok(R2, {"split": "inline", "fns": direct_ok})
        for _ in range(3):
            rep.ok(R2, {"split": "inline", "row": "helper"})
    uniform_application(facts, rep, R3)
    panic_sites(facts, rep, R4, disp)
    # the filesystem must be built with the game's own localizer, or its operations map paths differently
    R5 = rep.rule("R14.5", "LayeredFilesystem::new pairs every game with its own localizer (configuration table shared with C12-R12.3)", floor=8)
    import c12
    c12.config_table(facts, rep, R5)


def derives_from_param(t, idx):
    return any(x[0] == "param" and x[1] == idx for x in walk(t))


def uniform_application(facts, rep, R3, only=None):
    for b in sorted(facts.views(), key=lambda b: b.name):
        if not (b.name.startswith(LFS + "::") and b.pub and b.kind == "AssocFn"):
            continue
        if only is not None and b.name.rsplit("::", 1)[-1] not in only:
            continue
        loc = None
        pth = None
        for i in range(2, b.argc + 1):
            if b.local_name(i) is not None and b.local_ty(i) == "bool":
                loc = i
            if b.local_ty(i) == "&str" and pth is None:
                pth = i
        if loc is None or pth is None:
            continue
        try:
            paths = enum_paths(b)
        except PathLimit:
            rep.inconc(R3, b.name + ": too many paths")
            continue
        layer_calls = 0
        deleg = 0
        bad = None
        for p in paths:
            flag = None
            for (bb, term, vals, neg, dty) in p.conds:
                tt, inv = term, False
                while tt[0] == "un" and tt[1] == "Not":
                    tt, inv = tt[2], not inv
                if tt == ("param", loc, b.local_name(loc)):
                    flag = ((vals == (0,)) == neg) != inv
            for e in p.events:
                if e["k"] != "call" or not e["callee"]:
                    continue
                c = e["callee"]
                if c.startswith(LFS + "::") and len(e["args"]) >= 3:
                    # delegation to another operation: path and flag must be forwarded unchanged
                    a_path = strip_refs(e["args"][1])
                    a_flag = [a for a in e["args"] if a == ("param", loc, b.local_name(loc))]
                    tb = facts.body(c)
                    takes_flag = tb is not None and any(tb.local_ty(i) == "bool" for i in range(2, tb.argc + 1))
                    if takes_flag:
                        deleg += 1
                        if not (a_path[0] == "param" and a_path[1] == pth):
                            bad = "delegates to %s with path %s" % (c.rsplit("::", 1)[-1], fmt(e["args"][1]))
                        if not a_flag:
                            bad = "delegates to %s without forwarding `localized`" % c.rsplit("::", 1)[-1]
                if c.startswith(LAYER + "::") and len(e["args"]) >= 2 and c.rsplit("::", 1)[-1] != "root":
                    layer_calls += 1
                    a = e["args"][1]
                    loc_calls = [x for x in walk(a) if x[0] == "call" and x[1] == PL + "::localize"]
                    if flag is True:
                        if not loc_calls:
                            bad = "with localized=true passes %s to %s" % (fmt(a)[:80], c.rsplit("::", 1)[-1])
                        else:
                            lc = loc_calls[0]
                            r0 = strip_refs(lc[2][0])
                            r1 = strip_refs(lc[2][1])
                            r2 = strip_refs(lc[2][2])
                            if not (r0[0] == "field" and r0[2] == "path_localizer" and r1[0] == "param" and r1[1] == pth and r2[0] == "field" and r2[2] == "language"):
                                bad = "localizes with (%s, %s, %s)" % (fmt(lc[2][0]), fmt(lc[2][1]), fmt(lc[2][2]))
                            # the mapped path reaches the layer only when mapping succeeded: a fallback value for a
                            # failed localisation makes this operation address another location than its siblings
                            fb = [x[1].rsplit("::", 1)[-1] for x in walk(a) if x[0] == "call" and x[1].rsplit("::", 1)[-1] in (
                                "unwrap_or", "unwrap_or_else", "unwrap_or_default", "or", "or_else") and any(y is lc or y == lc for y in walk(x))]
                            if fb:
                                bad = "with localized=true a failed localisation is replaced by a fallback (%s) instead of being reported" % fb[0]
                    elif flag is False:
                        if loc_calls or not derives_from_param(a, pth):
                            bad = "with localized=false passes %s to %s" % (fmt(a)[:80], c.rsplit("::", 1)[-1])
                    else:
                        bad = "a layer call is reached without testing `localized`"
                if c == "std::option::Option::<T>::unwrap" or c == "std::result::Result::<T, E>::unwrap":
                    if any(x[0] == "call" and x[1] == PL + "::localize" for x in walk(e["args"][0])):
                        bad = "unwraps the localisation result"
        if layer_calls == 0 and deleg == 0:
            continue
        if bad:
            rep.violation(R3, b.name, "uniform", "%s: %s" % (b.name.rsplit("::", 1)[-1], bad), "%s:%s" % (b.file, b.line))
        elif layer_calls:
            rep.ok(R3, {"fn": b.name, "layer_calls_on_paths": layer_calls})
        else:
            rep.count("delegating_helpers", 1)


def panic_sites(facts, rep, R4, disp):
    ids, ext = facts.reachable_from([disp.id])
    for i in sorted(ids):
        b = facts.bodies[i]
        for bb, t in b.calls():
            nm = callee_names(t)[1] or callee_names(t)[0] or ""
            sh = nm.rsplit("::", 1)[-1]
            if nm.startswith("core::panicking") or sh in ("unwrap", "expect") or "ops::Index" in nm:
                term = b.term_of_operand(t["args"][0]) if t["args"] else None
                okk = False
                if sh == "unwrap" and term is not None:
                    tt = strip_refs(term)
                    if tt[0] == "call" and tt[1] in ("std::path::Path::to_str", "std::ffi::OsStr::to_str"):
                        okk = True
                if okk:
                    rep.ok(R4, {"fn": b.name, "site": "to_str().unwrap() on a path built from &str"})
                else:
                    rep.violation(R4, b.name, "panic:" + sh, "%s can panic: %s(%s)" % (b.name, nm, fmt(term) if term else ""), "%s:%s" % (b.file, t["line"]))
        for bb, t in b.asserts():
            if t["msg"]["kind"] in ("Misaligned", "NullPtr"):
                continue
            if t["msg"]["kind"] == "Overflow" and t["msg"].get("op") == "Add":
                # a sum of lengths of strings that are alive at the same time cannot wrap (address space)
                def only_lengths(x):
                    x = strip_refs(x)
                    if x[0] == "call" and x[1].rsplit("::", 1)[-1] == "len":
                        return True
                    if x[0] == "field" and x[3] == 0 and x[1][0] == "bin" and x[1][1].startswith("Add"):
                        return only_lengths(x[1][2]) and only_lengths(x[1][3])
                    if x[0] == "bin" and x[1].startswith("Add"):
                        return only_lengths(x[2]) and only_lengths(x[3])
                    return x[0] == "const" and isinstance(x[1], int) and x[1] < 4096
                if only_lengths(b.term_of_operand(t["msg"]["a"])) and only_lengths(b.term_of_operand(t["msg"]["b"])):
                    rep.count("length_sums_discharged")
                    continue
            rep.violation(R4, b.name, "assert:" + t["msg"]["kind"], "%s contains a %s assert" % (b.name, t["msg"]["kind"]), "%s:%s" % (b.file, t["line"]))
