"""C15 — GameCube/Wii pack archive: builder and parser agree on the record layout; 32-byte alignment."""
import re
from mir import fmt, walk, strip_refs, norm, callee_names, call_target
from binser import deep, for_loops, enclosing_loops, rpo_index, root_of, affine, fmt_affine, len_atom, mutations_of
from flow import enum_paths, PathLimit
from c04 import is_err_term

EXPLANATION = ("Builder emission sequence (header and per-entry record) and parser read sequence are extracted from the "
               "MIR and compared field by field: order, width, endianness, constant; record/header size constants "
               "cohere; name/file addresses are the running offsets at the time of recording; both padding loops use "
               "the same 32-byte boundary over the absolute offset; the parser positions itself from the recorded "
               "addresses and fills an insertion-ordered map in record order.")
ASSUMPTIONS = ["content identity and arbitrary conforming re-arrangements are value-level and not decided",
               "the `as u16` count truncation is outside the property's domain (<= 65535 files)"]

SER = "mila::fe9_arc::serialize"
PAR = "mila::fe9_arc::parse"
WIDTH = {"u8": 1, "u16": 2, "u32": 4, "u64": 8}


def emission(nv, out_root, idx, loops):
    """Ordered list of things appended to the output vector: dicts {kind,width,endian,value,loop}."""
    evs = []
    for bb, sh, args, t in mutations_of(nv, out_root[1]):
        loop = enclosing_loops(loops, bb)
        d = {"bb": bb, "order": idx.get(bb, 0), "loop": loop[0]["head"] if loop else None, "line": t["line"]}
        if sh == "push":
            d.update(kind="byte", width=1, value=args[1])
        elif sh == "resize":
            a = affine(args[1], nv)
            grow = a[1] if a and any(len_atom(k) == out_root for k in a[0]) else None
            d.update(kind="pad", width=grow, value=args[2])
        elif sh in ("extend", "extend_from_slice", "append"):
            v = args[1]
            be = [x for x in walk(v) if x[0] == "call" and re.search(r"::to_(be|le)_bytes$", x[1])]
            if be:
                m = re.search(r"impl (\w+)>::to_(be|le)_bytes$", be[0][1])
                d.update(kind="int", width=WIDTH.get(m.group(1)), endian=m.group(2), value=be[0][2][0], ty=m.group(1))
            else:
                zc = strip_refs(v)
                while zc[0] == "cast":
                    zc = strip_refs(zc[1])
                if zc[0] == "const" and isinstance(zc[1], (bytes, bytearray)) and not any(zc[1]):
                    d.update(kind="pad", width=len(zc[1]), value=("const", 0, "u8"))      # extend_from_slice(&[0; k])
                elif zc[0] == "agg" and zc[1] == "array" and zc[4] and all(x[:2] == ("const", 0) for x in zc[4]):
                    d.update(kind="pad", width=len(zc[4]), value=("const", 0, "u8"))
                elif zc[0] == "repeat" and zc[1][:2] == ("const", 0) and isinstance(zc[2], int):
                    d.update(kind="pad", width=zc[2], value=("const", 0, "u8"))
                else:
                    d.update(kind="bytes", width=None, value=v, root=root_of(v))
        else:
            d.update(kind="other:" + sh, width=None, value=None)
        evs.append(d)
    evs.sort(key=lambda e: e["order"])
    return evs


def reads_of(facts, body, depth=0):
    """Ordered stream reads (byteorder) in a body following local callees: list of (width, endian, dest)."""
    out = []
    idx = rpo_index(body)
    for bb, t in sorted(body.calls(), key=lambda x: idx.get(x[0], 0)):
        n = callee_names(t)
        nm = n[1] or n[0] or ""
        m = re.search(r"ReadBytesExt::read_(u8|u16|u32|u64)$", nm)
        if m:
            ga = (call_target(t) or {}).get("gargs", [])
            endian = "be" if any("BigEndian" in g for g in ga) else ("le" if any("LittleEndian" in g for g in ga) else None)
            out.append({"width": WIDTH[m.group(1)], "endian": endian, "bb": bb, "body": body, "term": t})
    return out


def name_reader_rule(facts, rep, par):
    """Names are NUL-terminated Shift-JIS: the parser's string reader stops at the first zero byte, and for that
    every byte it consumes has to be compared with zero (Shift-JIS trail bytes are never zero, single-byte
    half-width katakana 0xA1..0xDF have no trail byte at all)."""
    R7 = rep.rule("R15.7", "the name reader's terminator scan compares every byte it consumes with NUL; the builder appends exactly one NUL per name", floor=1)
    from c06 import untested_reads
    from mir import callee_names
    readers = set()
    for bb, t in par.calls():
        nm = callee_names(t)[1] or callee_names(t)[0] or ""
        if "EncodedStringReader>::" in nm:
            readers.add(nm)
    done = False
    for rn in sorted(readers):
        rb = facts.body(rn)
        if rb is None:
            continue
        impls = set()
        for bb, t in rb.calls():
            nm = callee_names(t)[1] or callee_names(t)[0] or ""
            if nm.startswith("mila::encoded_strings::") and nm != rb.name:
                impls.add(nm)
        for im in sorted(impls):
            ib = facts.body(im)
            if ib is None:
                continue
            try:
                ip = enum_paths(ib)
            except PathLimit:
                rep.inconc(R7, "%s: too many paths" % im)
                continue
            if not any(e["k"] == "call" and e["callee"] and e["callee"].endswith("FnMut::call_mut") for p in ip for e in p.events):
                continue
            done = True
            w = untested_reads(ip)
            if w:
                rep.violation(R7, ib.name, "reader-unit", "%s: %s" % (im.rsplit("::", 1)[-1], w), "%s:%s" % (ib.file, ib.line))
            else:
                rep.ok(R7, {"name_reader": rn, "scan": im, "every_byte_compared_with_NUL": True})
    if not done:
        rep.inconc(R7, "the parser's name reader / its byte scan was not identified")


def run(facts, rep, ctx):
    R1 = rep.rule("R15.1", "record layout duality: header (magic, count, padding) and record (pad, name address, file address, size) agree in order, width, endianness", floor=7)
    R2 = rep.rule("R15.2", "size constants cohere: record size = bytes appended per entry = parser stride; header size = parser position", floor=3)
    R3 = rep.rule("R15.3", "recorded name/file addresses are the running absolute offsets; recorded size is the unpadded length", floor=3)
    R4 = rep.rule("R15.4", "both padding loops align the absolute offset to the same 32-byte boundary, after the names and after each file", floor=2)
    R5 = rep.rule("R15.5", "parser seeks to the recorded addresses, reads `size` bytes, keeps record order in an insertion-ordered map", floor=4)
    ser = facts.body(SER)
    par = facts.body(PAR)
    if ser is None or par is None or not ser.pub or not par.pub:
        rep.inconc(R1, "anchors fe9_arc::serialize / parse missing")
        return
    name_reader_rule(facts, rep, par)
    wh = "%s:%s" % (ser.file, ser.line)
    nv = ser.named_view()
    idx = rpo_index(nv)
    loops = for_loops(nv)
    out_root = None
    for bi, si, s in nv.stmts():
        if s["k"] == "assign" and s["lhs"]["l"] == 0 and not s["lhs"]["p"] and s["rv"]["k"] == "agg" and s["rv"].get("variant") == "Ok":
            out_root = root_of(nv.term_of_operand(s["rv"]["fields"][0]))
    if out_root is None or out_root[0] != "local":
        rep.inconc(R1, "builder: returned buffer not identified")
        return
    em = emission(nv, out_root, idx, loops)
    header = [e for e in em if e["loop"] is None and e["kind"] in ("int", "byte", "pad")]
    # bytes put into the header region some other way (`extend(RESERVED.iter())`): the header's size is not known
    first_loop = min([e["order"] for e in em if e["loop"] is not None] or [1 << 30])
    header_gap = [e for e in em if e["loop"] is None and e["order"] < first_loop and e["kind"] not in ("int", "byte", "pad")]
    record = [e for e in em if e["loop"] is not None]
    tail = [e for e in em if e["loop"] is None and e["kind"] == "bytes"]
    # ---- parser side ----------------------------------------------------------------------------
    pnv = par.named_view()
    preads = reads_of(facts, par)
    ploops = for_loops(pnv)
    hdr_reads = [r for r in preads if not enclosing_loops(ploops, r["bb"])]
    rec_fn = None
    for bb, t in par.calls():
        nm = callee_names(t)[1] or ""
        cb = facts.body(nm)
        if cb is not None and nm.startswith("mila::fe9_arc::") and enclosing_loops(ploops, bb) and reads_of(facts, cb):
            rec_fn = cb
    if rec_fn is None:
        rep.inconc(R1, "parser: record reader not identified")
        return
    rec_reads = reads_of(facts, rec_fn)
    # which struct field each record read ends up in
    fields = {}
    for bi, si, s in rec_fn.stmts():
        if s["k"] == "assign" and s["rv"]["k"] == "agg" and s["rv"].get("ak") == "adt" and s["rv"].get("def", "").startswith("mila::fe9_arc::"):
            for nme, op in zip(s["rv"]["field_names"], s["rv"]["fields"]):
                t = rec_fn.term_of_operand(op)
                for i, r in enumerate(rec_reads):
                    if any(x[0] == "call" and len(x) > 3 and x[3] == r["bb"] for x in walk(t)):
                        fields[i] = nme
    # ---- R15.1 header ------------------------------------------------------------------------------
    hw = [(e["kind"], e["width"], e.get("endian")) for e in header]
    if len(header) >= 2 and header[0]["kind"] == "int" and header[1]["kind"] == "int":
        magic_w = header[0]["value"]
        pad = sum(e["width"] or 0 for e in header[2:])
        hsize = header[0]["width"] + header[1]["width"] + pad
        if any(e["width"] is None for e in header[2:]) or header_gap:
            hsize = None
        pmagic = None
        for p in (enum_paths(par) if True else []):
            for (bb, term, vals, neg, dty) in p.conds:
                if term[0] == "bin" and term[1] in ("Ne", "Eq") and term[3][0] == "const" and any(x[0] == "call" and x[1].endswith("read_u32") for x in walk(term[2])):
                    pmagic = term[3][1]
        mw = strip_refs(magic_w)
        if len(hdr_reads) >= 2 and (hdr_reads[0]["width"], hdr_reads[0]["endian"]) == (header[0]["width"], header[0]["endian"]) and mw[0] == "const" and mw[1] == pmagic:
            rep.ok(R1, {"header": "magic", "value": hex(pmagic), "width": 4, "endian": "be"})
        else:
            rep.violation(R1, ser.name, "hdr:magic", "builder writes magic %s as %s-byte %s-endian; parser reads %s and compares with %s" % (
                fmt(magic_w), header[0]["width"], header[0]["endian"], (hdr_reads[0]["width"], hdr_reads[0]["endian"]) if hdr_reads else None, hex(pmagic) if pmagic is not None else None), wh)
        cnt = header[1]["value"]
        cnt_full = deep(nv, cnt)        # through named locals (`let file_count = contents.len();`)
        cnt_ok = any(x[0] == "call" and x[1].endswith("::len") and strip_refs(x[2][0])[0] == "param" for x in walk(cnt_full))
        same_shape = len(hdr_reads) >= 2 and (hdr_reads[1]["width"], hdr_reads[1]["endian"]) == (header[1]["width"], header[1]["endian"])
        if same_shape and cnt_ok:
            rep.ok(R1, {"header": "count", "width": header[1]["width"], "endian": header[1]["endian"]})
        elif same_shape and any(x[0] == "local" for x in walk(cnt_full)):
            rep.inconc(R1, "builder: where the header count %s comes from was not followed" % fmt(cnt)[:50])
        else:
            rep.violation(R1, ser.name, "hdr:count", "builder writes the count as %s (%s bytes, %s), parser reads %s" % (fmt(cnt)[:50], header[1]["width"], header[1].get("endian"), (hdr_reads[1]["width"], hdr_reads[1]["endian"]) if len(hdr_reads) > 1 else None), wh)
        # parser position after the header
        ppos = None
        for bb, t in par.calls():
            if (callee_names(t)[1] or "").endswith("Cursor::<T>::set_position") and not enclosing_loops(ploops, bb):
                a = par.term_of_operand(t["args"][1])
                if a[0] == "const":
                    ppos = a[1]
        if ppos is None:
            # e.g. `set_position(BASE_HEADER_SIZE as u64)`: a named constant behind a cast
            for bb, t in par.calls():
                if (callee_names(t)[1] or "").endswith("Cursor::<T>::set_position") and not enclosing_loops(ploops, bb):
                    a = strip_refs(par.term_of_operand(t["args"][1]))
                    while a[0] == "cast":
                        a = strip_refs(a[1])
                    if a[0] == "const" and isinstance(a[1], int):
                        ppos = a[1]
        if ppos == hsize and hsize is not None:
            rep.ok(R1, {"header": "padding", "header_size": hsize})
            rep.ok(R2, {"header_size": hsize, "parser_position": ppos})
        elif ppos is None or hsize is None:
            rep.inconc(R2, "header size / parser start position not recognised (%s, %s)" % (hsize, ppos))
        else:
            rep.violation(R2, par.name, "header-size", "builder's header is %s bytes, parser starts reading records at %s" % (hsize, ppos), "%s:%s" % (par.file, par.line))
    else:
        rep.inconc(R1, "builder header not recognised: %s" % hw)
        hsize = None
    # ---- R15.1 record --------------------------------------------------------------------------------
    wrec = [(e["kind"], e["width"], e.get("endian")) for e in record]
    prec = [(r["width"], r["endian"]) for r in rec_reads]
    wseq = []
    for e in record:
        if e["kind"] == "pad":
            wseq.append(("pad", e["width"], None, None))
        elif e["kind"] == "int":
            wseq.append(("int", e["width"], e["endian"], e["value"]))
        else:
            wseq.append((e["kind"], e["width"], None, None))
    # roles of the builder's values: which collection the value is an element of, and what was pushed into it
    def collection_kind(root):
        """'names' for the vector of running name offsets, 'file_info' for the vector of (address, size) records"""
        if not root or root[0] != "local":
            return None
        for bb, sh, args, t in mutations_of(nv, root[1]):
            if sh != "push":
                continue
            v = args[1]
            if v[0] == "agg" and len(v[4]) == 2:
                return "file_info"
            if affine(v, nv) is not None:
                return "names"
        return None

    def role(v):
        if v is None:
            return "pad"
        t = deep(nv, v, stop=tuple(l for l in range(len(nv.locals)) if nv.local_ty(l).startswith("std::vec::Vec<") or nv.local_ty(l).startswith("indexmap::")))
        fields = []
        for _ in range(24):
            t = strip_refs(t)
            if t[0] == "cast":
                t = t[1]
            elif t[0] == "field" and isinstance(t[3], int):
                fields.append(t[3])
                t = t[1]
            elif t[0] == "downcast":
                t = t[1]
            elif t[0] == "call" and t[1].endswith("ops::Deref>::deref") and t[2]:
                t = t[2][0]
            else:
                break
        fields.reverse()          # outermost container first
        root = None
        if t[0] == "call" and "ops::Index" in t[1] and t[2]:
            root = root_of(t[2][0])
        elif t[0] == "call" and t[1].endswith("::next") and t[2]:
            if fields and fields[0] == 0:
                fields = fields[1:]          # the payload of Some(..)
            zips = [x for x in walk(t) if x[0] == "call" and x[1].endswith("Iterator::zip") and len(x[2]) == 2]
            if zips and fields:
                root = root_of(zips[0][2][fields[0]]) if fields[0] in (0, 1) else None
                fields = fields[1:]
            elif not zips:
                root = root_of(t[2][0])
        kind = collection_kind(root)
        if kind == "names":
            return "names[%s]" % nv.local_name(root[1])
        if kind == "file_info":
            return "file_info.%d" % fields[0] if fields and fields[0] in (0, 1) else "?"
        return "?"
    roles = [role(w[3]) if w[0] == "int" else "pad" for w in wseq]
    want_fields = {"pad": None}
    good = len(wseq) == len(rec_reads) == 4
    if good:
        for i, (w, r) in enumerate(zip(wseq, rec_reads)):
            pw = r["width"]
            if w[1] != pw or (w[0] == "int" and w[2] != r["endian"]):
                good = False
    if not good and (any(w[1] is None for w in wseq) or not rec_reads or any(w[0] not in ("pad", "int") for w in wseq)):
        rep.inconc(R1, "record layout not recognised: builder emits per entry %s, parser reads %s" % (wrec, prec))
    elif not good:
        rep.violation(R1, ser.name, "record-shape", "builder emits per entry %s, parser reads %s" % (wrec, prec), wh)
    else:
        expect = [("pad", None), ("names", "name_address"), ("file_info.0", "file_address"), ("file_info.1", "file_size_unpadded")]
        for i, (rl, (wrole, pfield)) in enumerate(zip(roles, expect)):
            got_field = fields.get(i)
            okk = (rl.startswith(wrole) if wrole != "pad" else rl == "pad") and got_field == pfield
            if okk:
                rep.ok(R1, {"record_field": i, "builder": rl, "parser": got_field, "width": wseq[i][1], "endian": wseq[i][2]})
            elif rl == "?" or got_field is None:
                rep.inconc(R1, "record word %d: role of the written value / parsed field not recognised (%s, %s)" % (i, rl, got_field))
            else:
                rep.violation(R1, ser.name, "record-field-%d" % i, "record word %d: builder writes %s, parser stores it as %s (specified: %s / %s)" % (i, rl, got_field, wrole, pfield), wh)
    # ---- R15.2 record size constant ---------------------------------------------------------------
    per_entry = sum(w[1] or 0 for w in wseq)
    stride = sum(r["width"] for r in rec_reads)
    hl = None
    for l in range(len(nv.locals)):
        if nv.is_atom(l) and nv.local_ty(l) == "usize":
            a = affine(("local", l, nv.local_name(l)), nv)
            if a and len(a[0]) == 1 and a[1] and any(len_atom(k) == ("param", 1) or (len_atom(k) and len_atom(k)[0] == "param") for k in a[0]):
                hl = (l, a)
                break
    if hl is None:
        rep.inconc(R2, "header length expression not found")
    else:
        coeff = list(hl[1][0].values())[0]
        base = hl[1][1]
        if coeff == per_entry == stride:
            rep.ok(R2, {"record_size": coeff})
        elif any(w[1] is None for w in wseq) or not wseq or not rec_reads:
            rep.inconc(R2, "bytes appended per entry / consumed per record not recognised (%s, %s)" % (per_entry, stride))
        else:
            rep.violation(R2, ser.name, "record-size", "header length counts %s bytes per entry, builder appends %s, parser consumes %s" % (coeff, per_entry, stride), wh)
        if hsize is not None and base == hsize:
            rep.ok(R2, {"base_header": base})
        elif hsize is None or any(e.get("kind") not in ("int", "byte", "pad") or e.get("width") is None for e in header):
            rep.inconc(R2, "size of the fixed header emitted by the builder not recognised")
        else:
            rep.violation(R2, ser.name, "base-header", "header length assumes a %s-byte base header, builder emits %s" % (base, hsize), wh)
    # ---- R15.3 addresses --------------------------------------------------------------------------------
    if hl is not None:
        HL = ("local", hl[0], nv.local_name(hl[0]))
        text_root = tail[0]["root"] if len(tail) >= 1 else None
        files_root = tail[1]["root"] if len(tail) >= 2 else None
        # name address pushes
        good_name = good_file = good_size = None
        for l in range(len(nv.locals)):
            if not nv.is_atom(l) or not nv.local_ty(l).startswith("std::vec::Vec<"):
                continue
            for bb, sh, args, t in mutations_of(nv, l):
                if sh != "push":
                    continue
                v = args[1]
                if nv.local_ty(l) == "std::vec::Vec<usize>":
                    a = affine(v, nv, expand=True)
                    want = {norm(k): c for k, c in hl[1][0].items()}
                    if a is not None:
                        ks = {k: c for k, c in a[0].items()}
                        la = [k for k in ks if len_atom(k) == text_root]
                        good_name = (len(la) == 1 and ks[la[0]] == 1 and a[1] == hl[1][1] and len(ks) == 2)
                        is_names_vec = any(r_ == "names[%s]" % nv.local_name(l) for r_ in roles)
                        if not good_name and (text_root is None or (not la and not is_names_vec)):
                            good_name = None      # not the name-address push, or the text buffer was not identified
                        # recorded before the name is appended
                        ext = [bb2 for bb2, sh2, a2, t2 in mutations_of(nv, text_root[1]) if sh2 in ("extend", "extend_from_slice") and enclosing_loops(loops, bb2) == enclosing_loops(loops, bb)] if text_root else []
                        if ext and idx.get(bb, 0) > idx.get(ext[0], 0):
                            good_name = False
                elif nv.local_ty(l) == "std::vec::Vec<(usize, usize)>" and v[0] == "agg":
                    fa, fs = v[4]
                    # file address: a loop-carried variable re-assigned to header + text + files after padding
                    good_size = fs[0] == "call" and fs[1].endswith("::len") and any(x[0] == "local" for x in walk(fs)) and root_of(fs[2][0]) not in (files_root, text_root)
                    if fa[0] == "local":
                        dl = fa[1]
                        defs = nv.defs().get(dl, [])
                        forms = []
                        for (bi, si, kind, payload) in defs:
                            if kind == "assign":
                                forms.append(affine(nv.term_of_rvalue(payload["rv"]), nv))
                        def shape(a):
                            if a is None:
                                return None
                            return tuple(sorted((str(len_atom(k)), c) for k, c in a[0].items())), a[1]
                        shapes = set(shape(a) for a in forms)
                        w1 = shape(({**hl[1][0], ("call", "x::len", (("local", text_root[1], ""),)): 1}, hl[1][1])) if text_root else None
                        ok_all = True
                        for a in forms:
                            if a is None:
                                ok_all = False
                                continue
                            roots = {len_atom(k): c for k, c in a[0].items()}
                            if roots.get(text_root) != 1 or a[1] != hl[1][1]:
                                ok_all = False
                        has_files = any(a is not None and {len_atom(k): c for k, c in a[0].items()}.get(files_root) == 1 for a in forms)
                        good_file = ok_all and has_files and len(forms) >= 2
        for nm, g in (("name address = header + names so far", good_name), ("file address = header + names + padded files so far", good_file), ("size = unpadded file length", good_size)):
            if g:
                rep.ok(R3, {"address_rule": nm})
            elif g is None:
                rep.inconc(R3, "not recognised: " + nm)
            else:
                rep.violation(R3, ser.name, "addr:" + nm.split(" =")[0].replace(" ", "-"), "builder does not record %s" % nm, wh)
    # ---- R15.4 alignment -------------------------------------------------------------------------------
    pads = []
    try:
        spaths = enum_paths(ser)
    except PathLimit:
        spaths = []
    seen = set()
    for p in spaths:
        for (bb, term, vals, neg, dty) in p.conds:
            if bb in seen:
                continue
            for x in walk(term):
                if x[0] == "bin" and x[1] == "Rem" and x[3][0] == "const":
                    seen.add(bb)
                    a = affine(x[2], None)
                    pads.append((bb, x[3][1], x[3][3] if len(x[3]) > 3 else None, a, x[2]))
    if len(pads) != 2:
        rep.inconc(R4, "expected two padding loops, found %d" % len(pads))
    else:
        bounds = set(p[1] for p in pads)
        names = set(p[2] for p in pads)
        if bounds == {32}:
            for p in pads:
                rep.ok(R4, {"boundary": p[1], "over": fmt(norm(p[4]))[:80]})
        else:
            rep.violation(R4, ser.name, "boundary", "padding loops use boundaries %s (specified: 32 for both)" % sorted(bounds), wh)
        # absolute offsets: each tested sum must include the header length
        for p in pads:
            if not any(x[0] == "bin" and x[1].startswith("Mul") for x in walk(p[4])) and not any("header" in (x[2] or "") for x in walk(p[4]) if x[0] in ("var", "local")):
                # header length appears through its definition 8 + n*16: look for the multiplication
                rep.violation(R4, ser.name, "relative-padding", "a padding loop aligns %s, which does not include the header length (alignment must be absolute)" % fmt(norm(p[4]))[:80], wh)
        # the file padding loop is inside the per-file loop
        sl = for_loops(ser)
        nested = [p for p in pads if any(lp["kind"] == "for" and p[0] in lp["blocks"] for lp in sl)]
        if len(nested) != 1:
            rep.violation(R4, ser.name, "per-file-padding", "%d padding loop(s) run per file (specified: exactly the file padding)" % len(nested), wh)
    # ---- R15.5 parser ------------------------------------------------------------------------------------
    pw = "%s:%s" % (par.file, par.line)
    try:
        ppaths = enum_paths(par)
    except PathLimit:
        rep.inconc(R5, "parse: too many paths")
        return
    R6 = rep.rule("R15.6", "an entry is rejected exactly when address + size exceeds the image (empty files at the very end are accepted)", floor=1)
    bound_decision(facts, rep, R6, par, ppaths)
    placement_rule(facts, rep, R5, par, ppaths)
    best = None
    sliced = None
    for p in ppaths:
        evs = [e for e in p.events if e["k"] == "call" and e["callee"]]
        sp = [e for e in evs if e["callee"].endswith("Cursor::<T>::set_position")]
        rs = [e for e in evs if "EncodedStringReader>::" in e["callee"]]
        rx = [e for e in evs if e["callee"].endswith("Read>::read_exact")]
        ins = [e for e in evs if e["callee"].endswith("IndexMap::<K, V, S>::insert")]
        if rs and rx and ins:
            best = (p, evs, sp, rs, rx, ins)
        elif rs and ins and best is None and sliced is None:
            # the body taken as a slice of the image (`raw[start..end].to_vec()`) instead of seek + read_exact
            for x in walk(ins[-1]["args"][2]) if len(ins[-1]["args"]) > 2 else ():
                if x[0] == "call" and "ops::Index" in x[1] and len(x[2]) == 2 and strip_refs(x[2][0])[0] == "param" and strip_refs(x[2][1])[0] == "agg" \
                        and (strip_refs(x[2][1])[2] or "").endswith("ops::Range") and len(strip_refs(x[2][1])[4]) == 2:
                    sliced = (p, evs, sp, rs, ins, strip_refs(x[2][1])[4])
    if best is None and sliced is not None:
        p, evs, sp, rs, ins, (st_, en_) = sliced

        def field_of_(t):
            for x in walk(t):
                if x[0] == "field" and len(x) > 4 and x[4] and str(x[4]).startswith("mila::fe9_arc::"):
                    return x[2]
            return None
        i_name = evs.index(rs[0])
        before_name = [e for e in sp if evs.index(e) < i_name]
        if before_name and field_of_(before_name[-1]["args"][1]) == "name_address":
            rep.ok(R5, {"seek": "name_address before reading the name"})
        elif before_name:
            rep.violation(R5, par.name, "seek-name", "the name is read at %s, not at the record's name address" % fmt(before_name[-1]["args"][1])[:50], pw)
        else:
            rep.inconc(R5, "parse: where the name read is positioned was not recognised")
        a_s, a_e = affine(st_, None), affine(en_, None)
        fa = [k for k in (a_s[0] if a_s else {}) if field_of_(k) == "file_address" or any(x[0] == "field" and x[2] == "file_address" for x in walk(k))]
        names_in = lambda t: set(x[2] for x in walk(t) if x[0] == "field" and isinstance(x[2], str) and x[2] in ("file_address", "file_size_unpadded", "name_address"))
        if a_s is not None and a_e is not None and len(a_s[0]) == 1 and fa and a_s[1] == 0:
            rep.ok(R5, {"body_from": "image[file_address ..]"})
            d = {k: a_e[0].get(k, 0) - a_s[0].get(k, 0) for k in set(a_s[0]) | set(a_e[0])}
            d = {k: v for k, v in d.items() if v}
            if len(d) == 1 and list(d.values()) == [1] and "file_size_unpadded" in names_in(list(d)[0]) and a_e[1] == a_s[1]:
                rep.ok(R5, {"body_length": "file_size_unpadded"})
            elif "file_size_unpadded" not in names_in(en_) and names_in(en_):
                rep.violation(R5, par.name, "body-length", "the body is image[%s .. %s]: its end does not depend on the record's size" % (fmt(st_)[:40], fmt(en_)[:40]), pw)
            else:
                rep.inconc(R5, "parse: the length of the sliced body (%s .. %s) was not recognised" % (fmt(st_)[:30], fmt(en_)[:30]))
        elif names_in(st_) and "file_address" not in names_in(st_):
            rep.violation(R5, par.name, "seek-file", "the body is sliced from %s, not from the record's file address" % fmt(st_)[:50], pw)
        else:
            rep.inconc(R5, "parse: the sliced range of the body was not recognised (%s .. %s)" % (fmt(st_)[:40], fmt(en_)[:40]))
        rt = par.local_ty(0)
        if "indexmap::IndexMap<" in rt and any(x == rs[0]["val"] for x in walk(ins[-1]["args"][1])):
            rep.ok(R5, {"result": "IndexMap filled in record order with (name, body)"})
        else:
            rep.inconc(R5, "parse: the (name, body) pair inserted was not recognised")
        return
    if best is None:
        # names read in a loop that never positions the cursor: they are taken back to back from wherever the first
        # one was, and the recorded name address of every later entry is ignored
        lps = for_loops(par)
        for lp in lps:
            blocks = set(lp["blocks"])
            reads = [bb for bb, t in par.calls() if bb in blocks and "EncodedStringReader>::" in (callee_names(t)[1] or "")]
            moves = [bb for bb, t in par.calls() if bb in blocks and (callee_names(t)[1] or "").rsplit("::", 1)[-1] in ("set_position", "seek")]
            if reads and not moves:
                rep.violation(R5, par.name, "names-back-to-back", "a loop reads the entry names one after the other without positioning the cursor at each entry's recorded name address: a conforming image whose names are stored in another order, or apart from each other, gives the entries the wrong names", pw)
                return
        rep.inconc(R5, "parse: extraction loop not recognised")
        return
    p, evs, sp, rs, rx, ins = best

    def field_of(t):
        for x in walk(t):
            if x[0] == "field" and len(x) > 4 and x[4] and str(x[4]).startswith("mila::fe9_arc::"):
                return x[2]
        return None
    order = [evs.index(e) for e in sp]
    i_name = evs.index(rs[0])
    i_read = evs.index(rx[0])
    before_name = [e for e in sp if evs.index(e) < i_name]
    before_read = [e for e in sp if i_name < evs.index(e) < i_read]
    if before_name and field_of(before_name[-1]["args"][1]) == "name_address":
        rep.ok(R5, {"seek": "name_address before reading the name"})
    else:
        rep.violation(R5, par.name, "seek-name", "the name is read at %s, not at the record's name address" % (fmt(before_name[-1]["args"][1])[:50] if before_name else "the running position"), pw)
    if before_read and field_of(before_read[-1]["args"][1]) == "file_address":
        rep.ok(R5, {"seek": "file_address before reading the body"})
    else:
        rep.violation(R5, par.name, "seek-file", "the body is read at %s, not at the record's file address" % (fmt(before_read[-1]["args"][1])[:50] if before_read else "the running position"), pw)
    buf = rx[0]["args"][1]
    size_ok = any(x[0] == "call" and x[1].endswith("from_elem") and field_of(x[2][1]) == "file_size_unpadded" for x in walk(buf))
    if size_ok:
        rep.ok(R5, {"body_length": "file_size_unpadded"})
    else:
        rep.violation(R5, par.name, "body-length", "the body buffer is %s, not `size` bytes" % fmt(buf)[:60], pw)
    rt = par.local_ty(0)
    k = ins[0]["args"][1]
    v = ins[0]["args"][2]
    if "indexmap::IndexMap<" in rt and any(x == rs[0]["val"] for x in walk(k)) and norm(strip_refs(v)) == norm(strip_refs(buf)):
        rep.ok(R5, {"result": "IndexMap filled in record order with (name, body)"})
    else:
        rep.violation(R5, par.name, "result", "result type %s / inserted (%s, %s)" % (rt[:50], fmt(k)[:30], fmt(v)[:30]), pw)


def placement_rule(facts, rep, R5, par, ppaths):
    """The parser goes by the recorded addresses: an image is not rejected for *where* its names lie relative to its
    bodies.  Witness: an error return guarded by a comparison of a record's name address with a quantity computed
    from file addresses (directly, or through a closure that reads them), or the other way round -- an image with the
    names behind the bodies conforms and is refused."""
    def closure_fields(t):
        out = set()
        for x in walk(t):
            if x[0] == "agg" and x[1] == "closure" and x[2] in facts.bodies:
                cb = facts.bodies[x[2]]
                for blk in cb.blocks:
                    for st in blk["stmts"]:
                        if st["k"] != "assign":
                            continue
                        for y in walk(cb.term_of_rvalue(st["rv"])):
                            if y[0] == "field" and isinstance(y[2], str):
                                out.add(y[2])
        return out
    NA, FA = "name_address", "file_address"
    for p in ppaths:
        if p.end != "ret" or is_err_term(p.ret) is not True:
            continue
        for (bb, term, vals, neg, dty) in p.conds:
            if dty != "bool" or strip_refs(term)[0] != "bin" or strip_refs(term)[1] not in ("Lt", "Le", "Gt", "Ge"):
                continue
            t = strip_refs(term)
            sides = []
            for s_ in (t[2], t[3]):
                direct = {x[2] for x in walk(s_) if x[0] == "field" and isinstance(x[2], str) and x[2] in (NA, FA)}
                sides.append((direct, closure_fields(s_) & {NA, FA}))
            for i in (0, 1):
                mine, other = sides[i], sides[1 - i]
                if mine[0] == {NA} and not mine[1] and FA in (other[0] | other[1]) and NA not in (other[0] | other[1]):
                    rep.violation(R5, par.name, "placement-check",
                                  "an error return is guarded by %s: a record's name address is compared with a bound computed from the file addresses -- a conforming image that stores its names behind (or between) the bodies is rejected, the property asks for the same files wherever names and bodies are placed" % fmt(term)[:110],
                                  "%s:%s" % (par.file, par.line))
                    return


def bound_decision(facts, rep, R6, par, ppaths):
    """An entry is rejected exactly when its recorded range [address, address + size) leaves the image.  The
    comparisons on the paths through one iteration of the extraction loop are evaluated at class representatives
    (address, size, image length); reads are assumed to succeed."""
    A, Z, L = "file_address", "file_size_unpadded", "len"

    def val(t, env):
        t = strip_refs(t)
        while t[0] in ("cast", "deref"):
            t = strip_refs(t[1])
        if t[0] == "const" and isinstance(t[1], int) and not isinstance(t[1], bool):
            return t[1]
        if t[0] == "field" and t[2] in (A, Z):
            return env[t[2]]
        if t[0] == "call" and t[1].rsplit("::", 1)[-1] == "len" and t[2] and strip_refs(t[2][0])[0] == "param":
            return env[L]
        if t[0] == "call" and t[1].rsplit("::", 1)[-1] == "len" and t[2] and any(
                x[0] == "call" and x[1].rsplit("::", 1)[-1] in ("get_ref", "into_inner") and "Cursor" in x[1] for x in walk(t[2][0])):
            return env[L]      # the image as held by the cursor that reads it
        if t[0] == "un" and t[1] == "PtrMetadata":
            return env[L]
        if t[0] == "call" and t[1].rsplit("::", 1)[-1] in ("from", "into") and len(t[2]) == 1:
            return val(t[2][0], env)
        if t[0] == "field" and t[3] == 0 and t[1][0] == "bin" and t[1][1].endswith("WithOverflow"):
            t = ("bin", t[1][1].replace("WithOverflow", ""), t[1][2], t[1][3])
        if t[0] == "bin":
            a, b = val(t[2], env), val(t[3], env)
            if a is None or b is None:
                return None
            op = t[1].replace("WithOverflow", "").replace("Unchecked", "")
            try:
                return {"Add": a + b, "Sub": a - b, "Mul": a * b, "Eq": a == b, "Ne": a != b, "Lt": a < b, "Le": a <= b, "Gt": a > b, "Ge": a >= b}.get(op)
            except TypeError:
                return None
        if t[0] == "call" and t[1].rsplit("::", 1)[-1] in ("checked_add", "saturating_add") and len(t[2]) == 2:
            a, b = val(t[2][0], env), val(t[2][1], env)
            return None if a is None or b is None else a + b
        return None

    def mentions(t):
        return any(x[0] == "field" and x[2] in (A, Z) for x in walk(t))
    # paths through the loop body: those whose conditions mention the entry's fields
    cands = [p for p in ppaths if any(mentions(c[1]) for c in p.conds)]
    if not cands:
        rep.inconc(R6, "parse: no comparison on the entry's address / size found")
        return
    grid = [(a, z, l) for l in (0, 32, 64) for a in (0, 31, 32, 33, 63, 64, 65, 96) for z in (0, 1, 31, 32, 33, 64)]
    bad = {}
    decided = 0
    for (a, z, l) in grid:
        env = {A: a, Z: z, L: l}
        valid = a + z <= l
        rejected = accepted = False
        undec = False
        for p in cands:
            holds = True
            for (bb, term, vals, neg, dty) in p.conds:
                if not mentions(term) or dty != "bool":
                    continue
                v = val(term, env)
                if v is None:
                    holds = None
                    break
                if (int(bool(v)) in vals) == neg:
                    holds = False
                    break
            if holds is None:
                undec = True
                continue
            if not holds:
                continue
            is_err = p.end == "ret" and is_err_term(p.ret) is True and any(x[0] == "agg" and x[3] == "ArchiveTooSmall" for x in walk(p.ret))
            if is_err:
                rejected = True
            elif p.end in ("loop", "ret"):
                accepted = True
        if undec:
            continue
        decided += 1
        if valid and rejected and not accepted:
            bad.setdefault("rejects-valid", (a, z, l))
        if not valid and accepted and not rejected:
            bad.setdefault("accepts-invalid", (a, z, l))
    if decided < 20:
        rep.inconc(R6, "parse: the range check could be evaluated at only %d of %d class representatives" % (decided, len(grid)))
    for kd, (a, z, l) in sorted(bad.items()):
        rep.violation(R6, par.name, kd, "parse %s: an entry with file address %d and size %d in an image of %d bytes (specified: rejected exactly when address + size exceeds the image; an empty file may sit at the very end)" % (
            kd.replace("-", " a ") + " entry", a, z, l), "%s:%s" % (par.file, par.line))
    if not bad and decided >= 20:
        rep.ok(R6, {"fn": par.name, "range_check": "address + size <= image length", "classes": decided})

