"""C06 — text archive round trip preserves title, key order and every message."""
from mir import fmt, walk, strip_refs, callee_names, norm
from flow import enum_paths, PathLimit, variant_name, cond_truth
from c04 import is_err_term
from binser import root_of, affine, fmt_affine

EXPLANATION = ("Codec duality per text-archive format: each string writer and reader is characterised from its MIR "
               "(encoding static, terminator width, padding modulus, BOM handling) and the (writer, reader) pair used "
               "for the title and for the messages of each format must agree; label offset is captured before the "
               "message is written and the reader takes the key at the cursor before reading the message.")
ASSUMPTIONS = ["encoding_rs encode/decode and str::encode_utf16 are mutually inverse on the property's string domain"]

TA = "mila::text_archive::TextArchive"
FMT = "mila::text_archive::TextArchiveFormat"


def statics_in(body, facts, depth=0, seen=None):
    """encoding statics referenced by a body or its local callees/closures."""
    out = set()
    seen = seen or set()
    if body.id in seen or depth > 4:
        return out
    seen.add(body.id)
    for bi, si, s in body.stmts():
        if s["k"] == "assign" and s["rv"]["k"] == "use" and "k" in s["rv"]["a"]:
            v = (s["rv"]["a"]["k"].get("val") or {})
            if v.get("kind") == "ptr_static":
                out.add(v["def"])
    for f in facts.callees(body):
        cb = facts.bodies.get(f.get("res_id") or f.get("def_id"))
        if cb is not None:
            out |= statics_in(cb, facts, depth + 1, seen)
    return out


def callee_set(body, facts, depth=0, seen=None):
    out = set()
    seen = seen if seen is not None else set()
    if body.id in seen or depth > 4:
        return out
    seen.add(body.id)
    for f in facts.callees(body):
        out.add(f.get("res") or f.get("def"))
        cb = facts.bodies.get(f.get("res_id") or f.get("def_id"))
        if cb is not None:
            out |= callee_set(cb, facts, depth + 1, seen)
    return out


def characterise_writer(facts, wb):
    """(encoding, unit_order, terminator_width, pad_modulus, pad fill) of a string writer fn(&mut Vec<u8>, &str).
    Recognised spellings: terminator by push(0) / extend_from_slice(&[0; k]); padding by a `while len % M != 0
    { push(0) }` loop or by `resize(len + (M - len % M), 0)` under `len % M != 0`.  'unknown' carries the reason
    when the bytes after the encoded text are produced some other way."""
    try:
        paths = enum_paths(wb)
    except PathLimit:
        return None
    done = [p for p in paths if p.end == "ret" and is_err_term(p.ret) is False]
    if not done:
        return None
    enc = None
    zeros = None
    pad_mod = None
    pad_zero = False
    unknown = None
    wrong = None
    wrong_enc = None
    loops = [q for q in paths if q.end == "loop"]

    def after_encoded(p):
        """events after the first append of the encoded text"""
        seen = False
        out = []
        e_enc = None
        for e in p.events:
            if e["k"] != "call" or not e["callee"]:
                continue
            sh = e["callee"].rsplit("::", 1)[-1]
            if not seen and sh in ("extend", "extend_from_slice", "append"):
                seen = True
                for x in walk(e["args"][1]):
                    if x[0] == "call" and x[1].startswith("mila::encoded_strings::"):
                        e_enc = x[1]
                continue
            if seen:
                out.append(e)
        return e_enc, out
    zs = set()
    for p in done:
        e_enc, evs = after_encoded(p)
        enc = enc or e_enc
        z = 0
        rem_true = None
        for (bb, term, vals, neg, dty) in p.conds:
            ct = cond_truth((term, vals, neg, dty))
            for x in walk(term):
                if x[0] == "bin" and x[1] == "Rem" and x[3][0] == "const" and any(y[0] == "call" and y[1].endswith("::len") for y in walk(x[2])):
                    if pad_mod is not None and pad_mod != x[3][1]:
                        unknown = "two padding moduli"
                    pad_mod = x[3][1]
                    if ct and ct[0][0] == "bin" and ct[0][3][:2] == ("const", 0):
                        rem_true = ((ct[0][1] == "Ne") == ct[1])
        for e in evs:
            sh = e["callee"].rsplit("::", 1)[-1]
            a = e["args"]
            if sh == "push" and a[1] == ("const", 0, "u8"):
                z += 1
            elif sh in ("extend_from_slice", "extend") and len(a) > 1:
                src = strip_refs(a[1])
                while src[0] == "cast":
                    src = strip_refs(src[1])
                if src[0] == "const" and isinstance(src[1], (bytes, bytearray)) and not any(src[1]):
                    z += len(src[1])
                elif src[0] == "agg" and src[1] == "array" and all(x == ("const", 0, "u8") for x in src[4]):
                    z += len(src[4])
                else:
                    unknown = "bytes appended after the text from %s" % fmt(a[1])[:50]
            elif sh == "resize" and len(a) == 3:
                # closed-form padding: new length = len + (M - len % M) when len % M != 0
                af = affine(a[1], None)
                ok = False
                if af is not None and rem_true:
                    lens = [k for k in af[0] if k[0] == "call" and k[1].endswith("::len")]
                    rems = [k for k in af[0] if k[0] == "bin" and k[1] == "Rem" and k[3][:2] == ("const", pad_mod)]
                    if len(lens) == 1 and len(rems) == 1 and len(af[0]) == 2 and af[0][lens[0]] == 1 and af[0][rems[0]] == -1 and af[1] == pad_mod:
                        ok = True
                if ok:
                    pad_zero = pad_zero or a[2] == ("const", 0, "u8")
                    if a[2] != ("const", 0, "u8"):
                        unknown = None
                        pad_zero = False
                elif af is not None and any(k[0] == "call" and k[1].endswith("::len") and norm(strip_refs(k[2][0])) == norm(strip_refs(a[0])) for k in af[0]) \
                        and all(k[0] in ("call", "bin") for k in af[0]) \
                        and not any(k[0] == "bin" and k[1] == "Rem" and any(y[0] == "call" and y[1].endswith("::len") and norm(strip_refs(y[2][0])) == norm(strip_refs(a[0])) for y in walk(k)) for k in af[0]):
                    # buffer length plus something that does not depend on the buffer length modulo M
                    wrong = "grows the buffer to %s: the amount is not computed from the buffer's own length, so the end is not a multiple of the reader's modulus" % fmt_affine(af)[:90]
                else:
                    unknown = "resize to %s" % fmt(a[1])[:60]
            elif sh in ("push", "insert", "truncate", "extend", "append"):
                unknown = "buffer changed by %s(%s)" % (sh, ", ".join(fmt(x)[:20] for x in a[1:]))
        zs.add(z)
    if len(zs) == 1:
        zeros = zs.pop()
    else:
        unknown = unknown or "terminator width differs between paths: %s" % sorted(zs)
    # the padding loop pushes zeros too
    for q in loops:
        for (bb, term, vals, neg, dty) in q.conds:
            for x in walk(term):
                if x[0] == "bin" and x[1] == "Rem" and x[3][0] == "const" and any(y[0] == "call" and y[1].endswith("::len") for y in walk(x[2])):
                    pad_mod = x[3][1]
        n0 = min(len(p.events) for p in done)
        if any(e["k"] == "call" and e["callee"] and e["callee"].endswith("::push") and e["args"][1] == ("const", 0, "u8") for e in q.events[n0 - 1:]):
            pad_zero = True
    pad_push = pad_zero
    zeros = zeros if zeros is not None else 0
    encoding = None
    units = None
    if enc:
        eb = facts.body(enc)
        if eb is not None:
            st = statics_in(eb, facts)
            cs = callee_set(eb, facts)
            if "encoding_rs::SHIFT_JIS" in st:
                encoding = "SHIFT_JIS"
                units = 1
                strict = any(c and c.endswith("Encoding::encode") for c in cs)
            elif any(c and c.endswith("<impl str>::encode_utf16") for c in cs):
                le = any(c and c.endswith("<impl u16>::to_le_bytes") for c in cs)
                be = any(c and c.endswith("<impl u16>::to_be_bytes") for c in cs)
                encoding = "UTF_16LE" if le and not be else ("UTF_16BE" if be else "UTF_16?")
                units = 2
                # byte order of the two pushes: entry[0] then entry[1]
                order = []
                for bb, t in eb.calls():
                    nm = callee_names(t)[1] or ""
                    if nm.endswith("::push") and len(t["args"]) > 1:
                        a = eb.term_of_operand(t["args"][1])
                        for x in walk(a):
                            if x[0] == "index" and x[2][0] == "const":
                                order.append(x[2][1])
                if order and order != sorted(order):
                    encoding += "(bytes swapped)"
                # a fixed-size output measured in code points and filled with code units
                for bb, t in eb.calls():
                    nm = callee_names(t)[1] or ""
                    size_t = None
                    if nm.endswith("vec::from_elem") and len(t["args"]) == 2:
                        size_t = eb.term_of_operand(t["args"][1])
                    elif nm.rsplit("::", 1)[-1] == "resize" and len(t["args"]) >= 2 and "Vec" in nm:
                        size_t = eb.term_of_operand(t["args"][1])
                    if size_t is not None and any(x[0] == "call" and x[1].rsplit("::", 1)[-1] == "count" and any(
                            y[0] == "call" and y[1].endswith("<impl str>::chars") for y in walk(x)) for x in walk(size_t)):
                        grows = any((callee_names(t2)[1] or "").rsplit("::", 1)[-1] in ("push", "extend", "extend_from_slice") and "Vec" in (callee_names(t2)[1] or "") for bb2, t2 in eb.calls())
                        if not grows:
                            wrong_enc = "the output is created with chars().count() units and then filled from encode_utf16(): a character outside the BMP is one char but two UTF-16 units, so the tail of such a message is cut off"
            else:
                # a hand-written encoder: `char as u16` keeps the low 16 bits only (no surrogate pairs)
                bodies = [eb] + list(facts.closures_of(eb))
                for vb in bodies:
                    for bi_, si_, st_ in vb.stmts():
                        if st_["k"] == "assign" and st_["rv"]["k"] == "cast" and st_["rv"].get("from") == "char" and st_["rv"].get("ty") in ("u16", "u8", "i16"):
                            from flow import dom_guards as _dg
                            guarded = any(any(x[0] == "const" and isinstance(x[1], int) and x[1] in (0xFFFF, 0x10000, 0xD800, 0xD7FF) for x in walk(c_[0])) for (a_, s_, c_) in _dg(vb, bi_))
                            if not guarded:
                                wrong_enc = "each character is written as `char as %s`: a code point above U+FFFF loses its high bits instead of becoming a surrogate pair" % st_["rv"].get("ty")
                                encoding = "UTF_16LE" if any(c and c.endswith("<impl u16>::to_le_bytes") for c in cs) else "UTF_16?"
    return {"encoding": encoding, "terminator": zeros, "pad": pad_mod, "pad_pushes_zero": pad_push, "encoder": enc, "unknown": unknown, "wrong": wrong, "wrong_enc": wrong_enc}


def untested_reads(ip):
    """A terminator scan over 1-byte units: every byte consumed is compared with the terminator before the next one
    is read.  On a path that does not end in an error, more unit reads than comparisons with zero means some byte is
    swallowed unseen -- if it is the terminator, the string runs on into what follows.  Returns a witness or None."""
    for p in ip:
        if p.end == "ret" and is_err_term(p.ret) is not False:
            continue
        reads = len([e for e in p.events if e["k"] == "call" and e["callee"] and e["callee"].endswith("FnMut::call_mut")])
        tests = 0
        for (bb, t, vals, neg, dty) in p.conds:
            if t[0] == "bin" and t[1] in ("Eq", "Ne") and t[3][:2] == ("const", 0) and any(
                    x[0] == "call" and x[1].endswith("FnMut::call_mut") for x in walk(t[2])):
                tests += 1
        if reads > tests and tests >= 1:
            others = [fmt(t)[:50] for (bb, t, vals, neg, dty) in p.conds if not (t[0] == "bin" and t[1] in ("Eq", "Ne") and t[3][:2] == ("const", 0)) and t[0] != "discr"]
            return "a pass through the scan loop reads %d byte(s) and compares %d with the terminator%s: a NUL in the uncompared position is swallowed and the string runs on" % (
                reads, tests, (" (taken when %s)" % others[0]) if others else "")
    return None


def characterise_reader(facts, rb):
    """(encoding, terminator width, pad modulus, bom) of an EncodedStringReader method on BinArchiveReader."""
    try:
        paths = enum_paths(rb)
    except PathLimit:
        return None
    impl = None
    pad_mod = None
    skips = False
    skip_unknown = None
    for p in paths:
        for e in p.events:
            if e["k"] == "call" and e["callee"] and e["callee"].startswith("mila::encoded_strings::") and e["callee"] != rb.name:
                impl = e["callee"]
            if e["k"] == "call" and e["callee"] and e["callee"].endswith("::skip") and e["args"][1] == ("const", 1, "usize"):
                skips = True
            elif e["k"] == "call" and e["callee"] and e["callee"].endswith("::skip") and len(e["args"]) == 2:
                # closed form: skip(M - tell % M) under tell % M != 0
                af = affine(e["args"][1], None)
                rem_true = None
                m_ = None
                for (bb, term, vals, neg, dty) in p.conds:
                    ct = cond_truth((term, vals, neg, dty))
                    if ct and ct[0][0] == "bin" and ct[0][3][:2] == ("const", 0) and ct[0][2][0] == "bin" and ct[0][2][1] == "Rem" and ct[0][2][3][0] == "const" \
                            and any(y[0] == "call" and y[1].endswith("::tell") for y in walk(ct[0][2][2])):
                        rem_true = ((ct[0][1] == "Ne") == ct[1])
                        m_ = ct[0][2][3][1]
                if af is not None and rem_true and len(af[0]) == 1 and af[1] == m_:
                    (atom, coef), = af[0].items()
                    if coef == -1 and atom[0] == "bin" and atom[1] == "Rem" and atom[3][:2] == ("const", m_) and any(y[0] == "call" and y[1].endswith("::tell") for y in walk(atom[2])):
                        skips = True
                    else:
                        skip_unknown = fmt(e["args"][1])[:50]
                else:
                    skip_unknown = fmt(e["args"][1])[:50]
        for (bb, term, vals, neg, dty) in p.conds:
            for x in walk(term):
                if x[0] == "bin" and x[1] == "Rem" and x[3][0] == "const" and any(y[0] == "call" and y[1].endswith("::tell") for y in walk(x[2])):
                    pad_mod = x[3][1]
    from padform import closed_form_padding
    closed = closed_form_padding(paths)
    pad_wrong_by_unit = {}
    if closed is not None:
        _ok_any, skip_unknown, pad_wrong_by_unit = closed
    if impl is None:
        # no byte-level decoder behind it: a reader that assembles 16-bit units itself with the archive's
        # endian-aware accessor decodes in the *archive's* byte order
        names = set((callee_names(t)[1] or callee_names(t)[0] or "") for bb, t in rb.calls())
        u16s = [n for n in names if n.endswith("BinArchiveReader::<'a>::read_u16") or n.endswith("BinArchive::read_u16")]
        dec16 = [n for n in names if n.endswith("String::from_utf16") or n.endswith("String::from_utf16_lossy") or n.endswith("char::decode_utf16")]
        if u16s and dec16:
            if closed is not None:
                skips = skip_unknown is None and 2 not in pad_wrong_by_unit
            return {"encoding": "UTF_16(archive endianness)", "terminator": 2, "reads_per_unit": 2, "pad": pad_mod, "pad_skips": skips,
                    "bom_sniffing": False, "decoders": sorted(dec16), "impl": rb.name, "unknown": None if skips else skip_unknown}
        return None
    ib = facts.body(impl)
    if ib is None:
        return None
    st = statics_in(ib, facts)
    encoding = "SHIFT_JIS" if "encoding_rs::SHIFT_JIS" in st else ("UTF_16LE" if "encoding_rs::UTF_16LE" in st else ("UTF_16BE" if "encoding_rs::UTF_16BE" in st else None))
    dec = [c for c in callee_set(ib, facts) if c and c.startswith("encoding_rs::Encoding::decode")]
    bom = any(c == "encoding_rs::Encoding::decode" or c.endswith("decode_with_bom_removal") for c in dec)
    # terminator: on the path that leaves the loop normally, how many unit reads are compared with zero
    try:
        ip = enum_paths(ib)
    except PathLimit:
        return None
    unit16 = None
    if encoding is None and any(c and (c.endswith("String::from_utf16") or c.endswith("String::from_utf16_lossy") or c.endswith("char::decode_utf16"))
                                for c in callee_set(ib, facts)):
        # the helper decodes whole 16-bit code units; their byte order is decided where the caller reads them:
        # the closure handed over by this reader
        srcs = set()
        for blk in rb.blocks:
            for st_ in blk["stmts"]:
                if st_["k"] != "assign":
                    continue
                for x in walk(rb.term_of_rvalue(st_["rv"])):
                    if x[0] == "agg" and x[1] == "closure" and x[2] in facts.bodies:
                        for bb_, t_ in facts.bodies[x[2]].calls():
                            n_ = callee_names(t_)[1] or callee_names(t_)[0] or ""
                            if n_.endswith("BinArchiveReader::<'a>::read_u16") or n_.endswith("BinArchive::read_u16"):
                                srcs.add("UTF_16(archive endianness)")
                            elif n_.endswith("ReadBytesExt::read_u16"):
                                g_ = str(t_["fn"]["k"].get("gargs") if isinstance(t_.get("fn"), dict) and isinstance(t_["fn"].get("k"), dict) else "")
                                srcs.add("UTF_16LE" if "LittleEndian" in g_ else ("UTF_16BE" if "BigEndian" in g_ else "?"))
        if len(srcs) == 1 and "?" not in srcs:
            encoding = srcs.pop()
            unit16 = True
    term = None
    for p in ip:
        if p.end == "ret" and is_err_term(p.ret) is False:
            zero_tests = 0
            for (bb, t, vals, neg, dty) in p.conds:
                if t[0] == "bin" and t[1] == "Eq" and t[3] == ("const", 0, "u8") and ((vals == (0,)) == neg):
                    zero_tests += 1
                elif t[0] == "call" and t[1].rsplit("::", 1)[-1] == "eq" and len(t[2]) == 2 and ((vals == (0,)) == neg):
                    # `unit == [0, 0]`
                    for a in t[2]:
                        a = strip_refs(a)
                        if a[0] == "const" and isinstance(a[1], (bytes, bytearray)) and not any(a[1]):
                            zero_tests += len(a[1])
                        elif a[0] == "agg" and a[1] == "array" and all(x[:2] == ("const", 0) for x in a[4]):
                            zero_tests += len(a[4])
            reads = len([e for e in p.events if e["k"] == "call" and e["callee"] and e["callee"].endswith("FnMut::call_mut")])
            term = (zero_tests, reads)
            if unit16:
                z16 = [1 for (bb, t, vals, neg, dty) in p.conds if dty == "u16" and ((0 in vals) != neg)]
                z16 += [1 for (bb, t, vals, neg, dty) in p.conds if t[0] == "bin" and t[1] == "Eq" and t[3][:2] == ("const", 0) and len(t[3]) > 2 and t[3][2] == "u16" and ((vals == (0,)) == neg)]
                term = (2 * len(z16), 2 * reads) if z16 else term
    unit_ = 2 if (encoding or "").startswith("UTF_16") else 1
    untested = untested_reads(ip) if unit_ == 1 else None
    if closed is not None:
        skips = skip_unknown is None and unit_ not in pad_wrong_by_unit
    return {"encoding": encoding, "terminator": term[0] if term else None, "reads_per_unit": term[1] if term else None,
            "pad": pad_mod, "pad_skips": skips, "bom_sniffing": bom, "decoders": sorted(dec), "impl": impl,
            "unknown": None if skips else skip_unknown, "pad_wrong": pad_wrong_by_unit.get(unit_), "untested_read": untested}


def run(facts, rep, ctx):
    R1 = rep.rule("R06.1", "codec duality: per format, title and message writer/reader agree on encoding and terminator width", floor=3)
    R2 = rep.rule("R06.2", "writer pads to the modulus the reader skips to (4), after the terminator", floor=2)
    R3 = rep.rule("R06.3", "label offset is taken before the message write; reader takes the key at the cursor before the message", floor=2)
    R4 = rep.rule("R06.4", "string readers do not sniff a BOM", floor=1)
    R6 = rep.rule("R06.6", "archive adders under the text-archive writer (write_label for keys, write_string): payload stored on every non-error path, no payload-dependent refusal, no removal keyed on the payload", floor=2)
    import annot
    annot.contract(facts, rep, R6, ("write_label", "write_string"))
    ser = facts.body(TA + "::serialize")
    par = facts.body(TA + "::from_archive")
    if ser is None or par is None or not ser.pub or not par.pub:
        rep.inconc(R1, "anchors TextArchive::serialize / from_archive missing")
        return
    R5 = rep.rule("R06.5", "the empty archive serializes: an empty text image is never handed to a positional write that rejects it", floor=1)
    empty_image_rule(facts, rep, R5, ser)
    fadt = facts.adts.get(FMT)
    if not fadt:
        rep.inconc(R1, "TextArchiveFormat ADT missing")
        return
    fv = {v["discr"]: v["name"] for v in fadt["variants"]}

    indirect = set()

    def per_format(body, is_writer):
        """format -> {'title': set(callee), 'message': set(callee)} from the calls guarded by the format."""
        out = {n: {"title": set(), "message": set()} for n in fv.values()}
        try:
            paths = enum_paths(body)
        except PathLimit:
            return None
        for p in paths:
            fmts = set(fv.values())
            for (bb, term, vals, neg, dty) in p.conds:
                if term[0] == "discr" and any(x[0] == "field" and x[2] == "format" for x in walk(term)) or \
                        (term[0] == "discr" and strip_refs(term[1])[0] == "param" and body.local_ty(strip_refs(term[1])[1]).endswith("TextArchiveFormat")):
                    names = set(fv[v] for v in vals if v in fv)
                    fmts = fmts - names if neg else fmts & names
            in_loop = False
            for e in p.events:
                if e["k"] != "call":
                    continue
                c = e["callee"]
                if not c and e["val"][0] == "callind":
                    # a call through a function pointer whose target is known on this path
                    ft = strip_refs(e["val"][1])
                    while ft[0] == "cast":
                        ft = strip_refs(ft[1])
                    if ft[0] == "fn":
                        c = ft[1]
                    else:
                        indirect.add(body.name)
                if not c:
                    continue
                if c.endswith("Iterator>::next") or c.endswith("::tell"):
                    in_loop = True
                is_codec = (is_writer and c.startswith("mila::text_archive::write_")) or \
                    (not is_writer and "EncodedStringReader>::" in c)
                if is_codec:
                    for f in fmts:
                        out[f]["message" if in_loop else "title"].add(c)
        return out
    def encoders_in(body):
        return any((c or "").startswith("mila::encoded_strings::to_") for c in callee_set(body, facts))
    w = per_format(ser, True)
    r = per_format(par, False)
    if w is None or r is None:
        rep.inconc(R1, "serialize/from_archive: too many paths")
        return
    wchar = {}
    rchar = {}
    for f in fv.values():
        for role in ("title", "message"):
            ws, rs = w[f][role], r[f][role]
            key = "%s/%s" % (f, role)
            if not ws and not rs:
                continue
            if (len(ws) != 1 and ser.name in indirect) or (len(rs) != 1 and par.name in indirect):
                rep.inconc(R1, "%s: codec called through a pointer that is not resolved" % key)
                continue
            if (not ws and encoders_in(ser)) or (not rs and any("EncodedStringReader" in (c or "") or "encoded_strings::read_" in (c or "") for c in callee_set(par, facts))):
                # the codec is reached some other way (merged / inlined writers): not "no codec"
                rep.inconc(R1, "%s: the %s is not one of the recognised per-format helpers" % (key, "writer" if not ws else "reader"))
                continue
            if len(ws) != 1 or len(rs) != 1:
                rep.violation(R1, ser.name if len(ws) != 1 else par.name, "pairing:" + key, "%s: writer uses %s, reader uses %s" % (key, sorted(ws) or "nothing", sorted(rs) or "nothing"), "%s:%s" % (ser.file, ser.line))
                continue
            wn, rn = list(ws)[0], list(rs)[0]
            if wn not in wchar:
                wb = facts.body(wn)
                wchar[wn] = characterise_writer(facts, wb) if wb else None
            if rn not in rchar:
                rb = facts.body(rn)
                rchar[rn] = characterise_reader(facts, rb) if rb else None
            wc, rc = wchar[wn], rchar[rn]
            if not wc or not rc or wc["encoding"] is None or rc["encoding"] is None:
                rep.inconc(R1, "%s: writer/reader not characterised (%s / %s)" % (key, wc, rc))
                continue
            if wc.get("unknown"):
                rep.inconc(R1, "%s: writer %s: %s" % (key, wn.rsplit("::", 1)[-1], wc["unknown"]))
                continue
            if wc["encoding"] != rc["encoding"]:
                rep.violation(R1, par.name, "encoding:" + key, "%s is written as %s (%s) but read as %s (%s)" % (key, wc["encoding"], wn.rsplit("::", 1)[-1], rc["encoding"], rn.rsplit("::", 1)[-1]), "%s:%s" % (par.file, par.line))
            elif not rc["terminator"] or not rc["reads_per_unit"]:
                rep.inconc(R1, "%s: how the reader %s detects the terminator was not recognised (%s zero test(s), %s read(s) per unit)" % (
                    key, rn.rsplit("::", 1)[-1], rc["terminator"], rc["reads_per_unit"]))
            elif wc["terminator"] == rc["terminator"] and rc["reads_per_unit"] < rc["terminator"]:
                # fewer reads than zero tests on the one iteration explored: part of the unit is carried over from an
                # earlier iteration (a state machine); unit framing is not decided by this rule
                rep.inconc(R1, "%s: the reader %s tests %s byte(s) against zero but reads %s per iteration: unit framing carried across iterations is not decided" % (
                    key, rn.rsplit("::", 1)[-1], rc["terminator"], rc["reads_per_unit"]))
            elif wc["terminator"] != rc["terminator"] or (rc["reads_per_unit"] and rc["terminator"] != rc["reads_per_unit"]):
                rep.violation(R1, par.name, "terminator:" + key, "%s: writer appends %s zero byte(s), reader stops on %s zero byte(s) of %s read per unit" % (key, wc["terminator"], rc["terminator"], rc["reads_per_unit"]), "%s:%s" % (par.file, par.line))
            else:
                rep.ok(R1, {"format": f, "role": role, "encoding": wc["encoding"], "terminator": wc["terminator"]})
    # the Unicode format has a title, the legacy one does not – on both sides
    for f in fv.values():
        if bool(w[f]["title"]) != bool(r[f]["title"]) and not any(w[g][role_] for g in fv.values() for role_ in ("title", "message")):
            rep.inconc(R1, "format %s: title handling of the writer not recognised" % f)
        elif bool(w[f]["title"]) != bool(r[f]["title"]):
            rep.violation(R1, par.name, "title:" + f, "format %s: title written: %s, title read: %s" % (f, bool(w[f]["title"]), bool(r[f]["title"])), "%s:%s" % (par.file, par.line))
    for rn, rc in sorted(rchar.items()):
        if rc and rc.get("untested_read"):
            rep.violation(R1, rn, "reader-unit", "%s: %s" % (rn.rsplit("::", 1)[-1], rc["untested_read"]), "")
    for wn, wc in sorted(wchar.items()):
        if wc and wc.get("wrong_enc"):
            rep.violation(R1, wn, "encoding-truncates", "%s: %s" % (wn.rsplit("::", 1)[-1], wc["wrong_enc"]), "")
    # ---- R06.2 padding ------------------------------------------------------------------------
    for rn, rc in sorted(rchar.items()):
        if rc and rc.get("pad_wrong"):
            rep.violation(R2, rn, "reader-padding", "%s: %s" % (rn.rsplit("::", 1)[-1], rc["pad_wrong"]), "")
    for wn, wc in sorted(wchar.items()):
        if not wc:
            continue
        partner = [rc for rc in rchar.values() if rc and rc["encoding"] == wc["encoding"]]
        rp = partner[0]["pad"] if partner else None
        if wc.get("wrong"):
            rep.violation(R2, wn, "padding", "%s %s" % (wn.rsplit("::", 1)[-1], wc["wrong"]), "")
        elif wc["pad"] == rp == 4 and wc["pad_pushes_zero"] and all(p["pad_skips"] for p in partner):
            rep.ok(R2, {"writer": wn, "pad": wc["pad"]})
        elif wc.get("unknown") or wc["pad"] is None or rp is None or any(p.get("unknown") for p in partner):
            rep.inconc(R2, "%s: padding not recognised (writer %s, reader %s; %s)" % (wn.rsplit("::", 1)[-1], wc["pad"], rp, wc.get("unknown")))
        else:
            rep.violation(R2, wn, "padding", "%s pads to %s (zero fill: %s), its reader skips to %s: the next message would not start where the reader resumes" % (wn.rsplit("::", 1)[-1], wc["pad"], wc["pad_pushes_zero"], rp), "")
    # ---- R06.4 BOM -----------------------------------------------------------------------------
    for rn, rc in sorted(rchar.items()):
        if not rc:
            continue
        if rc["bom_sniffing"]:
            if rc["encoding"] == "SHIFT_JIS":
                rep.note("Shift-JIS reader %s uses a BOM-sniffing decode; no Shift-JIS-representable string in the property's domain encodes to a BOM prefix (informational)" % rn)
            else:
                rep.violation(R4, rc["impl"], "bom", "%s decodes with BOM sniffing (%s): a message starting with U+FEFF loses it and U+FFFE switches the encoding" % (rn.rsplit("::", 1)[-1], rc["decoders"]), "")
        else:
            rep.ok(R4, {"reader": rn, "decoders": rc["decoders"]})
    if not any(rc and not rc["bom_sniffing"] for rc in rchar.values()):
        pass
    label_rules(facts, rep, R3, ser, par)


def label_rules(facts, rep, R3, ser, par):
    # writer: in the entries loop, push (key, len(bytes)) happens before the message write of that iteration
    try:
        paths = enum_paths(ser)
    except PathLimit:
        rep.inconc(R3, "serialize: too many paths")
        return
    bad = None
    seen = 0
    for p in paths:
        evs = [e for e in p.events if e["k"] == "call" and e["callee"]]
        nxt = [i for i, e in enumerate(evs) if e["callee"].endswith("Iterator>::next") and "indexmap" in e["callee"]]
        if not nxt:
            continue
        i0 = nxt[0]
        push = [i for i, e in enumerate(evs) if i > i0 and e["callee"].endswith("::push") and e["args"][1][0] == "agg" and e["args"][1][1] == "tuple"]
        wr = [i for i, e in enumerate(evs) if i > i0 and e["callee"].startswith("mila::text_archive::write_")]
        off0 = strip_refs(evs[push[0]]["args"][1][4][1]) if push and len(evs[push[0]]["args"][1][4]) == 2 else None
        off0b = strip_refs(evs[push[0]]["args"][1][4][0]) if push and len(evs[push[0]]["args"][1][4]) == 2 else None
        is_len0 = any(o_ is not None and o_[0] == "call" and o_[1].endswith("::len") for o_ in (off0, off0b))
        appended0 = any(i > i0 and e["callee"].rsplit("::", 1)[-1] in ("extend", "extend_from_slice", "push", "append", "resize") and
                        e["args"] and e["args"][0][0] == "ref" and e["args"][0][2] and "u8" in str(e.get("gargs") or "u8") and i not in push
                        for i, e in enumerate(evs))
        if push and not wr and p.end == "loop" and not is_len0 and not appended0:
            seen += 1
            bad = "an entry gets a label address recorded (%s) without its message being written in that iteration: the key does not label the start of its own message" % fmt(evs[push[0]]["args"][1][4][1])[:50]
            continue
        if not push or not wr:
            continue
        seen += 1
        tup = evs[push[0]]["args"][1][4]
        key, off = tup[0], tup[1]
        if push[0] > wr[0]:
            bad = "the label offset is recorded after the message has been written"
        if not (off[0] == "call" and off[1].endswith("::len")):
            bad = "the recorded offset is %s, not the current buffer length" % fmt(off)[:60]
        else:
            buf = root_of(off[2][0])
            wbuf = root_of(evs[wr[0]]["args"][0])
            if norm(strip_refs(off[2][0])) != norm(strip_refs(evs[wr[0]]["args"][0])):
                bad = "the offset measures a different buffer than the one the message is written to"
        it = [x for x in walk(key) if x[0] == "call" and x[1].endswith("Iterator>::next")]
        if not it:
            bad = "the recorded key is not the entry being written"
        else:
            # key = item.0, message = item.1
            kf = strip_refs(key)
            mv = strip_refs(evs[wr[0]]["args"][1])
            kidx = kf[3] if kf[0] == "field" else None
            midx = None
            for x in walk(mv):
                if x[0] == "field" and x[1][0] == "field" and x[1][1][0] == "downcast":
                    midx = x[3]
            if kf[0] == "field" and kidx != 0:
                bad = "the label is the entry's value, not its key"
    if seen == 0:
        rep.inconc(R3, "serialize: entry loop not recognised")
    elif bad:
        rep.violation(R3, ser.name, "label-offset", bad, "%s:%s" % (ser.file, ser.line))
    else:
        # labels written from the recorded pairs
        nv = ser
        wl = [(bb, t) for bb, t in nv.calls() if (callee_names(t)[1] or "").endswith("BinArchive::write_label")]
        good = False
        for bb, t in wl:
            a = nv.term_of_operand(t["args"][1])
            l = nv.term_of_operand(t["args"][2])
            fa = strip_refs(a)
            fl = strip_refs(l)
            ia = [x[3] for x in walk(a) if x[0] == "field" and isinstance(x[3], int) and x[1][0] == "field"]
            il = [x[3] for x in walk(l) if x[0] == "field" and isinstance(x[3], int) and x[1][0] == "field"]
            if ia[:1] == [1] and il[:1] == [0]:
                good = True
        if good:
            rep.ok(R3, {"fn": ser.name, "order": "record (key, len) -> write message -> write_label(offset, key)"})
        else:
            rep.violation(R3, ser.name, "label-write", "write_label is not called with (recorded offset, recorded key)", "%s:%s" % (ser.file, ser.line))
    # the message loop does not leave while a minimal record (an empty message: terminator padded to 4 bytes) is ahead
    from posloop import position_exit
    stops, undec, npos = position_exit(par, 4)
    if stops:
        rep.violation(R3, par.name, "stops-early", "the message loop leaves on `%s` with the cursor at %d of %d bytes: a last empty message is never read" % (stops[0], stops[1], stops[1] + 4), "%s:%s" % (par.file, par.line))
    elif undec:
        rep.inconc(R3, "from_archive: a loop condition on the cursor position was not evaluated (%s)" % undec)
    # reader
    try:
        rpaths = enum_paths(par)
    except PathLimit:
        rep.inconc(R3, "from_archive: too many paths")
        return
    bad = None
    unk = None
    seen = 0
    # every trip round the message loop that moves the cursor looks up the labels attached to the cell it leaves:
    # a trip that steps over a cell on the strength of its *content* loses the key of a message that looks like that
    for p in rpaths:
        if p.end != "loop":
            continue
        evs_ = [e for e in p.events if e["k"] == "call" and e["callee"]]
        if any(e["callee"].rsplit("::", 1)[-1] in ("read_labels", "read_label", "labels_at") for e in evs_):
            continue
        moves = [e["callee"].rsplit("::", 1)[-1] for e in evs_ if "BinArchiveReader" in e["callee"] and e["callee"].rsplit("::", 1)[-1] in ("skip", "seek")]
        data_tests = [fmt(c_[1])[:60] for c_ in p.conds if any(x[0] == "call" and ("BinArchive::read_" in x[1] or "BinArchiveReader::<'a>::read_" in x[1]) for x in walk(c_[1]))
                      and c_[1][0] != "discr"]
        if moves and data_tests:
            bad = "a trip round the message loop can move the cursor (%s) without looking up the labels at the cell it leaves, decided by the cell's content (%s): a key whose message has that content is lost" % (moves[0], data_tests[0])
    for p in rpaths:
        evs = [e for e in p.events if e["k"] == "call" and e["callee"]]
        lab = [i for i, e in enumerate(evs) if e["callee"].endswith("BinArchiveReader::<'a>::read_labels") or e["callee"].endswith("BinArchiveReader::<'a>::read_label")]
        msg = [i for i, e in enumerate(evs) if "EncodedStringReader>::" in e["callee"] and i > (lab[0] if lab else -1)]
        ins = [i for i, e in enumerate(evs) if e["callee"].endswith("IndexMap::<K, V, S>::insert")]
        if not lab or not msg:
            continue
        seen += 1
        if lab[0] > msg[0]:
            bad = "labels are read after the message (the cursor has moved)"
        for i in ins:
            k = evs[i]["args"][1]
            v = evs[i]["args"][2]
            if not any(x[0] == "call" and x[1].endswith("<impl [T]>::first") for x in walk(k)):
                if any(x == evs[lab[0]]["val"] for x in walk(k)):
                    unk = "the key is derived from the labels in a way that is not recognised: %s" % fmt(k)[:60]
                else:
                    bad = "the key is %s, not the first label at the message's address" % fmt(k)[:60]
            if not any(x == evs[msg[0]]["val"] for x in walk(v)):
                bad = "the stored message is not the one just read"
            tgt = strip_refs(evs[i]["args"][0])
            if not (tgt[0] == "field" and tgt[2] == "entries"):
                # ... or a local map that is moved into the `entries` field of the returned archive
                moved = False
                for q in rpaths:
                    if q.end == "ret" and q.ret and q.ret[0] == "agg":
                        for x in walk(q.ret):
                            if x[0] == "agg" and x[1] == "adt" and (x[2] or "").endswith("TextArchive"):
                                names = (facts.adts.get(x[2]) or {}).get("variants", [{}])[0].get("fields", [])
                                for fi, fv_ in enumerate(x[4]):
                                    fname = names[fi]["name"] if fi < len(names) and isinstance(names[fi], dict) else None
                                    if norm(strip_refs(fv_)) == norm(tgt) and fname in (None, "entries"):
                                        moved = True
                if not moved:
                    bad = "inserts into %s" % fmt(evs[i]["args"][0])[:40]
    # loop condition: tell() < size()
    cond_ok = False
    for p in rpaths:
        for (bb, term, vals, neg, dty) in p.conds:
            if term[0] == "bin" and term[1] in ("Lt", "Ne", "Gt") and any(x[0] == "call" and x[1].endswith("::tell") for x in walk(term)) and any(x[0] == "call" and x[1].endswith("BinArchive::size") for x in walk(term)):
                cond_ok = True
    if seen == 0:
        rep.inconc(R3, "from_archive: message loop not recognised")
    elif bad:
        rep.violation(R3, par.name, "reader-order", bad, "%s:%s" % (par.file, par.line))
    elif unk:
        rep.inconc(R3, "from_archive: " + unk)
    elif not cond_ok:
        rep.violation(R3, par.name, "reader-bound", "the message loop is not bounded by cursor < archive size", "%s:%s" % (par.file, par.line))
    else:
        rep.ok(R3, {"fn": par.name, "order": "read_labels -> read message -> insert(first label, message)"})


def empty_image_rule(facts, rep, R5, ser):
    """TextArchive::serialize must succeed for the empty archive of either format.  With no title (legacy format)
    and no entries the text image is empty; a positional write of that empty image is only fine if the accessor
    accepts (address == size, length 0).  Read off the paths of serialize: a path on which nothing was appended to
    the image before it is handed to a BinArchive write, combined with that accessor's own decision at
    (size 0, address 0, length 0)."""
    from summ import Evaluator, Ref, Unknown, Panic
    from c04 import final_outcomes
    try:
        paths = enum_paths(ser, max_paths=6000)
    except PathLimit:
        rep.inconc(R5, "serialize: too many paths")
        return
    E = Evaluator(facts)
    verdict = None
    n_empty_paths = 0
    for p in paths:
        writes = [e for e in p.events if e["k"] == "call" and e["callee"] and e["callee"].startswith("mila::bin_archive::BinArchive::write_bytes")]
        if not writes:
            continue
        w = writes[0]
        src = strip_refs(w["args"][2]) if len(w["args"]) > 2 else None
        if src is None:
            continue
        # the image buffer: the local whose slice is written
        roots = [x for x in walk(src) if x[0] == "var"]
        appended = False
        for e in p.events:
            if e is w:
                break
            if e["k"] == "call" and e["callee"] and e["args"]:
                sh = e["callee"].rsplit("::", 1)[-1]
                a0 = e["args"][0]
                if a0[0] == "ref" and a0[2] and (sh in ("push", "extend", "extend_from_slice", "append", "resize", "insert") or e["callee"].startswith("mila::text_archive::write_")):
                    appended = True
        if appended:
            continue
        # ... unless the path tested the image and found it non-empty (then it is not the empty image's path)
        nonempty = False
        order = {bb: i for i, bb in enumerate(p.blocks)}
        for (bb, term, vals, neg, dty) in p.conds:
            if order.get(bb, 0) > order.get(w["bb"], 1 << 30):
                continue
            ct = cond_truth((term, vals, neg, dty))
            if not ct:
                continue
            t_, truth = ct
            while t_[0] == "un" and t_[1] == "Not":
                t_, truth = t_[2], not truth
            if t_[0] == "call" and t_[1].rsplit("::", 1)[-1] == "is_empty" and not truth:
                nonempty = True
            if t_[0] == "bin" and t_[3][:2] == ("const", 0) and any(x[0] == "call" and x[1].rsplit("::", 1)[-1] == "len" for x in walk(t_[2])):
                if (t_[1] in ("Ne", "Gt") and truth) or (t_[1] in ("Eq", "Le") and not truth):
                    nonempty = True
        if nonempty:
            continue
        n_empty_paths += 1
        cb = facts.body(w["callee"])
        if cb is None:
            continue
        try:
            outs = final_outcomes(E, facts, cb, [Ref({"data": {"len": 0}}), 0, Ref({"len": 0})])
        except (Unknown, Panic) as u:
            rep.inconc(R5, "write_bytes at (size 0, address 0, length 0) not evaluable: %s" % u)
            return
        if outs and all((o["err"] is True or o["panic"]) and o["definite"] for o in outs):
            verdict = "%s:%s" % (ser.file, w["line"])
    if verdict:
        rep.violation(R5, ser.name, "empty-image-write", "serialize hands an empty text image (no title, no entries: the empty legacy-format archive) to BinArchive::write_bytes(0, ..), which rejects address 0 of an empty data region: the empty archive cannot be serialized", verdict)
    elif n_empty_paths:
        rep.ok(R5, {"fn": ser.name, "empty_image": "the positional write accepts it"})
    else:
        rep.ok(R5, {"fn": ser.name, "empty_image": "no path writes an image that received no bytes"})

