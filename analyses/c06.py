"""C06 — text archive round trip preserves title, key order and every message."""
from mir import fmt, walk, strip_refs, callee_names, norm
from flow import enum_paths, PathLimit, variant_name
from c04 import is_err_term
from binser import root_of

EXPLANATION = ("Codec duality per text-archive format: each string writer and reader is characterised from its MIR "
               "(encoding static, terminator width, padding modulus, BOM handling) and the (writer, reader) pair used "
               "for the title and for the messages of each format must agree; label offset is captured before the "
               "message is written and the reader takes the key at the cursor before reading the message.")
ASSUMPTIONS = ["encoding_rs encode/decode and str::encode_utf16 are mutually inverse on the property's string domain"]

TA = "mila::text_archive::TextArchive"
FMT = "mila::text_archive::TextArchiveFormat"


def statics_in(body, facts, depth=0, seen=None):
    """encoding statics referenced by a body or its local callees/closures."""
    out = set()
    seen = seen or set()
    if body.id in seen or depth > 4:
        return out
    seen.add(body.id)
    for bi, si, s in body.stmts():
        if s["k"] == "assign" and s["rv"]["k"] == "use" and "k" in s["rv"]["a"]:
            v = (s["rv"]["a"]["k"].get("val") or {})
            if v.get("kind") == "ptr_static":
                out.add(v["def"])
    for f in facts.callees(body):
        cb = facts.bodies.get(f.get("res_id") or f.get("def_id"))
        if cb is not None:
            out |= statics_in(cb, facts, depth + 1, seen)
    return out


def callee_set(body, facts, depth=0, seen=None):
    out = set()
    seen = seen if seen is not None else set()
    if body.id in seen or depth > 4:
        return out
    seen.add(body.id)
    for f in facts.callees(body):
        out.add(f.get("res") or f.get("def"))
        cb = facts.bodies.get(f.get("res_id") or f.get("def_id"))
        if cb is not None:
            out |= callee_set(cb, facts, depth + 1, seen)
    return out


def characterise_writer(facts, wb):
    """(encoding, unit_order, terminator_width, pad_modulus, pad_after_terminator) of a string writer
    fn(&mut Vec<u8>, &str)."""
    try:
        paths = enum_paths(wb)
    except PathLimit:
        return None
    done = [p for p in paths if p.end == "ret" and is_err_term(p.ret) is False]
    if not done:
        return None
    p = done[0]
    enc = None
    zeros = 0
    seen_extend = False
    pad_mod = None
    for e in p.events:
        if e["k"] != "call" or not e["callee"]:
            continue
        sh = e["callee"].rsplit("::", 1)[-1]
        if sh in ("extend", "extend_from_slice", "append") and not seen_extend:
            seen_extend = True
            for x in walk(e["args"][1]):
                if x[0] == "call" and x[1].startswith("mila::encoded_strings::"):
                    enc = x[1]
        elif sh == "push" and seen_extend and e["args"][1] == ("const", 0, "u8"):
            zeros += 1
    for (bb, term, vals, neg, dty) in p.conds:
        for x in walk(term):
            if x[0] == "bin" and x[1] == "Rem" and x[3][0] == "const":
                pad_mod = x[3][1]
    # the padding loop pushes zeros too
    loop = [q for q in paths if q.end == "loop"]
    pad_push = any(e["k"] == "call" and e["callee"] and e["callee"].endswith("::push") and e["args"][1] == ("const", 0, "u8")
                   for q in loop for e in q.events[len(p.events) - 1:])
    encoding = None
    units = None
    if enc:
        eb = facts.body(enc)
        if eb is not None:
            st = statics_in(eb, facts)
            cs = callee_set(eb, facts)
            if "encoding_rs::SHIFT_JIS" in st:
                encoding = "SHIFT_JIS"
                units = 1
                strict = any(c and c.endswith("Encoding::encode") for c in cs)
            elif any(c and c.endswith("<impl str>::encode_utf16") for c in cs):
                le = any(c and c.endswith("<impl u16>::to_le_bytes") for c in cs)
                be = any(c and c.endswith("<impl u16>::to_be_bytes") for c in cs)
                encoding = "UTF_16LE" if le and not be else ("UTF_16BE" if be else "UTF_16?")
                units = 2
                # byte order of the two pushes: entry[0] then entry[1]
                order = []
                for bb, t in eb.calls():
                    nm = callee_names(t)[1] or ""
                    if nm.endswith("::push") and len(t["args"]) > 1:
                        a = eb.term_of_operand(t["args"][1])
                        for x in walk(a):
                            if x[0] == "index" and x[2][0] == "const":
                                order.append(x[2][1])
                if order and order != sorted(order):
                    encoding += "(bytes swapped)"
    return {"encoding": encoding, "terminator": zeros, "pad": pad_mod, "pad_pushes_zero": pad_push, "encoder": enc}


def characterise_reader(facts, rb):
    """(encoding, terminator width, pad modulus, bom) of an EncodedStringReader method on BinArchiveReader."""
    try:
        paths = enum_paths(rb)
    except PathLimit:
        return None
    impl = None
    pad_mod = None
    skips = False
    for p in paths:
        for e in p.events:
            if e["k"] == "call" and e["callee"] and e["callee"].startswith("mila::encoded_strings::") and e["callee"] != rb.name:
                impl = e["callee"]
            if e["k"] == "call" and e["callee"] and e["callee"].endswith("::skip") and e["args"][1] == ("const", 1, "usize"):
                skips = True
        for (bb, term, vals, neg, dty) in p.conds:
            for x in walk(term):
                if x[0] == "bin" and x[1] == "Rem" and x[3][0] == "const" and any(y[0] == "call" and y[1].endswith("::tell") for y in walk(x[2])):
                    pad_mod = x[3][1]
    if impl is None:
        return None
    ib = facts.body(impl)
    if ib is None:
        return None
    st = statics_in(ib, facts)
    encoding = "SHIFT_JIS" if "encoding_rs::SHIFT_JIS" in st else ("UTF_16LE" if "encoding_rs::UTF_16LE" in st else ("UTF_16BE" if "encoding_rs::UTF_16BE" in st else None))
    dec = [c for c in callee_set(ib, facts) if c and c.startswith("encoding_rs::Encoding::decode")]
    bom = any(c == "encoding_rs::Encoding::decode" or c.endswith("decode_with_bom_removal") for c in dec)
    # terminator: on the path that leaves the loop normally, how many unit reads are compared with zero
    try:
        ip = enum_paths(ib)
    except PathLimit:
        return None
    term = None
    for p in ip:
        if p.end == "ret" and is_err_term(p.ret) is False:
            zero_tests = 0
            for (bb, t, vals, neg, dty) in p.conds:
                if t[0] == "bin" and t[1] == "Eq" and t[3] == ("const", 0, "u8") and ((vals == (0,)) == neg):
                    zero_tests += 1
            reads = len([e for e in p.events if e["k"] == "call" and e["callee"] and e["callee"].endswith("FnMut::call_mut")])
            term = (zero_tests, reads)
    return {"encoding": encoding, "terminator": term[0] if term else None, "reads_per_unit": term[1] if term else None,
            "pad": pad_mod, "pad_skips": skips, "bom_sniffing": bom, "decoders": sorted(dec), "impl": impl}


def run(facts, rep, ctx):
    R1 = rep.rule("R06.1", "codec duality: per format, title and message writer/reader agree on encoding and terminator width", floor=3)
    R2 = rep.rule("R06.2", "writer pads to the modulus the reader skips to (4), after the terminator", floor=2)
    R3 = rep.rule("R06.3", "label offset is taken before the message write; reader takes the key at the cursor before the message", floor=2)
    R4 = rep.rule("R06.4", "string readers do not sniff a BOM", floor=1)
    ser = facts.body(TA + "::serialize")
    par = facts.body(TA + "::from_archive")
    if ser is None or par is None or not ser.pub or not par.pub:
        rep.inconc(R1, "anchors TextArchive::serialize / from_archive missing")
        return
    fadt = facts.adts.get(FMT)
    if not fadt:
        rep.inconc(R1, "TextArchiveFormat ADT missing")
        return
    fv = {v["discr"]: v["name"] for v in fadt["variants"]}

    def per_format(body, is_writer):
        """format -> {'title': set(callee), 'message': set(callee)} from the calls guarded by the format."""
        out = {n: {"title": set(), "message": set()} for n in fv.values()}
        try:
            paths = enum_paths(body)
        except PathLimit:
            return None
        for p in paths:
            fmts = set(fv.values())
            for (bb, term, vals, neg, dty) in p.conds:
                if term[0] == "discr" and any(x[0] == "field" and x[2] == "format" for x in walk(term)) or \
                        (term[0] == "discr" and strip_refs(term[1])[0] == "param" and body.local_ty(strip_refs(term[1])[1]).endswith("TextArchiveFormat")):
                    names = set(fv[v] for v in vals if v in fv)
                    fmts = fmts - names if neg else fmts & names
            in_loop = False
            for e in p.events:
                if e["k"] != "call" or not e["callee"]:
                    continue
                c = e["callee"]
                if c.endswith("Iterator>::next") or c.endswith("::tell"):
                    in_loop = True
                is_codec = (is_writer and c.startswith("mila::text_archive::write_")) or \
                    (not is_writer and "EncodedStringReader>::" in c)
                if is_codec:
                    for f in fmts:
                        out[f]["message" if in_loop else "title"].add(c)
        return out
    w = per_format(ser, True)
    r = per_format(par, False)
    if w is None or r is None:
        rep.inconc(R1, "serialize/from_archive: too many paths")
        return
    wchar = {}
    rchar = {}
    for f in fv.values():
        for role in ("title", "message"):
            ws, rs = w[f][role], r[f][role]
            key = "%s/%s" % (f, role)
            if not ws and not rs:
                continue
            if len(ws) != 1 or len(rs) != 1:
                rep.violation(R1, ser.name if len(ws) != 1 else par.name, "pairing:" + key, "%s: writer uses %s, reader uses %s" % (key, sorted(ws) or "nothing", sorted(rs) or "nothing"), "%s:%s" % (ser.file, ser.line))
                continue
            wn, rn = list(ws)[0], list(rs)[0]
            if wn not in wchar:
                wb = facts.body(wn)
                wchar[wn] = characterise_writer(facts, wb) if wb else None
            if rn not in rchar:
                rb = facts.body(rn)
                rchar[rn] = characterise_reader(facts, rb) if rb else None
            wc, rc = wchar[wn], rchar[rn]
            if not wc or not rc or wc["encoding"] is None or rc["encoding"] is None:
                rep.inconc(R1, "%s: writer/reader not characterised (%s / %s)" % (key, wc, rc))
                continue
            if wc["encoding"] != rc["encoding"]:
                rep.violation(R1, par.name, "encoding:" + key, "%s is written as %s (%s) but read as %s (%s)" % (key, wc["encoding"], wn.rsplit("::", 1)[-1], rc["encoding"], rn.rsplit("::", 1)[-1]), "%s:%s" % (par.file, par.line))
            elif wc["terminator"] != rc["terminator"] or (rc["reads_per_unit"] and rc["terminator"] != rc["reads_per_unit"]):
                rep.violation(R1, par.name, "terminator:" + key, "%s: writer appends %s zero byte(s), reader stops on %s zero byte(s) of %s read per unit" % (key, wc["terminator"], rc["terminator"], rc["reads_per_unit"]), "%s:%s" % (par.file, par.line))
            else:
                rep.ok(R1, {"format": f, "role": role, "encoding": wc["encoding"], "terminator": wc["terminator"]})
    # the Unicode format has a title, the legacy one does not – on both sides
    for f in fv.values():
        if bool(w[f]["title"]) != bool(r[f]["title"]):
            rep.violation(R1, par.name, "title:" + f, "format %s: title written: %s, title read: %s" % (f, bool(w[f]["title"]), bool(r[f]["title"])), "%s:%s" % (par.file, par.line))
    # ---- R06.2 padding ------------------------------------------------------------------------
    for wn, wc in sorted(wchar.items()):
        if not wc:
            continue
        partner = [rc for rc in rchar.values() if rc and rc["encoding"] == wc["encoding"]]
        rp = partner[0]["pad"] if partner else None
        if wc["pad"] == rp == 4 and wc["pad_pushes_zero"] and all(p["pad_skips"] for p in partner):
            rep.ok(R2, {"writer": wn, "pad": wc["pad"]})
        else:
            rep.violation(R2, wn, "padding", "%s pads to %s (zero fill: %s), its reader skips to %s: the next message would not start where the reader resumes" % (wn.rsplit("::", 1)[-1], wc["pad"], wc["pad_pushes_zero"], rp), "")
    # ---- R06.4 BOM -----------------------------------------------------------------------------
    for rn, rc in sorted(rchar.items()):
        if not rc:
            continue
        if rc["bom_sniffing"]:
            if rc["encoding"] == "SHIFT_JIS":
                rep.note("Shift-JIS reader %s uses a BOM-sniffing decode; no Shift-JIS-representable string in the property's domain encodes to a BOM prefix (informational)" % rn)
            else:
                rep.violation(R4, rc["impl"], "bom", "%s decodes with BOM sniffing (%s): a message starting with U+FEFF loses it and U+FFFE switches the encoding" % (rn.rsplit("::", 1)[-1], rc["decoders"]), "")
        else:
            rep.ok(R4, {"reader": rn, "decoders": rc["decoders"]})
    if not any(rc and not rc["bom_sniffing"] for rc in rchar.values()):
        pass
    label_rules(facts, rep, R3, ser, par)


def label_rules(facts, rep, R3, ser, par):
    # writer: in the entries loop, push (key, len(bytes)) happens before the message write of that iteration
    try:
        paths = enum_paths(ser)
    except PathLimit:
        rep.inconc(R3, "serialize: too many paths")
        return
    bad = None
    seen = 0
    for p in paths:
        evs = [e for e in p.events if e["k"] == "call" and e["callee"]]
        nxt = [i for i, e in enumerate(evs) if e["callee"].endswith("Iterator>::next") and "indexmap" in e["callee"]]
        if not nxt:
            continue
        i0 = nxt[0]
        push = [i for i, e in enumerate(evs) if i > i0 and e["callee"].endswith("::push") and e["args"][1][0] == "agg" and e["args"][1][1] == "tuple"]
        wr = [i for i, e in enumerate(evs) if i > i0 and e["callee"].startswith("mila::text_archive::write_")]
        if not push or not wr:
            continue
        seen += 1
        tup = evs[push[0]]["args"][1][4]
        key, off = tup[0], tup[1]
        if push[0] > wr[0]:
            bad = "the label offset is recorded after the message has been written"
        if not (off[0] == "call" and off[1].endswith("::len")):
            bad = "the recorded offset is %s, not the current buffer length" % fmt(off)[:60]
        else:
            buf = root_of(off[2][0])
            wbuf = root_of(evs[wr[0]]["args"][0])
            if norm(strip_refs(off[2][0])) != norm(strip_refs(evs[wr[0]]["args"][0])):
                bad = "the offset measures a different buffer than the one the message is written to"
        it = [x for x in walk(key) if x[0] == "call" and x[1].endswith("Iterator>::next")]
        if not it:
            bad = "the recorded key is not the entry being written"
        else:
            # key = item.0, message = item.1
            kf = strip_refs(key)
            mv = strip_refs(evs[wr[0]]["args"][1])
            kidx = kf[3] if kf[0] == "field" else None
            midx = None
            for x in walk(mv):
                if x[0] == "field" and x[1][0] == "field" and x[1][1][0] == "downcast":
                    midx = x[3]
            if kf[0] == "field" and kidx != 0:
                bad = "the label is the entry's value, not its key"
    if seen == 0:
        rep.inconc(R3, "serialize: entry loop not recognised")
    elif bad:
        rep.violation(R3, ser.name, "label-offset", bad, "%s:%s" % (ser.file, ser.line))
    else:
        # labels written from the recorded pairs
        nv = ser
        wl = [(bb, t) for bb, t in nv.calls() if (callee_names(t)[1] or "").endswith("BinArchive::write_label")]
        good = False
        for bb, t in wl:
            a = nv.term_of_operand(t["args"][1])
            l = nv.term_of_operand(t["args"][2])
            fa = strip_refs(a)
            fl = strip_refs(l)
            ia = [x[3] for x in walk(a) if x[0] == "field" and isinstance(x[3], int) and x[1][0] == "field"]
            il = [x[3] for x in walk(l) if x[0] == "field" and isinstance(x[3], int) and x[1][0] == "field"]
            if ia[:1] == [1] and il[:1] == [0]:
                good = True
        if good:
            rep.ok(R3, {"fn": ser.name, "order": "record (key, len) -> write message -> write_label(offset, key)"})
        else:
            rep.violation(R3, ser.name, "label-write", "write_label is not called with (recorded offset, recorded key)", "%s:%s" % (ser.file, ser.line))
    # reader
    try:
        rpaths = enum_paths(par)
    except PathLimit:
        rep.inconc(R3, "from_archive: too many paths")
        return
    bad = None
    seen = 0
    for p in rpaths:
        evs = [e for e in p.events if e["k"] == "call" and e["callee"]]
        lab = [i for i, e in enumerate(evs) if e["callee"].endswith("BinArchiveReader::<'a>::read_labels") or e["callee"].endswith("BinArchiveReader::<'a>::read_label")]
        msg = [i for i, e in enumerate(evs) if "EncodedStringReader>::" in e["callee"] and i > (lab[0] if lab else -1)]
        ins = [i for i, e in enumerate(evs) if e["callee"].endswith("IndexMap::<K, V, S>::insert")]
        if not lab or not msg:
            continue
        seen += 1
        if lab[0] > msg[0]:
            bad = "labels are read after the message (the cursor has moved)"
        for i in ins:
            k = evs[i]["args"][1]
            v = evs[i]["args"][2]
            if not any(x[0] == "call" and x[1].endswith("<impl [T]>::first") for x in walk(k)):
                bad = "the key is %s, not the first label at the message's address" % fmt(k)[:60]
            if not any(x == evs[msg[0]]["val"] for x in walk(v)):
                bad = "the stored message is not the one just read"
            tgt = strip_refs(evs[i]["args"][0])
            if not (tgt[0] == "field" and tgt[2] == "entries"):
                bad = "inserts into %s" % fmt(evs[i]["args"][0])[:40]
    # loop condition: tell() < size()
    cond_ok = False
    for p in rpaths:
        for (bb, term, vals, neg, dty) in p.conds:
            if term[0] == "bin" and term[1] in ("Lt", "Ne", "Gt") and any(x[0] == "call" and x[1].endswith("::tell") for x in walk(term)) and any(x[0] == "call" and x[1].endswith("BinArchive::size") for x in walk(term)):
                cond_ok = True
    if seen == 0:
        rep.inconc(R3, "from_archive: message loop not recognised")
    elif bad:
        rep.violation(R3, par.name, "reader-order", bad, "%s:%s" % (par.file, par.line))
    elif not cond_ok:
        rep.violation(R3, par.name, "reader-bound", "the message loop is not bounded by cursor < archive size", "%s:%s" % (par.file, par.line))
    else:
        rep.ok(R3, {"fn": par.name, "order": "read_labels -> read message -> insert(first label, message)"})
