"""padform.py -- closed-form padding of the BinArchiveReader string readers.

A reader that pads with arithmetic instead of a byte-wise loop: `if tell % M != 0 { skip(M - tell % M) }`,
`skip((M - tell % M) % M)`, `if tell % 4 != 0 { skip(2) }` ...  Evaluated per residue class r of the cursor (for
1-byte and for 2-byte units): on the return path consistent with r the cursor must land on the next multiple of M,
i.e. (r + amount) % M == 0 with amount < M."""
from mir import fmt, walk, strip_refs
from c04 import is_err_term


def closed_form_padding(paths):
    """Returns (all residues land aligned, reason it is unknown, {unit: witness of a residue that does not}) or None
    when the reader has no closed-form skip (the loop form is handled by the caller)."""
    def is_tell(t):
        return any(y[0] == "call" and y[1].endswith("::tell") for y in walk(t))
    rets = [p for p in paths if p.end == "ret" and is_err_term(p.ret) is False]
    if any(e["k"] == "call" and e["callee"] and e["callee"].endswith("::skip") for p in paths if p.end == "loop" for e in p.events):
        return None
    if not any(e["k"] == "call" and e["callee"] and e["callee"].endswith("::skip") for p in rets for e in p.events):
        return None
    M = None
    for p in rets:
        for (bb, term, vals, neg, dty) in p.conds:
            for x in walk(term):
                if x[0] == "bin" and x[1] == "Rem" and x[3][0] == "const" and is_tell(x[2]):
                    M = x[3][1]
        for e in p.events:
            if e["k"] == "call" and e["callee"] and e["callee"].endswith("::skip") and len(e["args"]) == 2:
                for x in walk(e["args"][1]):
                    if x[0] == "bin" and x[1] == "Rem" and x[3][0] == "const" and is_tell(x[2]):
                        M = M or x[3][1]
    if not M or M > 64:
        return (False, "closed-form skip without a recognisable modulus", {})

    def subst(t, r):
        """value of an amount/condition term with `tell % M` := r ; None if anything else is in it"""
        t = strip_refs(t)
        if t[0] == "const" and isinstance(t[1], bool):
            return int(t[1])
        if t[0] == "const" and isinstance(t[1], int):
            return t[1]
        if t[0] == "cast":
            return subst(t[1], r)
        if t[0] == "field" and t[1][0] == "bin" and t[1][1].endswith("WithOverflow") and t[3] == 0:
            return subst(("bin", t[1][1].replace("WithOverflow", ""), t[1][2], t[1][3]), r)
        if t[0] == "bin":
            if t[1] == "Rem" and t[3][:2] == ("const", M) and is_tell(t[2]) and not any(y[0] == "bin" for y in walk(t[2])):
                return r
            a, b = subst(t[2], r), subst(t[3], r)
            if a is None or b is None:
                return None
            try:
                return {"Add": a + b, "Sub": a - b, "Mul": a * b, "Rem": a % b if b else None, "Div": a // b if b else None,
                        "BitAnd": a & b, "Eq": int(a == b), "Ne": int(a != b), "Lt": int(a < b), "Le": int(a <= b),
                        "Gt": int(a > b), "Ge": int(a >= b)}.get(t[1])
            except Exception:
                return None
        return None
    wrong = {}
    unknown = None
    for unit in (1, 2):
        for r in range(0, M, unit):
            landed = None
            for p in rets:
                consistent = True
                for (bb, term, vals, neg, dty) in p.conds:
                    if not any(x[0] == "bin" and x[1] == "Rem" and is_tell(x[2]) for x in walk(term)):
                        continue
                    v = subst(term, r)
                    if v is None:
                        consistent = None
                        break
                    if (v in vals) == neg:
                        consistent = False
                        break
                if consistent is None:
                    unknown = "a condition on the cursor is not evaluable"
                    landed = "?"
                    break
                if not consistent:
                    continue
                amount = 0
                for e in p.events:
                    if e["k"] == "call" and e["callee"] and e["callee"].endswith("::skip") and len(e["args"]) == 2:
                        a = subst(e["args"][1], r)
                        if a is None:
                            unknown = "skip amount %s is not a function of the cursor residue" % fmt(e["args"][1])[:50]
                            amount = None
                            break
                        amount += a
                if amount is None:
                    landed = "?"
                    break
                landed = (amount, (r + amount) % M == 0 and 0 <= amount < M)
                if not landed[1]:
                    break
            if landed and landed != "?" and not landed[1] and unit not in wrong:
                wrong[unit] = "with the cursor at %d (mod %d) after the terminator it skips %d byte(s): the next string is expected at the next multiple of %d" % (r, M, landed[0], M)
    ok = not wrong and unknown is None
    return (ok, unknown, wrong)
