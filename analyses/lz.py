"""Shared extraction for the LZ10 / LZ13 encoders (C08, C09, C10): bit-slice domain, token emission
per branch, search-call wiring, caps and thresholds.  All read off the MIR paths of `compress`."""
import re
from mir import fmt, walk, strip_refs, callee_names, norm
from binser import affine
from flow import enum_paths, PathLimit, cond_truth


class NotBits(Exception):
    pass


def is_pow2(c):
    return c > 0 and c & (c - 1) == 0


def mask_range(m):
    """contiguous mask -> (lo, hi) or None"""
    if m <= 0:
        return None
    lo = (m & -m).bit_length() - 1
    hi = m.bit_length()
    if m == ((1 << hi) - 1) ^ ((1 << lo) - 1):
        return (lo, hi)
    return None


def bitslice(t, classify):
    """Abstract value of an integer term as (placements, const_or).  A placement is
    (source, bias, src_lo, width, dst_lo): bits [src_lo, src_lo+width) of (source + bias) land at
    [dst_lo, dst_lo+width).  `classify(term)` names source atoms or returns None."""
    name = classify(t)
    if name is not None:
        return ([(name, 0, 0, 64, 0)], 0)
    tag = t[0]
    if tag in ("ref", "deref"):
        return bitslice(t[1], classify)
    if tag == "const" and isinstance(t[1], int) and not isinstance(t[1], bool):
        return ([], t[1])
    if tag == "cast":
        pl, c = bitslice(t[1], classify)
        bits = {"u8": 8, "i8": 8, "u16": 16, "i16": 16, "u32": 32, "i32": 32}.get(t[2], 64)
        return (clip(pl, 0, bits), c & ((1 << bits) - 1))
    if tag == "field" and t[1][0] == "bin" and t[1][1].endswith("WithOverflow") and t[3] == 0:
        return bitslice(("bin", t[1][1].replace("WithOverflow", ""), t[1][2], t[1][3]), classify)
    if tag == "index" and t[2][0] == "const":
        # byte i of v.to_be_bytes() / v.to_le_bytes()
        base = t[1]
        while base[0] in ("ref", "deref"):
            base = base[1]
        if base[0] == "call" and len(base[2]) == 1:
            m = re.search(r"<impl (u8|u16|u32|u64|usize|i16|i32|i64)>::to_(be|le)_bytes$", base[1])
            if m:
                n = {"u8": 1, "u16": 2, "i16": 2, "u32": 4, "i32": 4, "u64": 8, "i64": 8, "usize": 8}[m.group(1)]
                i = t[2][1]
                if 0 <= i < n:
                    lo = 8 * (n - 1 - i) if m.group(2) == "be" else 8 * i
                    a, ca = bitslice(base[2][0], classify)
                    return bitslice(("bin", "BitAnd", ("bin", "Shr", base[2][0], ("const", lo, "u32")), ("const", 0xFF, "u32")), classify)
    if tag == "call" and len(t[2]) == 1 and re.search(r"::from$", t[1]) and re.search(r"From<(u8|u16|u32)> for (u16|u32|u64|usize|i32|i64)>", t[1]):
        return bitslice(t[2][0], classify)
    if tag == "call" and len(t[2]) == 2:
        # operators applied to references (`&u8 >> usize`): the trait call is the primitive operation
        m = re.search(r"^<&?(?:'\w+ )?(u8|u16|u32|u64|usize|i32|i64) as std::ops::(Shr|Shl|BitAnd|BitOr|Add|Sub|Mul)<[^>]*>>::\w+$", t[1])
        if m:
            return bitslice(("bin", m.group(2), t[2][0], t[2][1]), classify)
    if tag == "bin":
        op = t[1].replace("WithOverflow", "").replace("Unchecked", "")
        if op in ("Add", "Sub"):
            a, ca = bitslice(t[2], classify)
            b, cb = bitslice(t[3], classify)
            if not b and len(a) == 1 and a[0][2] == 0 and a[0][4] == 0 and ca == 0 and a[0][3] >= 32:
                s = a[0]
                return ([(s[0], s[1] + (cb if op == "Add" else -cb), 0, s[3], 0)], 0)
            if not a and not b:
                return ([], ca + cb if op == "Add" else ca - cb)
            raise NotBits("arithmetic on a shifted/masked value: " + fmt(t)[:80])
        if op in ("Shl", "Shr"):
            a, ca = bitslice(t[2], classify)
            b, k = bitslice(t[3], classify)
            if b:
                raise NotBits("variable shift")
            if op == "Shl":
                return ([(s, bi, sl, w, dl + k) for (s, bi, sl, w, dl) in a], ca << k)
            out = []
            for (s, bi, sl, w, dl) in a:
                dl2 = dl - k
                if dl2 < 0:
                    sl, w, dl2 = sl - dl2, w + dl2, 0
                if w > 0:
                    out.append((s, bi, sl, w, dl2))
            return (out, ca >> k)
        if op == "Mul":
            a, ca = bitslice(t[2], classify)
            b, cb = bitslice(t[3], classify)
            if not b and is_pow2(cb):
                k = cb.bit_length() - 1
                return ([(s, bi, sl, w, dl + k) for (s, bi, sl, w, dl) in a], ca << k)
            raise NotBits("multiplication")
        if op == "BitAnd":
            a, ca = bitslice(t[2], classify)
            b, cb = bitslice(t[3], classify)
            if b and not a:
                a, ca, b, cb = b, cb, a, ca
            if b:
                raise NotBits("and of two variables")
            r = mask_range(cb)
            if r is None:
                if cb == 0:
                    return ([], 0)
                raise NotBits("non-contiguous mask %x" % cb)
            return (clip(a, r[0], r[1]), ca & cb)
        if op == "BitOr":
            a, ca = bitslice(t[2], classify)
            b, cb = bitslice(t[3], classify)
            return (a + b, ca | cb)
    raise NotBits("term " + fmt(t)[:80])


def clip(pl, lo, hi):
    out = []
    for (s, bi, sl, w, dl) in pl:
        a = max(dl, lo)
        b = min(dl + w, hi)
        if b > a:
            out.append((s, bi, sl + (a - dl), b - a, a))
    return out


def prune(pl, maxvals):
    """Drop source bits that are provably zero because (source + bias) never exceeds a known maximum."""
    out = []
    for (s, bi, sl, w, dl) in pl:
        rng = maxvals.get(s)
        if isinstance(rng, int):
            rng = (0, rng)
        if rng is not None and rng[1] is not None and rng[0] + bi >= 0:
            mv = rng[1] + bi
            nb = max(mv, 0).bit_length()
            if sl >= nb:
                continue
            if sl + w > nb:
                w = nb - sl
        out.append((s, bi, sl, w, dl))
    return out


def canon(pl, c=0, bits=8):
    """Canonical form of a byte: placements clipped to [0,bits), bias reduced modulo the bits that
    can influence the slice."""
    out = []
    for (s, bi, sl, w, dl) in clip(pl, 0, bits):
        mod = 1 << (sl + w)
        out.append((s, bi % mod, sl, w, dl))
    return (sorted(out), c & ((1 << bits) - 1))


def fmt_byte(b):
    pl, c = b
    parts = ["(%s%+d)[%d..%d)->[%d..%d)" % (s, bi if bi < (1 << (sl + w - 1)) else bi - (1 << (sl + w)), sl, sl + w, dl, dl + w) for (s, bi, sl, w, dl) in pl]
    if c:
        parts.append(hex(c))
    return " | ".join(parts) or "0"


# ---------------------------------------------------------------------------------------------

def _fold_idx(t):
    """index key: constant expressions (on a path the token length is a constant) folded to their value"""
    from binser import const_fold
    c = const_fold(t)
    return ("const", c, "usize") if c is not None else norm(t)


class Encoder:
    """Everything the rules need from one `compress` function."""

    def __init__(self, facts, body):
        self.facts = facts
        self.body = body
        self.paths = enum_paths(body)
        self.search = None
        for p in self.paths:
            for e in p.events:
                if e["k"] == "call" and e["callee"] and self.facts.body(e["callee"]) is not None and len(e["args"]) == 5 \
                        and e["callee"] != body.name and self.facts.body(e["callee"]).local_ty(0).startswith("("):
                    self.search = e
        self.input_param = None
        for i in range(1, body.argc + 1):
            if body.local_ty(i) == "&[u8]":
                self.input_param = i

    def classify(self, t):
        t0 = strip_refs(t)
        while t0[0] == "cast":
            t0 = strip_refs(t0[1])
        if self.search is not None and t0[0] == "field" and t0[1][0] == "call" and t0[1][1] == self.search["callee"] and isinstance(t0[3], int):
            return "len" if t0[3] == 0 else "disp"
        if t0[0] == "call" and t0[1].endswith("<impl [T]>::len") and strip_refs(t0[2][0]) == ("param", self.input_param, self.body.local_name(self.input_param)):
            return "n"
        if t0[0] == "var":
            return "var:%s" % (t0[2] or t0[1])
        if t0[0] == "call" and t0[1].startswith("mila::") and not t0[2][1:] and self.facts.body(t0[1]) is not None:
            return "call:" + t0[1].rsplit("::", 1)[-1]
        if t0[0] == "field" and t0[1][0] == "downcast" and t0[1][1][0] == "call":
            inner = t0[1][1]
            if inner[1].endswith("Try>::branch") and inner[2] and inner[2][0][0] == "call" and inner[2][0][1].startswith("mila::"):
                return "call:" + inner[2][0][1].rsplit("::", 1)[-1]
        return None

    def header_bytes(self):
        """Bytes the result buffer holds before the main loop (from any path): `vec![..]` contents, pushes and
        `extend_from_slice` of byte arrays (`n.to_le_bytes()[..3]`).  self.header_unknown is set when a piece
        could not be resolved."""
        p = self.paths[0]
        out = []
        self.header_unknown = None
        in_loop = set()
        for blks in self.body.loops().values():
            in_loop |= set(blks)
        pending = None

        def elements(src):
            """element terms of a slice expression, or None"""
            t = strip_refs(src)
            while t[0] == "cast":
                t = strip_refs(t[1])
            lo, hi = 0, None
            if t[0] == "call" and "ops::Index" in t[1] and len(t[2]) == 2:
                rg = strip_refs(t[2][1])
                if rg[0] == "agg" and rg[2] and rg[2].startswith("std::ops::Range"):
                    kind = rg[2].rsplit("::", 1)[-1]
                    vals = [x[1] if x[0] == "const" else None for x in rg[4]]
                    if None in vals:
                        return None
                    if kind == "RangeTo":
                        hi = vals[0]
                    elif kind == "Range":
                        lo, hi = vals
                    elif kind == "RangeFrom":
                        lo = vals[0]
                    elif kind != "RangeFull":
                        return None
                    t = strip_refs(t[2][0])
                else:
                    return None
            n = None
            if t[0] == "agg" and t[1] == "array":
                els = list(t[4])
            elif t[0] == "call" and len(t[2]) == 1:
                m = re.search(r"<impl (u16|u32|u64|usize|i32|i64)>::to_(be|le)_bytes$", t[1])
                if not m:
                    return None
                n = {"u16": 2, "u32": 4, "i32": 4, "u64": 8, "i64": 8, "usize": 8}[m.group(1)]
                els = [("index", t, ("const", i, "usize")) for i in range(n)]
            else:
                return None
            return els[lo:hi]
        for e in p.events:
            if e.get("bb") in in_loop:
                break
            if e["k"] == "write" and e["val"][0] == "agg" and e["val"][1] == "array" and any(x[0] == "call" and "new_uninit" in x[1] for x in walk(e["place"])):
                pending = list(e["val"][4])
            if e["k"] != "call" or not e["callee"]:
                continue
            c = e["callee"]
            sh = c.rsplit("::", 1)[-1]
            if sh in ("box_assume_init_into_vec_unsafe", "into_vec") and pending is not None:
                out.extend(pending)
                pending = None
            elif c.endswith("vec::from_elem") and e["args"][1][0] == "const" and e["args"][1][1] <= 16 and not out and strip_refs(e["args"][0])[0] == "const" \
                    and e.get("line") is not None and False:
                out.extend([e["args"][0]] * e["args"][1][1])
            elif sh == "push" and c.startswith("std::vec::Vec"):
                out.append(e["args"][1])
            elif sh == "extend" and len(e["args"]) == 2 and ("Extend" in c or c.startswith("std::vec::Vec")):
                # buf.extend(x.to_le_bytes().iter().take(k))
                src = strip_refs(e["args"][1])
                k_ = None
                for x in walk(src):
                    if x[0] == "call" and x[1].endswith("Iterator::take") and len(x[2]) == 2 and x[2][1][0] == "const":
                        k_ = x[2][1][1]
                arrs = [x for x in walk(src) if x[0] == "call" and re.search(r"<impl (u16|u32|u64|usize)>::to_(be|le)_bytes$", x[1])]
                if arrs and not any(x[0] == "call" and x[1].rsplit("::", 1)[-1] in ("rev", "skip", "step_by", "map", "filter") for x in walk(src)):
                    els = elements(arrs[0])
                    out.extend(els[:k_] if k_ is not None else els)
                else:
                    self.header_unknown = "bytes appended from %s" % fmt(e["args"][1])[:60]
                    break
            elif sh == "extend_from_slice" and c.startswith("std::vec::Vec") and len(e["args"]) == 2:
                els = elements(e["args"][1])
                if els is None:
                    self.header_unknown = "bytes appended from %s" % fmt(e["args"][1])[:60]
                    break
                out.extend(els)
            if c.endswith("cmp::min") or c.endswith("Iterator>::next"):
                break
        return out

    def loop_paths(self):
        def feasible(p):
            """`buf.last_mut()` / `last()` is Some right after a push to buf on the same path: the None arm of an
            `if let Some(last) = buf.last_mut()` that follows a push cannot be taken"""
            pushed = False
            for e in p.events:
                if e["k"] == "call" and e["callee"] and e["callee"].startswith("std::vec::Vec") and e["callee"].endswith("::push"):
                    pushed = True
            if not pushed:
                return True
            for (bb, term, vals, neg, dty) in p.conds:
                if term[0] == "discr" and strip_refs(term[1])[0] == "call" and strip_refs(term[1])[1].rsplit("::", 1)[-1] in ("last_mut", "last", "first", "first_mut"):
                    sel = set(vals)
                    if neg:
                        sel = {0, 1} - sel
                    if sel == {0}:
                        return False
            return True
        return [p for p in self.paths if p.end == "loop" and self.search is not None and any(e is self.search or (e["k"] == "call" and e.get("callee") == self.search["callee"]) for e in p.events) and feasible(p)]

    def branch_of(self, p):
        """('literal'|'reference', [length-class conds]) of a loop path, from conditions on the match length."""
        lits = None
        classes = []
        for (bb, term, vals, neg, dty) in p.conds:
            ct = cond_truth((term, vals, neg, dty))
            if ct is None:
                continue
            t, truth = ct
            if t[0] == "bin" and t[1] in ("Lt", "Le", "Gt", "Ge") and self.classify(t[2]) == "len" and t[3][0] == "const":
                classes.append((t[1], t[3][1], truth))
            elif t[0] == "bin" and t[1] in ("Lt", "Le", "Gt", "Ge") and self.classify(t[3]) == "len" and t[2][0] == "const":
                # `K <= len` (range patterns): the mirrored comparison
                classes.append(({"Lt": "Gt", "Le": "Ge", "Gt": "Lt", "Ge": "Le"}[t[1]], t[2][1], truth))
        return classes

    def emissions(self, p):
        """Ordered byte slots written after the search call on path p: list of (slot key, value term).
        Array stores `buf[i] = v`, `buf[i] |= v`, Vec pushes and `v[len-1] |= x` are merged per slot."""
        slots = []
        started = False
        self.emission_unknown = None
        for e in p.events:
            if e["k"] == "call" and e.get("callee") == self.search["callee"]:
                started = True
                slots = []
                continue
            if not started:
                continue
            if e["k"] == "call" and e["callee"] and e["callee"].rsplit("::", 1)[-1] in ("extend_from_slice", "append"):
                src = e["args"][1] if len(e["args"]) > 1 else None
                whole_vec = e["callee"].endswith("::append") or (src is not None and any(
                    x[0] == "call" and x[1] and x[1].endswith("as std::ops::Deref>::deref") and "Vec" in x[1] for x in walk(src)) and not any(
                    x[0] == "call" and x[1] and "ops::Index" in x[1] for x in walk(src)))
                stored_into = [strip_refs(w_["place"][1]) for w_ in p.events if w_["k"] == "write" and w_["place"][0] == "index"]
                from_written = src is not None and any(any(norm(x) == norm(b_) for x in walk(src)) for b_ in stored_into)
                if whole_vec or from_written:
                    break  # a group flush (or the array the bytes above were stored into): what follows re-initialises it
                # token bytes assembled elsewhere (an array, an integer's bytes) and appended in one go
                self.emission_unknown = "token bytes appended with extend_from_slice from %s" % fmt(src)[:60]
                continue
            if e["k"] == "call" and e["callee"] and e["callee"].startswith("std::vec::Vec") and e["callee"].endswith("::push"):
                slots.append([("push", len(slots)), e["args"][1]])
            elif e["k"] == "call" and e["callee"] and e["callee"].rsplit("::", 1)[-1] in ("copy_from_slice", "clone_from_slice", "fill", "swap", "rotate_left", "rotate_right"):
                # bytes stored in bulk: the source array's elements, when it is visible
                src = strip_refs(e["args"][1]) if len(e["args"]) > 1 else None
                while src is not None and src[0] == "cast":
                    src = strip_refs(src[1])
                if e["callee"].endswith("copy_from_slice") and src is not None and src[0] == "agg" and src[1] == "array":
                    for i_, el in enumerate(src[4]):
                        slots.append([("bulk", len(slots)), el])
                else:
                    self.emission_unknown = "bytes stored with %s" % e["callee"].rsplit("::", 1)[-1]
            elif e["k"] == "write":
                pl = e["place"]
                if pl[0] == "index":
                    key = ("idx", _fold_idx(pl[2]), norm(strip_refs(pl[1])))
                    val = e["val"]
                    prev = [s for s in slots if s[0] == key]
                    if val[0] == "bin" and val[1] == "BitOr" and norm(val[2]) == norm(pl):
                        if prev:
                            prev[0][1] = ("bin", "BitOr", prev[0][1], val[3])
                        else:
                            slots.append([key, ("bin", "BitOr", ("const", 0, "u8"), val[3]), "merge-into-existing"])
                    else:
                        if prev:
                            prev[0][1] = val
                        else:
                            slots.append([key, val])
                elif pl[0] == "deref" and any(x[0] == "call" and x[1] and x[1].endswith("::last_mut") for x in walk(pl)):
                    # `*v.last_mut().unwrap() |= x` / `if let Some(last) = v.last_mut() { *last |= x }`
                    val = e["val"]
                    x = val[3] if (val[0] == "bin" and val[1] == "BitOr") else val
                    if slots:
                        slots[-1][1] = ("bin", "BitOr", slots[-1][1], x)
                    else:
                        slots.append([("unknown", "last_mut"), val])
                elif pl[0] == "deref" and pl[1][0] == "call" and pl[1][1].endswith("index_mut"):
                    idx = pl[1][2][1]
                    val = e["val"]
                    x = val[3] if (val[0] == "bin" and val[1] == "BitOr") else val
                    is_last = any(s[0] == "bin" and s[1].startswith("Sub") and s[3] == ("const", 1, "usize") for s in walk(idx))
                    is_first = idx == ("const", 0, "usize")
                    if is_last and slots:
                        slots[-1][1] = ("bin", "BitOr", slots[-1][1], x)
                    elif is_first:
                        slots.append([("idx", ("const", 0, "usize"), norm(strip_refs(pl[1][2][0]))), ("bin", "BitOr", ("const", 0, "u8"), x), "merge-into-existing"])
                    else:
                        slots.append([("unknown", fmt(idx)[:40]), val])
        return slots

    def search_args(self):
        """The five arguments of the search call in a canonical form shared by every way of writing a cap:
        `min(x, K)`, `if x > K {K} else {x}` (merged over the loop paths) and `x.saturating_sub(K)` (= x - min(x, K)).
        None when the paths disagree in a way that is not one of these."""
        if self.search is None:
            return None
        if getattr(self, "_sargs", None) is not None:
            return self._sargs
        per = []
        for p in self.loop_paths():
            ev = [e for e in p.events if e["k"] == "call" and e.get("callee") == self.search["callee"]]
            if ev:
                per.append((p, [rewrite_sat(a) for a in ev[-1]["args"]]))
        if not per:
            per = [(None, [rewrite_sat(a) for a in self.search["args"]])]
        out = []
        for i in range(5):
            forms = {}
            for p, args in per:
                forms.setdefault(norm(args[i]), []).append((p, args[i]))
            if len(forms) == 1:
                out.append(list(forms.values())[0][0][1])
                continue
            merged = merge_select(forms)
            if merged is None:
                self._sargs = None
                return None
            out.append(merged)
        # propagate: an argument built from another one that was merged (window start = pos - window length)
        self._sargs = out
        return out

    def caps(self):
        """(look-ahead cap L, window cap W): the constants the look-ahead / window-length arguments are capped at."""
        a = self.search_args()
        if a is None:
            return None

        def cap(t):
            af = affine(t, None, narrow_opaque=True)
            if af is None or af[1] != 0 or len(af[0]) != 1:
                return None, None
            (atom, coef), = af[0].items()
            if coef == 1 and atom[0] == "call" and (atom[1].endswith("cmp::min") or atom[1].endswith("Ord::min")):
                for x in atom[2]:
                    if x[0] == "const":
                        return x[1], [y for y in atom[2] if y[0] != "const"]
            return None, None
        L, lrest = cap(a[2])
        W, wrest = cap(a[4])
        return {"L": L, "W": W, "lookahead_other": lrest, "window_other": wrest}


MIN_NAME = "core::cmp::min"


def mk_min(a, b):
    return ("call", MIN_NAME, (a, b), None, MIN_NAME)


def rewrite_sat(t):
    """x.saturating_sub(y)  ->  x - min(x, y)   (exact on unsigned integers), recursively."""
    if not isinstance(t, tuple) or not t:
        return t
    if t[0] == "call" and t[1].endswith("::saturating_sub") and len(t[2]) == 2:
        a, b = rewrite_sat(t[2][0]), rewrite_sat(t[2][1])
        return ("bin", "Sub", a, mk_min(a, b), None)
    if t[0] == "call":
        return (t[0], t[1], tuple(rewrite_sat(x) for x in t[2])) + tuple(t[3:])
    if t[0] == "bin":
        return (t[0], t[1], rewrite_sat(t[2]), rewrite_sat(t[3])) + tuple(t[4:])
    if t[0] in ("cast", "ref", "deref", "field", "un"):
        i = 2 if t[0] == "un" else 1
        return t[:i] + (rewrite_sat(t[i]),) + tuple(t[i + 1:])
    return t


def merge_select(forms):
    """{normed value: [(path, term)]} with exactly two values {K const, x}: if every path yielding K has decided
    `x > K` (or `x >= K`) and every path yielding x has decided the opposite, the argument is min(x, K)."""
    if len(forms) != 2:
        return None
    ks = [k for k in forms if k[0] == "const"]
    xs = [k for k in forms if k[0] != "const"]
    if len(ks) != 1 or len(xs) != 1:
        return None
    K, x = ks[0], xs[0]

    def decided(p, want_big):
        for (bb, term, vals, neg, dty) in p.conds:
            ct = cond_truth((term, vals, neg, dty))
            if not ct:
                continue
            t, truth = ct
            if t[0] != "bin" or t[1] not in ("Gt", "Ge", "Lt", "Le"):
                continue
            l, r = norm(rewrite_sat(t[2])), norm(rewrite_sat(t[3]))
            op = t[1]
            if l == K and r == x:
                l, r = r, l
                op = {"Gt": "Lt", "Ge": "Le", "Lt": "Gt", "Le": "Ge"}[op]
            if l != x or r != K:
                continue
            big = (op in ("Gt", "Ge")) == truth        # x is at least K (>= or >) on this path
            if big == want_big:
                return True
        return False
    if all(p is not None and decided(p, True) for p, t in forms[K]) and all(p is not None and decided(p, False) for p, t in forms[x]):
        xt = forms[x][0][1]
        kt = forms[K][0][1]
        return mk_min(xt, kt)
    return None
