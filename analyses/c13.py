"""C13 — layered filesystem listings are the sorted, de-duplicated union of layers."""
from mir import fmt, walk, strip_refs, callee_names, norm
from flow import enum_paths, PathLimit
from c04 import is_err_term
from c12 import iteration_source, item_of_next, LFS, LAYER
import c14

EXPLANATION = ("Shape of LayeredFilesystem::{list,subdirectories}: the accumulation loop visits every layer, the "
               "accumulator de-duplicates, a natural-order sort is the last operation on the returned vector, the "
               "path handed to each layer is the mapped one; layer level: a missing directory lists as empty, "
               "default pattern **/*, sub-directories = one level + is_dir filter. Glob matching, prefix "
               "stripping and file-system state are not decided.")
ASSUMPTIONS = ["glob::glob and std::path semantics", "layer-relative prefix stripping by String::replace is not analysed"]

SET_TYPES = ("std::collections::HashSet<", "std::collections::BTreeSet<", "indexmap::IndexSet<")
VEC_MUTATORS = ("push", "insert", "reverse", "swap", "remove", "swap_remove", "truncate", "retain", "extend", "append",
                "drain", "rotate_left", "rotate_right", "sort_by", "sort_by_key", "sort_unstable_by", "shuffle", "pop",
                "dedup_by", "dedup_by_key", "clear", "split_off", "sort_by_cached_key", "sort_unstable_by_key")


def fmt_template(b):
    """Literal pieces of a compact fmt::Arguments template (bytes): returns (pieces, n_args)."""
    pieces = []
    nargs = 0
    i = 0
    while i < len(b):
        c = b[i]
        if c == 0:
            break
        if c >= 0x80:
            nargs += 1
            pieces.append(None)
            i += 1
            continue
        pieces.append(bytes(b[i + 1:i + 1 + c]).decode("utf8", "replace"))
        i += 1 + c
    return pieces, nargs


def is_dir_below(facts, b, depth=0, seen=None):
    """is Path::is_dir called anywhere in the crate functions / closures reachable from b (3 levels)?"""
    seen = seen if seen is not None else set()
    seen.add(b.id)
    for bb, t in b.calls():
        if (callee_names(t)[1] or "") == "std::path::Path::is_dir":
            return True
    if depth >= 3:
        return False
    for f_ in facts.callees(b):
        cb = facts.bodies.get(f_.get("res_id") or f_.get("def_id"))
        if cb is not None and cb.id not in seen and is_dir_below(facts, cb, depth + 1, seen):
            return True
    return False


def run(facts, rep, ctx):
    R1 = rep.rule("R13.1", "the accumulation loop visits every layer and adds each layer's result to one accumulator", floor=2)
    R2 = rep.rule("R13.2", "result is de-duplicated and a natural ascending sort is the last operation before return", floor=2)
    R3 = rep.rule("R13.3", "localized listing hands the mapped directory to every layer (same rule as C14-R14.3)", floor=2)
    R4 = rep.rule("R13.4", "a directory missing from a layer contributes the empty list, not an error", floor=2)
    R5 = rep.rule("R13.5", "default pattern is **/*; sub-directories glob one level and keep only directories", floor=2)
    for name in ("list", "subdirectories"):
        b = facts.body(LFS + "::" + name)
        if b is None or not b.pub:
            rep.inconc(R1, "anchor LayeredFilesystem::%s missing" % name)
            continue
        try:
            paths = enum_paths(b)
        except PathLimit:
            rep.inconc(R1, name + ": too many paths")
            continue
        bad1 = None
        bad2 = None
        unk2 = None
        elementwise = elementwise_added = False
        iters = 0
        rets = 0
        for p in paths:
            nxt = None
            inner_next = []
            for (bb, term, vals, neg, dty) in p.conds:
                if term[0] == "discr" and term[1][0] == "call" and term[1][1].endswith("Iterator>::next"):
                    if nxt is None or (iteration_source(nxt[0])[1] != "layers" and iteration_source(term[1])[1] == "layers"):
                        nxt = (term[1], (vals == (1,)) != neg)
                    elif nxt is not None and term[1] != nxt[0]:
                        inner_next.append((term[1], (vals == (1,)) != neg))
            if nxt is None:
                if p.end == "ret" and is_err_term(p.ret) is not True:
                    bad2 = "a path returns %s without passing the de-duplicating, sorted accumulation (shortcut before the layer loop)" % fmt(p.ret)[:70]
                continue
            ncall, some = nxt
            adaptors, root = iteration_source(ncall)
            if root != "layers":
                bad1 = "iterates over %s, not self.layers" % root
            elif [a for a in adaptors if a not in ("rev",)]:
                bad1 = "iterates self.layers through %s: not every layer is visited" % adaptors
            if some:
                lay = [e for e in p.events if e["k"] == "call" and e["callee"] == LAYER + "::" + name]
                ext = [e for e in p.events if e["k"] == "call" and e["callee"] and e["callee"].rsplit("::", 1)[-1] in ("extend", "insert", "append", "push")]
                if p.end == "ret" and is_err_term(p.ret) is True:
                    continue  # propagated layer error
                iters += 1
                if p.end != "loop":
                    bad1 = "stops after the first layer (%s)" % p.end
                if len(lay) != 1 or item_of_next(lay[0]["args"][0]) is None:
                    bad1 = "does not list the layer being iterated exactly once per iteration"
                elif any(any(x == lay[0]["val"] for x in walk(t_)) for t_, _ in inner_next):
                    # an element-wise loop over the layer's result: the additions are on the paths that take an element
                    elementwise = True
                    if ext and any(x == lay[0]["val"] for e in ext for x in walk(e["args"][1])):
                        elementwise_added = True
                elif not ext or not any(x == lay[0]["val"] for e in ext for x in walk(e["args"][1])):
                    # ... unless this is the trip on which the accumulator is still empty and simply takes the
                    # layer's vector over (`if acc.is_empty() { acc = entries } else { acc.extend(entries) }`)
                    adopted = False
                    for l_, v_ in (p.env or {}).items():
                        if isinstance(v_, tuple) and any(x == lay[0]["val"] for x in walk(v_)):
                            for (bb_, term_, vals_, neg_, dty_) in p.conds:
                                if term_[0] == "call" and term_[1].rsplit("::", 1)[-1] == "is_empty" and ((vals_ == (0,)) == neg_) and any(
                                        x[0] == "var" and x[1] == l_ for x in walk(term_)):
                                    adopted = True
                    if not adopted:
                        bad1 = "the layer's result is not added to the accumulator"
                else:
                    acc = strip_refs(ext[0]["args"][0])
                    accty = None
                    if acc[0] == "call":
                        accty = acc[1]
            else:
                if p.end != "ret":
                    continue
                rets += 1
                r = p.ret
                if not (r[0] == "agg" and r[3] == "Ok"):
                    bad2 = "returns %s after the loop" % fmt(r)[:60]
                    continue
                vec = r[4][0]
                sorts = [(i, e) for i, e in enumerate(p.events) if e["k"] == "call" and e["callee"] and e["callee"].rsplit("::", 1)[-1] in ("sort", "sort_unstable")
                         and "<impl [T]>::" in e["callee"]]
                if not sorts:
                    ordered_set = any(x[0] == "call" and x[1].endswith("IntoIterator>::into_iter") and "BTreeSet" in x[1] for x in walk(vec))
                    collected = strip_refs(vec)[0] == "call" and strip_refs(vec)[1].rsplit("::", 1)[-1] in ("collect", "from_iter", "into_sorted_vec")
                    if ordered_set and collected and not any(x[0] == "call" and x[1].rsplit("::", 1)[-1] in ("rev", "map", "filter", "chain", "skip", "take", "step_by") for x in walk(vec)):
                        continue      # a BTreeSet drained in order: ascending and duplicate-free by construction
                    if any("BTree" in (x[1] or "") or "BinaryHeap" in (x[1] or "") for x in walk(vec) if x[0] == "call"):
                        unk2 = "the returned vector comes out of an ordered container in a way this rule does not read (%s)" % fmt(vec)[:60]
                        continue
                    bad2 = "the returned vector is not sorted (no sort/sort_unstable)"
                    continue
                si, se = sorts[-1]
                if not any(x == vec for x in walk(se["args"][0])):
                    bad2 = "sorts %s but returns %s" % (fmt(se["args"][0])[:50], fmt(vec)[:50])
                for e in p.events[si + 1:]:
                    if e["k"] == "call" and e["callee"] and e["callee"].rsplit("::", 1)[-1] in VEC_MUTATORS:
                        if any(x == vec for a in e["args"] for x in walk(a)):
                            bad2 = "the vector is modified by %s after the sort" % e["callee"].rsplit("::", 1)[-1]
                # de-duplication: the vector is collected from a set, or dedup follows the sort
                from_set = False
                for x in walk(vec):
                    if x[0] == "call" and x[1].endswith("IntoIterator>::into_iter") and any(s in x[1] for s in ("HashSet", "BTreeSet", "IndexSet")):
                        from_set = True
                dedup = any(e["k"] == "call" and e["callee"] and e["callee"].endswith("::dedup") for e in p.events[si + 1:])
                if not (from_set or dedup):
                    bad2 = "duplicates across layers are not removed (no set accumulator, no dedup after the sort)"
        if iters == 0 or rets == 0:
            rep.inconc(R1, "%s: loop shape not recognised" % name)
            continue
        if elementwise and not elementwise_added and not bad1:
            bad1 = "the layer's result is walked element by element but no element is added to the accumulator"
        if unk2 and not bad2:
            rep.inconc(R2, "%s: %s" % (name, unk2))
        if bad1:
            rep.violation(R1, b.name, "union", "%s: %s" % (name, bad1), "%s:%s" % (b.file, b.line))
        else:
            rep.ok(R1, {"fn": b.name})
        if bad2:
            rep.violation(R2, b.name, "sorted-last", "%s: %s" % (name, bad2), "%s:%s" % (b.file, b.line))
        elif not unk2:
            rep.ok(R2, {"fn": b.name})
    c14.uniform_application(facts, rep, R3, only=("list", "subdirectories"))

    # layer level
    for name in ("list", "subdirectories"):
        b = facts.body(LAYER + "::" + name)
        if b is None:
            rep.inconc(R4, "FileSystemLayer::%s missing" % name)
            continue
        try:
            paths = enum_paths(b)
        except PathLimit:
            rep.inconc(R4, name + ": too many paths")
            continue
        miss = [p for p in paths if any(term[0] == "call" and term[1] == "std::path::Path::exists" and ((vals == (0,)) != neg) for (bb, term, vals, neg, dty) in p.conds)]
        hit = [p for p in paths if any(term[0] == "call" and term[1] == "std::path::Path::exists" and ((vals == (0,)) == neg) for (bb, term, vals, neg, dty) in p.conds)]
        if not miss or not hit:
            rep.inconc(R4, "%s: existence test not found" % name)
        else:
            good = all(p.end == "ret" and p.ret[0] == "agg" and p.ret[3] == "Ok" and p.ret[4][0][0] == "call" and
                       (p.ret[4][0][1].endswith("Default>::default") or p.ret[4][0][1].endswith("Vec::<T>::new")) for p in miss)
            if good:
                rep.ok(R4, {"fn": b.name})
            else:
                rep.violation(R4, b.name, "missing-dir", "FileSystemLayer::%s: a missing directory yields %s" % (name, [fmt(p.ret)[:60] for p in miss]), "%s:%s" % (b.file, b.line))
            # existence is tested on root joined with the caller's path
            for p in miss:
                for (bb, term, vals, neg, dty) in p.conds:
                    if term[0] == "call" and term[1] == "std::path::Path::exists":
                        if not any(x[0] == "param" and x[1] == 2 for x in walk(term)):
                            rep.violation(R4, b.name, "exists-arg", "existence is tested on %s, not on the requested directory" % fmt(term)[:80], "%s:%s" % (b.file, b.line))
        # who may enumerate: the entries under a directory are found by the glob walk over <dir>/<pattern>; a listing
        # built from read_dir sees one level and bare names only, so patterns that contain a separator cannot match
        if name == "list":
            rd_calls = [(bb, t) for bb, t in b.calls() if (callee_names(t)[1] or callee_names(t)[0] or "") in ("std::fs::read_dir",) or
                        (callee_names(t)[1] or "").endswith("walkdir::WalkDir::new")]
            for cb in facts.closures_of(b):
                rd_calls += [(bb, t) for bb, t in cb.calls() if (callee_names(t)[1] or "") == "std::fs::read_dir"]
            globs = [(bb, t) for bb, t in b.calls() if (callee_names(t)[1] or "").startswith("glob::glob")]
            if rd_calls:
                rep.violation(R5, b.name, "enumerates-with-read_dir", "FileSystemLayer::list enumerates a directory with read_dir on some path: entries below the first level, and patterns with a path separator, are not matched as the glob walk matches them", "%s:%s" % (b.file, rd_calls[0][1]["line"]))
            elif globs:
                rep.ok(R5, {"fn": b.name, "enumeration": "glob::glob only"})
        # pattern
        okp = [p for p in hit if p.end == "ret" and is_err_term(p.ret) is False]
        patt = set()
        isdir = False
        wrapped = None
        for p in okp:
            for e in p.events:
                if e["k"] == "call" and e["callee"] == "std::fmt::Arguments::<'a>::new":
                    t = strip_refs(e["args"][0])
                    if t[0] == "const" and isinstance(t[1], bytes):
                        pieces, n = fmt_template(t[1])
                        # which values fill the placeholders
                        fills = []
                        for x in walk(e["args"][1]):
                            if x[0] == "call" and x[1].endswith("new_display"):
                                fills.append(x[2][0])
                        patt.add((tuple(pieces), tuple(fmt(norm(f))[:50] for f in fills)))
                        # the caller's pattern is matched as given, relative to the listed directory: a template that
                        # puts glob syntax of its own around it changes which entries match
                        if name == "list" and any(isinstance(pc, str) and any(ch in pc for ch in "*?[") for pc in pieces) and any(
                                x[0] == "param" and x[1] == 3 for f_ in fills for x in walk(f_)):
                            wrapped = "".join(pc if isinstance(pc, str) else "{}" for pc in pieces)

                        for f in fills:
                            for x in walk(f):
                                if x[0] == "const" and x[1] == "**/*":
                                    patt.add(("default", "**/*"))
            for cb in facts.closures_of(b):
                for bb, t in cb.calls():
                    if (callee_names(t)[1] or "") == "std::path::Path::is_dir":
                        isdir = True
        # every string constant with a glob star that can reach the pattern: template pieces, placeholder fills, plain operands
        stars = set()
        for pp in patt:
            if pp[0] == "default":
                stars.add(pp[1])
                continue
            for piece in pp[0]:
                if isinstance(piece, str) and "*" in piece:
                    stars.add(piece.lstrip("/\\"))
        for bi, si, s_ in b.stmts():
            if s_["k"] == "assign" and s_["rv"]["k"] == "use" and "k" in s_["rv"]["a"]:
                v = s_["rv"]["a"]["k"].get("val") or {}
                if v.get("kind") == "str" and "*" in v["v"]:
                    stars.add(v["v"].lstrip("/\\"))
        for bb, t in b.calls():
            for a in t["args"]:
                ta = b.term_of_operand(a)
                for x in walk(ta):
                    if x[0] == "const" and isinstance(x[1], str) and "*" in x[1]:
                        stars.add(x[1].lstrip("/\\"))
            if (callee_names(t)[1] or "") == "std::path::Path::is_dir":
                isdir = True
        if name == "subdirectories":
            if stars == {"*"} and isdir:
                rep.ok(R5, {"fn": b.name, "pattern": "<dir>/*", "filter": "is_dir"})
            elif stars - {"*"}:
                rep.violation(R5, b.name, "pattern", "sub-directory listing globs with %s (specified: <dir>/* one level, directories only)" % sorted(stars), "%s:%s" % (b.file, b.line))
            elif stars == {"*"} and not isdir and is_dir_below(facts, b):
                rep.inconc(R5, "sub-directory listing: is_dir is tested in a helper the listing calls, under a condition that is not followed")
            elif stars == {"*"} and not isdir:
                rep.violation(R5, b.name, "pattern", "sub-directory listing never tests is_dir: files would be reported as directories", "%s:%s" % (b.file, b.line))
            else:
                rep.inconc(R5, "sub-directory listing: glob pattern not recognised")
        else:
            if wrapped:
                rep.violation(R5, b.name, "caller-pattern-wrapped", "FileSystemLayer::list builds the pattern %r around the caller's pattern: entries the caller's pattern does not match relative to the directory (deeper levels) are listed" % wrapped, "%s:%s" % (b.file, b.line))
            if "**/*" in stars:
                rep.ok(R5, {"fn": b.name, "default_pattern": "**/*"})
            elif stars:
                rep.violation(R5, b.name, "default-pattern", "default listing pattern is %s, specified **/*" % sorted(stars), "%s:%s" % (b.file, b.line))
            else:
                rep.inconc(R5, "list: default glob pattern not recognised")
