"""Core library over the MIR fact file produced by /verif/driver (mila-facts).

Everything here is *static*: it loads the JSON dump of rustc's MIR and offers
  - lookup of bodies / ADTs / consts by name,
  - CFG helpers (successors, predecessors, dominators, post-dominators, reachability, loops),
  - a def-use "term" builder that turns single-assignment temporaries into expression trees,
  - the resolved call graph,
  - a pretty printer for humans.
No mila code is ever executed.
"""
import json
import sys
from collections import defaultdict, deque


class Facts:
    def __init__(self, path):
        with open(path) as f:
            d = json.load(f)
        self.raw = d
        self.crate = d["crate"]
        self.overflow_checks = d.get("overflow_checks")
        self.bodies = {}
        for b in d["bodies"]:
            body = Body(self, b)
            self.bodies[body.id] = body
        self.by_name = defaultdict(list)
        for b in self.bodies.values():
            self.by_name[b.name].append(b)
        self.adts = {a["name"]: a for a in d["adts"]}
        self.consts = {c["name"]: c for c in d["consts"]}
        self.impls = d["impls"]
        self._callers = None
        self.inline_new = True

    # -- lookup ---------------------------------------------------------------------------
    def body(self, name):
        """Look a body up by its pretty name (e.g. 'mila::bin_archive::BinArchive::allocate')
        or unique id.  Returns None when absent."""
        b = self.raw_body(name)
        if b is None or not self.inline_new:
            return b
        return self.ibody(b)

    def views(self):
        """every body in its analysis view (new helpers / closures / loop adaptors expanded)"""
        for b in list(self.bodies.values()):
            yield self.ibody(b) if self.inline_new else b

    def raw_body(self, name):
        if name in self.bodies:
            return self.bodies[name]
        l = self.by_name.get(name)
        return l[0] if l else None

    def known(self):
        """Functions of the tree the rules were confirmed against (known_fns.json)."""
        k = self.__dict__.get("_known")
        if k is None:
            import os
            with open(os.path.join(os.path.dirname(os.path.abspath(__file__)), "known_fns.json")) as f:
                d = json.load(f)
            names = set(d["names"])
            # a known function that is gone and a new one with the same shape in the same module: a rename, kept
            # as a call (rules find their helpers by role / signature, not by name)
            have = {b.name: b for b in self.bodies.values() if b.kind != "Closure"}
            gone = [n for n in names if n not in have and n in d.get("sigs", {})]
            new = [n for n in have if n not in names]
            self.renamed = {}
            for g in gone:
                sg = d["sigs"][g]
                mod = g.rsplit("::", 1)[0]
                cands = []
                for n in new:
                    if n.rsplit("::", 1)[0] != mod:
                        continue
                    b = have[n]
                    sn = [b.local_ty(i) for i in range(0, b.argc + 1)]
                    if len(sn) == len(sg) and sn[0] == sg[0] and sum(1 for x, y in zip(sn, sg) if x == y) >= len(sg) - 1:
                        cands.append(n)
                if len(cands) == 1:
                    self.renamed[cands[0]] = g
            names |= set(self.renamed)
            k = self.__dict__["_known"] = (frozenset(names), frozenset(d["ids"]))
        return k

    def ibody(self, name, keep=None, depth=4, adaptors=True, combinators=False, unroll=True):
        """The body with *new* crate-local helpers, visible closures and loop adaptors expanded
        (inline.py).  `keep`: extra names (full, or last path segments) of callees to leave as calls;
        every function listed in known_fns.json is kept."""
        import inline
        b = self.raw_body(name) if isinstance(name, str) else name
        if b is None:
            return None
        keep = tuple(sorted(keep or ()))
        key = (b.id, keep, depth, adaptors, combinators, unroll)
        c = self.__dict__.setdefault("_ibodies", {})
        if key not in c:
            names, ids = self.known()
            def kp(n, keep=keep, names=names):
                return n in names or any(n == k or n.endswith("::" + k) for k in keep)
            c[key] = inline.inline_body(self, b, kp, depth, adaptors, known_ids=ids, combinators=combinators, unroll=unroll)
        return c[key]

    def find(self, suffix):
        """All bodies whose pretty name ends with `suffix`."""
        return [b for b in self.bodies.values() if b.name.endswith(suffix)]

    def closures_of(self, body):
        ids = {body.id} | set(getattr(body, "inlined_ids", ()) or ())
        return sorted((b for b in self.bodies.values() if b.parent in ids and b.kind == "Closure"),
                      key=lambda b: b.id)

    def adt(self, name):
        return self.adts.get(name)

    def const_val(self, name):
        c = self.consts.get(name)
        if not c or not c.get("val"):
            return None
        v = c["val"]
        if "v" in v:
            return v["v"]
        return v.get("bytes")

    # -- call graph -----------------------------------------------------------------------
    def callees(self, body):
        """Resolved callee names (ids) of every call in body (closures constructed in it included
        as pseudo-edges, since a closure handed to an iterator adaptor runs in the callee)."""
        out = []
        for bb, blk in enumerate(body.blocks):
            t = blk["term"]
            if t["k"] == "call":
                f = call_target(t)
                if f:
                    out.append(f)
            for s in blk["stmts"]:
                if s["k"] == "assign" and s["rv"]["k"] == "agg" and s["rv"].get("ak") == "closure":
                    out.append({"def": s["rv"]["def"], "def_id": s["rv"]["def"], "res_id": s["rv"]["def"],
                                "res": s["rv"]["def"], "closure": True})
        return out

    def reachable_from(self, roots, local_only=True):
        """Transitive closure of resolved call edges starting from body ids in roots.
        Returns (set of local body ids, set of external callee names)."""
        seen = set()
        ext = set()
        q = deque(r for r in roots if r)
        while q:
            i = q.popleft()
            if i in seen:
                continue
            b = self.bodies.get(i)
            if b is None:
                continue
            seen.add(i)
            for f in self.callees(b):
                rid = f.get("res_id") or f.get("def_id")
                if rid in self.bodies:
                    if rid not in seen:
                        q.append(rid)
                else:
                    ext.add(f.get("res") or f.get("def"))
                    # an unresolved trait call may dispatch to any local impl method of that name
                    if "res_id" not in f:
                        dn = f.get("def", "")
                        meth = dn.rsplit("::", 1)[-1]
                        for lb in self.bodies.values():
                            if lb.trait_method == dn or (lb.impl_trait and lb.name.endswith("::" + meth) and dn.startswith("mila::")):
                                if lb.id not in seen:
                                    q.append(lb.id)
        return seen, ext

    def callers_of(self, target_id):
        if self._callers is None:
            self._callers = defaultdict(list)
            for b in self.bodies.values():
                for bb, blk in enumerate(b.blocks):
                    t = blk["term"]
                    if t["k"] == "call":
                        f = call_target(t)
                        if f:
                            rid = f.get("res_id") or f.get("def_id")
                            self._callers[rid].append((b, bb))
        return self._callers.get(target_id, [])


def call_target(term):
    """The fn-constant record of a call terminator, or None for indirect calls."""
    f = term["fn"]
    k = f.get("k")
    if k and k.get("kind") == "fn":
        return k
    return None


def callee_name(term, resolved=True):
    f = call_target(term)
    if not f:
        return None
    if resolved and "res" in f:
        return f["res"]
    return f["def"]


def callee_names(term):
    """(as-written name, resolved name or None)"""
    f = call_target(term)
    if not f:
        return (None, None)
    return (f["def"], f.get("res"))


def op_place(op):
    return op.get("c") or op.get("m")


def op_const(op):
    return op.get("k")


def const_value(k):
    """Python value of a constant record: int / bool / str / bytes list / None."""
    if k is None:
        return None
    v = k.get("val")
    if not v:
        return None
    kind = v.get("kind")
    if kind in ("int", "char", "scalar", "float_bits"):
        return v["v"]
    if kind == "bool":
        return bool(v["v"])
    if kind == "str":
        return v["v"]
    if kind in ("bytes", "ptr_bytes", "slice_bytes"):
        return bytes(v["bytes"])
    if kind == "zst":
        return ()
    if kind == "ptr_static":
        return "static:" + v.get("def", "?")
    return None


class Body:
    def __init__(self, facts, raw):
        self.facts = facts
        self.raw = raw
        self.id = raw["id"]
        self.name = raw["name"]
        self.kind = raw["kind"]
        self.pub = raw["pub"]
        self.file = raw["file"]
        self.line = raw["line"]
        self.argc = raw["argc"]
        self.parent = raw["parent"]
        self.self_ty = raw["self_ty"]
        self.impl = raw["impl"]
        self.locals = raw["locals"]
        self.blocks = raw["blocks"]
        self.idom = raw["idom"]
        self.upvars = {i: n for i, n in raw["upvars"]}
        self.impl_trait = self.name.startswith(facts.crate + "::<") or self.name.startswith("<")
        self.trait_method = None
        self._defs = None
        self._preds = None
        self._terms = {}

    def __repr__(self):
        return "<Body %s>" % self.name

    # -- CFG ------------------------------------------------------------------------------
    def succs(self, bb, unwind=False):
        t = self.blocks[bb]["term"]
        k = t["k"]
        out = []
        if k == "goto":
            out = [t["t"]]
        elif k == "switch":
            out = [x[1] for x in t["targets"]] + [t["otherwise"]]
        elif k in ("call", "drop", "assert"):
            if t.get("t") is not None:
                out = [t["t"]]
            if unwind and t.get("unwind") is not None:
                out.append(t["unwind"])
        return out

    def preds(self):
        if self._preds is None:
            p = defaultdict(list)
            for i in range(len(self.blocks)):
                for s in self.succs(i):
                    p[s].append(i)
            self._preds = p
        return self._preds

    def reachable_blocks(self, start=0, avoid=()):
        seen = set()
        q = [start]
        while q:
            b = q.pop()
            if b in seen or b in avoid:
                continue
            seen.add(b)
            q.extend(self.succs(b))
        return seen

    def dominates(self, a, b):
        """block a dominates block b (rustc's dominator tree)."""
        while b is not None:
            if a == b:
                return True
            b = self.idom[b]
        return False

    def return_blocks(self):
        return [i for i, b in enumerate(self.blocks) if b["term"]["k"] == "ret"]

    def postdominators(self):
        """ipdom over the non-unwind CFG, virtual exit = -1.  Blocks that cannot reach a
        return (diverging) are absent."""
        n = len(self.blocks)
        rets = self.return_blocks()
        preds = self.preds()
        # reverse graph reachability from exits
        order = []
        seen = set()
        stack = [(-1, iter(rets))]
        seen.add(-1)
        while stack:
            node, it = stack[-1]
            adv = False
            for nx in it:
                if nx not in seen:
                    seen.add(nx)
                    stack.append((nx, iter(preds.get(nx, []))))
                    adv = True
                    break
            if not adv:
                order.append(node)
                stack.pop()
        rpo = list(reversed(order))
        idx = {b: i for i, b in enumerate(rpo)}
        ipdom = {-1: -1}

        def rsuccs(b):  # predecessors in reversed graph = successors in CFG (+ virtual exit)
            if b in rets:
                return [-1]
            return [s for s in self.succs(b) if s in idx]

        changed = True
        while changed:
            changed = False
            for b in rpo:
                if b == -1:
                    continue
                new = None
                for s in rsuccs(b):
                    if s in ipdom:
                        if new is None:
                            new = s
                        else:
                            a, c = new, s
                            while a != c:
                                while idx[a] > idx[c]:
                                    a = ipdom[a]
                                while idx[c] > idx[a]:
                                    c = ipdom[c]
                            new = a
                if new is not None and ipdom.get(b) != new:
                    ipdom[b] = new
                    changed = True
        return ipdom

    def postdominates(self, a, b, ipdom=None):
        """a post-dominates b."""
        ipdom = ipdom or self.postdominators()
        if b not in ipdom:
            return False
        while True:
            if a == b:
                return True
            if b == -1:
                return False
            nb = ipdom.get(b)
            if nb is None or nb == b:
                return False
            b = nb

    def back_edges(self):
        out = []
        for i in range(len(self.blocks)):
            for s in self.succs(i):
                if self.dominates(s, i):
                    out.append((i, s))
        return out

    def natural_loop(self, tail, head):
        body = {head}
        st = [tail]
        preds = self.preds()
        while st:
            b = st.pop()
            if b in body:
                continue
            body.add(b)
            st.extend(preds.get(b, []))
        return body

    def loops(self):
        """{head: set(blocks)} merging back edges with the same head."""
        out = {}
        for t, h in self.back_edges():
            out.setdefault(h, set()).update(self.natural_loop(t, h))
        return out

    # -- defs -----------------------------------------------------------------------------
    def defs(self):
        """local -> list of (bb, stmt_idx or 'term', kind, payload) for writes to the *bare* local.
        Writes through projections are recorded in self.partial_writes()."""
        if self._defs is None:
            d = defaultdict(list)
            pw = defaultdict(list)
            borrows = defaultdict(list)
            for bi, blk in enumerate(self.blocks):
                for si, s in enumerate(blk["stmts"]):
                    if s["k"] in ("assign", "setdiscr"):
                        lhs = s["lhs"]
                        if not lhs["p"] and s["k"] == "assign":
                            d[lhs["l"]].append((bi, si, "assign", s))
                        else:
                            pw[lhs["l"]].append((bi, si, s))
                        if s["k"] == "assign" and s["rv"]["k"] in ("ref", "rawptr") and s["rv"].get("mut"):
                            borrows[s["rv"]["place"]["l"]].append((bi, si, s))
                t = blk["term"]
                if t["k"] == "call":
                    dst = t["dest"]
                    if not dst["p"]:
                        d[dst["l"]].append((bi, "term", "call", t))
                    else:
                        pw[dst["l"]].append((bi, "term", t))
            self._defs = d
            self._pw = pw
            self._mutborrows = borrows
        return self._defs

    def partial_writes(self):
        self.defs()
        return self._pw

    def mut_borrows(self):
        self.defs()
        return self._mutborrows

    def local_name(self, l):
        n = self.locals[l]["name"]
        return n

    def local_ty(self, l):
        return self.locals[l]["ty"]

    # -- terms ----------------------------------------------------------------------------
    def term_of_local(self, l, depth=0):
        """Expression tree for a local: parameters become ('param', idx, name); locals with a
        single whole-assignment become the term of their definition; anything else is
        ('var', l, name)."""
        if l in self._terms:
            return self._terms[l]
        if depth > 60:
            return ("var", l, self.local_name(l))
        self._terms[l] = ("var", l, self.local_name(l))  # cycle guard
        if 1 <= l <= self.argc:
            t = ("param", l, self.local_name(l))
            # a parameter that is reassigned is a var
            if self.defs().get(l):
                t = ("var", l, self.local_name(l))
        else:
            ds = self.defs().get(l, [])
            # a number (or Wrapping<number>) that is also changed through `&mut` (`x += 1` on a wrapper type is a call
            # to AddAssign::add_assign(&mut x, 1)) has no single defining expression
            lty = self.locals[l]["ty"] or ""
            if len(ds) == 1 and (lty.startswith("std::num::Wrapping<") or lty in ("u8", "u16", "u32", "u64", "usize", "i8", "i16", "i32", "i64", "isize")) \
                    and (self.mut_borrows().get(l) or self.partial_writes().get(l)):
                ds = []
            if len(ds) == 1:
                bi, si, kind, payload = ds[0]
                if kind == "assign":
                    t = self.term_of_rvalue(payload["rv"], depth + 1)
                else:
                    t = self.term_of_call(payload, bi, depth + 1)
            else:
                t = ("var", l, self.local_name(l))
        self._terms[l] = t
        return t

    def term_of_place(self, p, depth=0):
        t = self.term_of_local(p["l"], depth)
        for e in p["p"]:
            if e == "deref":
                if t[0] == "ref":
                    t = t[1]
                else:
                    t = ("deref", t)
            elif isinstance(e, dict) and "f" in e:
                nm = e.get("name")
                if nm is None and e.get("adt") == "closure" and t == ("param", 1, None):
                    nm = self.upvars.get(e["f"])
                # projecting a field out of a known aggregate
                if t[0] == "agg" and e["f"] < len(t[4]) and t[1] in ("tuple", "adt", "closure"):
                    t = t[4][e["f"]]
                elif t[0] == "downcast" and t[1][0] == "agg" and t[1][1] == "adt" and t[1][3] == t[2] and e["f"] < len(t[1][4]):
                    t = t[1][4][e["f"]]
                elif (t[0] == "downcast" and t[2] == "Continue" and e["f"] == 0 and t[1][0] == "call" and t[1][1].endswith("ops::Try>::branch")
                      and len(t[1][2]) == 1 and t[1][2][0][0] == "agg" and t[1][2][0][1] == "adt" and t[1][2][0][3] in ("Ok", "Some") and t[1][2][0][4]):
                    t = t[1][2][0][4][0]     # `Ok(x)?` is x
                elif (t[0] == "downcast" and t[2] == "Continue" and e["f"] == 0 and t[1][0] == "call" and t[1][1].endswith("ops::Try>::branch")
                      and len(t[1][2]) == 1 and t[1][2][0][0] == "var" and self._sole_ok_def(t[1][2][0][1], depth) is not None):
                    t = self._sole_ok_def(t[1][2][0][1], depth)      # the only definition that can take the Continue arm
                else:
                    t = ("field", t, nm if nm is not None else e["f"], e["f"], e.get("adt"))
            elif isinstance(e, dict) and "idx" in e:
                t = ("index", t, self.term_of_local(e["idx"], depth))
            elif isinstance(e, dict) and "cidx" in e:
                if t[0] == "agg" and t[1] == "array" and e["cidx"] < len(t[4]):
                    t = t[4][e["cidx"]]
                else:
                    t = ("index", t, ("const", e["cidx"], "usize"))
            elif isinstance(e, dict) and "dc" in e:
                t = ("downcast", t, e["dc"], e["vi"])
            elif isinstance(e, dict) and "sub" in e:
                t = ("subslice", t, tuple(e["sub"]), e["from_end"])
            else:
                t = ("proj", t, str(e))
        return t

    def _sole_ok_def(self, l, depth=0):
        """`l` holds a Result/Option built on several paths (an inlined helper's return place): when exactly one
        definition builds Ok/Some and all others build the failing variant, the success payload is that one's."""
        memo = self.__dict__.setdefault("_sole_ok", {})
        if l in memo:
            return memo[l]
        memo[l] = None
        oks = []
        for (bi, si, kind, payload) in self.defs().get(l, []):
            if kind == "assign" and payload["rv"]["k"] == "agg" and payload["rv"].get("ak") == "adt":
                if payload["rv"].get("variant") in ("Ok", "Some"):
                    oks.append(payload)
                elif payload["rv"].get("variant") not in ("Err", "None"):
                    return None
            elif kind != "assign" and (callee_names(payload)[0] or "").endswith("FromResidual::from_residual"):
                continue
            else:
                return None
        if len(oks) == 1 and oks[0]["rv"]["fields"] and depth < 30:
            memo[l] = self.term_of_operand(oks[0]["rv"]["fields"][0], depth + 1)
            for (bi, si, kind, payload) in self.defs().get(l, []):
                if payload is oks[0]:
                    self.__dict__.setdefault("_sole_ok_bb", {})[l] = (bi, oks[0]["rv"].get("vi"))
        return memo[l]

    def sole_ok_block(self, l):
        """(block, variant index) of the only successful definition of the Result/Option local `l`, or None."""
        self._sole_ok_def(l)
        return self.__dict__.get("_sole_ok_bb", {}).get(l)

    def term_of_operand(self, op, depth=0):
        if "k" in op:
            k = op["k"]
            if k.get("kind") == "fn":
                return ("fn", k.get("res") or k["def"], k["def"])
            v = const_value(k)
            if "item" in k:
                return ("const", v, k["ty"], k["item"])
            return ("const", v, k["ty"])
        if "rt" in op:
            return ("const", False, "bool")
        return self.term_of_place(op_place(op), depth)

    def term_of_rvalue(self, rv, depth=0):
        k = rv["k"]
        if k == "use":
            return self.term_of_operand(rv["a"], depth)
        if k == "bin":
            return ("bin", rv["op"], self.term_of_operand(rv["a"], depth), self.term_of_operand(rv["b"], depth), rv.get("aty"))
        if k == "un":
            return ("un", rv["op"], self.term_of_operand(rv["a"], depth))
        if k == "cast":
            return ("cast", self.term_of_operand(rv["a"], depth), rv["ty"], rv.get("from"), rv.get("ck"))
        if k in ("ref", "rawptr"):
            return ("ref", self.term_of_place(rv["place"], depth), rv.get("mut", False))
        if k == "discr":
            return ("discr", self.term_of_place(rv["place"], depth), rv.get("adt"))
        if k == "agg":
            return ("agg", rv.get("ak"), rv.get("def"), rv.get("variant"),
                    tuple(self.term_of_operand(f, depth) for f in rv["fields"]))
        if k == "repeat":
            return ("repeat", self.term_of_operand(rv["a"], depth), rv.get("n"))
        return ("other", k)

    def term_of_call(self, t, bb, depth=0):
        names = callee_names(t)
        args = tuple(self.term_of_operand(a, depth) for a in t["args"])
        if names[0] is None:
            return ("callind", self.term_of_operand(t["fn"], depth), args, bb)
        return ("call", names[1] or names[0], args, bb, names[0])

    # -- named view: user variables are atoms ---------------------------------------------
    def named_view(self):
        """A view of this body whose term builder stops at user-named locals: they appear as
        ('local', idx, name) atoms (object identities) instead of being expanded."""
        if getattr(self, "_nv", None) is None:
            self._nv = NamedView(self)
        return self._nv

    # -- iteration helpers ------------------------------------------------------------------
    def calls(self):
        """Yield (bb, terminator) for every call."""
        for i, blk in enumerate(self.blocks):
            if blk["term"]["k"] == "call":
                yield i, blk["term"]

    def asserts(self):
        for i, blk in enumerate(self.blocks):
            if blk["term"]["k"] == "assert":
                yield i, blk["term"]

    def stmts(self):
        for i, blk in enumerate(self.blocks):
            for j, s in enumerate(blk["stmts"]):
                yield i, j, s

    def where(self, bb=None, line=None):
        if line is None and bb is not None:
            line = self.blocks[bb]["term"].get("line")
        return "%s:%s" % (self.file, line)


DESUGAR_NAMES = ("val", "residual", "iter", "__next")


class NamedView(Body):
    def __init__(self, body):
        self.__dict__.update(body.__dict__)
        self._terms = {}
        self._nv = self
        self._expanding = None

    def is_atom(self, l):
        n = self.locals[l]["name"]
        return n is not None and n not in DESUGAR_NAMES and l > self.argc

    def term_of_local(self, l, depth=0):
        if self.is_atom(l) and l != self._expanding:
            return ("local", l, self.locals[l]["name"])
        return Body.term_of_local(self, l, depth)

    def definition(self, l):
        """Term of the (single) definition of named local l, one level expanded."""
        saved, self._expanding = self._expanding, l
        self._terms.pop(l, None)
        try:
            t = Body.term_of_local(self, l, 0)
        finally:
            self._expanding = saved
            self._terms.pop(l, None)
        return t


# ---------------------------------------------------------------------------------------------
# term utilities

def norm(t):
    """Structural form of a term that ignores *where* a call happened (block index) and
    reference/dereference wrappers, so two evaluations of the same pure expression compare equal."""
    if not isinstance(t, tuple) or not t:
        return t
    tag = t[0]
    if tag in ("ref", "deref"):
        return norm(t[1])
    if tag == "call":
        if (t[1].endswith("ops::Deref>::deref") or t[1].endswith("ops::DerefMut>::deref_mut")) and len(t[2]) == 1:
            return norm(t[2][0])
        return ("call", t[1], tuple(norm(a) for a in t[2]))
    if tag == "callind":
        return ("callind", norm(t[1]), tuple(norm(a) for a in t[2]))
    if tag == "agg":
        return ("agg", t[1], t[2], t[3], tuple(norm(a) for a in t[4]))
    if tag == "bin":
        return ("bin", t[1], norm(t[2]), norm(t[3]))
    if tag in ("un",):
        return ("un", t[1], norm(t[2]))
    if tag == "cast":
        return ("cast", norm(t[1]), t[2])
    if tag == "field":
        return ("field", norm(t[1]), t[2], t[3])
    if tag in ("downcast",):
        return ("downcast", norm(t[1]), t[2])
    if tag == "index":
        return ("index", norm(t[1]), norm(t[2]))
    if tag == "discr":
        return ("discr", norm(t[1]))
    if tag == "const":
        return t[:3]
    return t


def strip_casts(t):
    while t and t[0] == "cast":
        t = t[1]
    return t


def strip_refs(t):
    while t and t[0] in ("ref", "deref"):
        t = t[1]
    return t


def walk(t):
    """Yield all sub-terms (pre-order)."""
    st = [t]
    while st:
        x = st.pop()
        if not isinstance(x, tuple) or not x:
            continue
        yield x
        tag = x[0]
        if tag in ("bin",):
            st.extend([x[2], x[3]])
        elif tag in ("un",):
            st.append(x[2])
        elif tag in ("cast", "deref", "ref", "discr", "field", "downcast", "subslice", "proj", "repeat"):
            st.append(x[1])
        elif tag == "index":
            st.extend([x[1], x[2]])
        elif tag == "call":
            st.extend(x[2])
        elif tag == "callind":
            st.append(x[1])
            st.extend(x[2])
        elif tag == "agg":
            st.extend(x[4])


def fmt(t, depth=0):
    """Readable rendering of a term."""
    if not isinstance(t, tuple) or not t:
        return str(t)
    if depth > 12:
        return "…"
    tag = t[0]
    if tag == "param":
        return t[2] or "arg%d" % t[1]
    if tag == "var":
        return (t[2] or "_%d" % t[1]) + "'"
    if tag == "local":
        return "%s#%d" % (t[2], t[1])
    if tag == "const":
        v = t[1]
        if isinstance(v, int) and not isinstance(v, bool) and v > 9:
            return hex(v)
        if isinstance(v, bytes):
            return "b" + repr(v[:16])
        return repr(v) if not (len(t) > 3) else "%s(=%r)" % (t[3].rsplit("::", 1)[-1], v)
    if tag == "fn":
        return "fn:" + t[1]
    if tag == "bin":
        return "%s(%s, %s)" % (t[1], fmt(t[2], depth + 1), fmt(t[3], depth + 1))
    if tag == "un":
        return "%s(%s)" % (t[1], fmt(t[2], depth + 1))
    if tag == "cast":
        return "(%s as %s)" % (fmt(t[1], depth + 1), t[2])
    if tag == "ref":
        return "&" + fmt(t[1], depth + 1)
    if tag == "deref":
        return "*" + fmt(t[1], depth + 1)
    if tag == "field":
        return "%s.%s" % (fmt(t[1], depth + 1), t[2])
    if tag == "index":
        return "%s[%s]" % (fmt(t[1], depth + 1), fmt(t[2], depth + 1))
    if tag == "downcast":
        return "(%s as %s)" % (fmt(t[1], depth + 1), t[2])
    if tag == "discr":
        return "discr(%s)" % fmt(t[1], depth + 1)
    if tag == "call":
        return "%s(%s)" % (short(t[1]), ", ".join(fmt(a, depth + 1) for a in t[2]))
    if tag == "callind":
        return "(%s)(%s)" % (fmt(t[1], depth + 1), ", ".join(fmt(a, depth + 1) for a in t[2]))
    if tag == "agg":
        nm = t[1] if t[1] != "adt" else "%s::%s" % (short(t[2] or ""), t[3])
        if t[1] == "closure":
            nm = "closure<%s>" % short(t[2])
        return "%s{%s}" % (nm, ", ".join(fmt(a, depth + 1) for a in t[4]))
    if tag == "repeat":
        return "[%s; %s]" % (fmt(t[1], depth + 1), t[2])
    return str(t)


def short(name):
    if not name:
        return str(name)
    # drop generic noise, keep last two path segments
    n = name
    parts = []
    depth = 0
    cur = ""
    i = 0
    while i < len(n):
        ch = n[i]
        if ch == "<":
            depth += 1
        elif ch == ">":
            depth -= 1
        if depth == 0 and n.startswith("::", i):
            parts.append(cur)
            cur = ""
            i += 2
            continue
        cur += ch
        i += 1
    parts.append(cur)
    return "::".join(parts[-2:])


# ---------------------------------------------------------------------------------------------
# pretty printer

def pp_place(p, body=None):
    s = "_%d" % p["l"]
    if body is not None and body.local_name(p["l"]):
        s = "%s[_%d]" % (body.local_name(p["l"]), p["l"])
    for e in p["p"]:
        if e == "deref":
            s = "(*%s)" % s
        elif isinstance(e, dict) and "f" in e:
            s = "%s.%s" % (s, e.get("name", e["f"]))
        elif isinstance(e, dict) and "idx" in e:
            s = "%s[_%d]" % (s, e["idx"])
        elif isinstance(e, dict) and "cidx" in e:
            s = "%s[%d]" % (s, e["cidx"])
        elif isinstance(e, dict) and "dc" in e:
            s = "(%s as %s)" % (s, e["dc"])
        elif isinstance(e, dict) and "sub" in e:
            s = "%s[%s..%s]" % (s, e["sub"][0], e["sub"][1])
        else:
            s = "%s.<%s>" % (s, e)
    return s


def pp_op(op, body=None):
    if "k" in op:
        k = op["k"]
        if k.get("kind") == "fn":
            return "fn:" + short(k.get("res") or k["def"])
        v = const_value(k)
        if v is None:
            return "const<%s>" % k.get("dbg", k["ty"])
        if isinstance(v, int) and not isinstance(v, bool):
            return "%s_%s" % (hex(v) if v > 9 else v, k["ty"])
        return repr(v)
    if "rt" in op:
        return "rt:" + op["rt"]
    pl = op_place(op)
    return ("move " if "m" in op else "") + pp_place(pl, body)


def pp_rv(rv, body=None):
    k = rv["k"]
    if k == "use":
        return pp_op(rv["a"], body)
    if k == "bin":
        return "%s(%s, %s)" % (rv["op"], pp_op(rv["a"], body), pp_op(rv["b"], body))
    if k == "un":
        return "%s(%s)" % (rv["op"], pp_op(rv["a"], body))
    if k == "cast":
        return "%s as %s [%s]" % (pp_op(rv["a"], body), rv["ty"], rv["ck"])
    if k in ("ref", "rawptr"):
        return "&%s%s" % ("mut " if rv.get("mut") else "", pp_place(rv["place"], body))
    if k == "discr":
        return "discriminant(%s)" % pp_place(rv["place"], body)
    if k == "agg":
        nm = rv.get("ak")
        if nm == "adt":
            nm = "%s::%s" % (short(rv["def"]), rv["variant"])
        elif nm == "closure":
            nm = "closure<%s>" % short(rv["def"])
        return "%s{%s}" % (nm, ", ".join(pp_op(f, body) for f in rv["fields"]))
    if k == "repeat":
        return "[%s; %s]" % (pp_op(rv["a"], body), rv["n"])
    return str(rv)


def pp_body(body, out=sys.stdout):
    w = out.write
    w("fn %s  (%s:%d) argc=%d\n" % (body.name, body.file, body.line, body.argc))
    for i, l in enumerate(body.locals):
        if l["name"] or i <= body.argc:
            w("    let _%d: %s  // %s\n" % (i, l["ty"], l["name"]))
    for bi, blk in enumerate(body.blocks):
        if blk["cleanup"]:
            continue
        w("  bb%d:  (idom %s)\n" % (bi, body.idom[bi]))
        for s in blk["stmts"]:
            if s["k"] == "assign":
                w("    %s = %s    // L%s\n" % (pp_place(s["lhs"], body), pp_rv(s["rv"], body), s["line"]))
            elif s["k"] == "setdiscr":
                w("    discriminant(%s) = %s\n" % (pp_place(s["lhs"], body), s["vi"]))
            else:
                w("    %s\n" % s.get("dbg"))
        t = blk["term"]
        k = t["k"]
        if k == "goto":
            w("    goto bb%d\n" % t["t"])
        elif k == "switch":
            w("    switch %s [%s, otherwise bb%d]\n" % (pp_op(t["d"], body), ", ".join("%s->bb%d" % (v, b) for v, b in t["targets"]), t["otherwise"]))
        elif k == "call":
            n = callee_names(t)
            nm = short(n[1] or n[0]) if n[0] else pp_op(t["fn"], body)
            w("    %s = %s(%s) -> bb%s    // L%s%s\n" % (pp_place(t["dest"], body), nm, ", ".join(pp_op(a, body) for a in t["args"]), t["t"], t["line"], " [exp]" if t.get("exp") else ""))
        elif k == "assert":
            m = t["msg"]
            w("    assert(%s%s, %s %s) -> bb%d    // L%s\n" % ("" if t["expected"] else "!", pp_op(t["cond"], body), m["kind"], m.get("op", ""), t["t"], t["line"]))
        elif k == "drop":
            w("    drop(%s) -> bb%d\n" % (pp_place(t["place"], body), t["t"]))
        elif k == "ret":
            w("    return\n")
        else:
            w("    %s\n" % k)


if __name__ == "__main__":
    import argparse
    ap = argparse.ArgumentParser()
    ap.add_argument("facts")
    ap.add_argument("pattern", nargs="?")
    ap.add_argument("--list", action="store_true")
    a = ap.parse_args()
    F = Facts(a.facts)
    if a.list:
        for b in sorted(F.bodies.values(), key=lambda b: b.name):
            print(b.name, "pub" if b.pub else "", b.kind)
    else:
        for b in sorted(F.bodies.values(), key=lambda b: b.name):
            if a.pattern in b.name:
                pp_body(b)
                print()
