"""C09 — LZ13 compression emits a valid wrapped LZ11 stream; never panics (incl. the empty input)."""
from mir import fmt, walk, strip_refs, norm, callee_names
from flow import PathLimit, cond_truth, guards, control_deps
from lz import Encoder, bitslice, canon, fmt_byte, NotBits, prune
from c08 import check_header, token_checks, loop_vars
from c05 import dominating_bounds

EXPLANATION = ("Wrapper and LZ11 header bytes, the three length forms as bit-slice tables with their length classes, "
               "flag bit, flush and advance rules, caps, and a guard check of every subtraction on values derived from "
               "the input length (the empty-input underflow). Expansion == input and the wrapper length value are not decided.")
ASSUMPTIONS = ["the match search returns true matches with displacement >= 2 whenever length >= 3 (value-level)",
               "the wrapper length computed by calculate_lz13_header is not validated"]

FN = "mila::lz13::LZ13CompressionFormat::compress"


def length_interval(classes, L):
    lo, hi = 0, L if L is not None else 1 << 30
    for (op, c, truth) in classes:
        if op == "Lt":
            if truth:
                hi = min(hi, c - 1)
            else:
                lo = max(lo, c)
        elif op == "Gt":
            if truth:
                lo = max(lo, c + 1)
            else:
                hi = min(hi, c)
        elif op == "Le":
            if truth:
                hi = min(hi, c)
            else:
                lo = max(lo, c + 1)
        elif op == "Ge":
            if truth:
                lo = max(lo, c)
            else:
                hi = min(hi, c - 1)
    return lo, hi


DISP_HI = ("disp", -1, 8, 4, 0)
DISP_LO = ([("disp", -1, 0, 8, 0)], 0)
FORMS = {
    2: ("2-byte", (3, 0x10), [([("len", -1, 0, 4, 4), DISP_HI], 0), DISP_LO]),
    3: ("3-byte", (0x11, 0x110), [([("len", -0x11, 4, 4, 0)], 0), ([("len", -0x11, 0, 4, 4), DISP_HI], 0), DISP_LO]),
    4: ("4-byte", (0x111, 0x10110), [([("len", -0x111, 12, 4, 0)], 0x10), ([("len", -0x111, 4, 8, 0)], 0), ([("len", -0x111, 0, 4, 4), DISP_HI], 0), DISP_LO]),
}


def run(facts, rep, ctx):
    R1 = rep.rule("R09.1", "wrapper + LZ11 header: 0x13, 3 length bytes, 0x11, bits [0,8),[8,16),[16,24) of the input length", floor=8)
    R2 = rep.rule("R09.2", "the three LZ11 length forms: byte layouts and the length class each is used for; flag bit; literal", floor=5)
    R3 = rep.rule("R09.3", "caps: look-ahead <= 0x10110 and window-1 <= 0xFFF; references only for length >= 3", floor=3)
    R4 = rep.rule("R09.4", "no subtraction on a value derived from the input length without a dominating guard (empty input)", floor=1)
    R5 = rep.rule("R09.5", "group flush at 8 tokens and at the end iff non-empty; read position advances by 1 / match length", floor=4)
    b = facts.body(FN)
    if b is None or not b.pub:
        rep.inconc(R1, "anchor %s missing" % FN)
        return
    where = "%s:%s" % (b.file, b.line)
    try:
        enc = Encoder(facts, b)
    except PathLimit:
        rep.inconc(R1, "compress: too many paths")
        return
    if enc.search is None:
        rep.inconc(R2, "match-search call not identified")
        return
    # header: first 8 pushes to the result buffer
    hb = enc.header_bytes()[:8]
    enc.header_bytes = lambda: hb
    # wrapper bytes 1..3 must be the three low bytes of one value
    check_header_wrapped(rep, R1, enc, where)
    caps = enc.caps()
    L, W = caps["L"], caps["W"]
    # forms by number of data bytes
    forms = []
    seen = {}
    unknown_emission = None
    for p in enc.loop_paths():
        classes = enc.branch_of(p)
        if any(op == "Lt" and truth for (op, c, truth) in classes):
            continue
        slots = [s for s in enc.emissions(p) if not (len(s) > 2 and s[2] == "merge-into-existing")]
        if enc.emission_unknown or any(s_[0][0] == "unknown" for s_ in slots):
            unknown_emission = enc.emission_unknown or "a byte is stored at an index that is not recognised"
            continue
        n = len(slots)
        lo, hi = length_interval(classes, L)
        if lo > hi:
            continue          # contradictory length tests: not a path any length takes
        mx = {"len": (lo, hi), "disp": (1, W)}
        try:
            got = []
            for s in slots:
                pl, c = bitslice(s[1], enc.classify)
                got.append(canon(prune(pl, mx), c))
        except NotBits as e:
            rep.inconc(R2, "token bytes: %s" % e)
            continue
        seen.setdefault(n, []).append((lo, hi, got))
    for n, (name, (flo, fhi), spec) in sorted(FORMS.items()):
        if n not in seen and unknown_emission:
            rep.inconc(R2, "the %s LZ11 form was not found among the recognised emissions, and some token bytes are stored in a way this rule does not read (%s)" % (name, unknown_emission))
            continue
        if n not in seen:
            rep.violation(R2, b.name, "form-missing:" + name, "no branch emits the %s LZ11 form" % name, where)
            continue
        bad = None
        for lo, hi, got in seen[n]:
            want = [canon(prune(s[0], {"len": (max(lo, flo), min(hi, fhi)), "disp": (1, W)}), s[1]) for s in spec]
            if got != want:
                bad = "%s form emits [%s], specified [%s]" % (name, "; ".join(fmt_byte(x) for x in got), "; ".join(fmt_byte(x) for x in want))
            elif lo < flo or hi > fhi:
                bad = "%s form is used for lengths %d..%d, it can only represent %d..%d" % (name, lo, hi, flo, fhi)
        if bad:
            rep.violation(R2, b.name, "form:" + name, bad, where)
        else:
            rep.ok(R2, {"form": name, "lengths": [(lo, hi) for lo, hi, g in seen[n]][:1], "bytes": [fmt_byte(x) for x in want]})
    for n in seen:
        if n not in FORMS:
            rep.violation(R2, b.name, "form-unknown:%d" % n, "a branch emits %d bytes per reference" % n, where)
    # flag bit / literal / flush / advance through the shared routine (forms already checked above)
    thr = token_checks(rep, R2, R5, enc, [], where)
    if L is None or W is None:
        rep.inconc(R3, "caps not found")
    else:
        if 3 <= L <= 0x10110:
            rep.ok(R3, {"lookahead": L})
        else:
            rep.violation(R3, b.name, "lookahead-cap", "look-ahead cap %s exceeds what the 4-byte form can represent (0x10110)" % hex(L), where)
        if 1 <= W <= 0x1000:
            rep.ok(R3, {"window": W})
        else:
            rep.violation(R3, b.name, "window-cap", "window cap %s: displacement-1 does not fit 12 bits" % hex(W), where)
        if thr and all(t >= 3 for t in thr):
            rep.ok(R3, {"threshold": sorted(thr)})
        elif not thr:
            rep.inconc(R3, "the literal/reference threshold was not recognised")
        else:
            rep.violation(R3, b.name, "threshold", "references are emitted for lengths below 3 (threshold %s): the 2-byte form's high nibble would collide with the form indicators 0/1" % sorted(thr), where)
    sub_guards(facts, rep, R4, b)
    no_failure_on_matches(rep, R5, enc, L, W, where)
    prepass_rule(facts, rep, R5)
    R6 = rep.rule("R09.6", "back-references reach only into data already produced: search contract shared with C10-R10.3", floor=5)
    import c10
    sb = facts.body(enc.search["callee"])
    if sb is not None:
        c10.search_contract(facts, rep, R6, sb)


def prepass_rule(facts, rep, R5):
    """The size pre-pass (`calculate_lz13_header`) fails with an error when the step length is 2 (neither a literal
    nor a usable reference).  compress must succeed on every input, so that value must be unreachable: every
    assignment to the step length is the initial literal 1 or sits under the `>= 3` test of the value assigned."""
    from flow import dom_guards
    from c04 import is_err_term
    b = facts.body("mila::lz13::calculate_lz13_header")
    if b is None:
        return
    where = "%s:%s" % (b.file, b.line)
    # the local the error return depends on: compared with a small constant on the way to the Err aggregate
    err_blocks = [bi for bi, si, st in b.stmts() if st["k"] == "assign" and st["lhs"]["l"] == 0 and not st["lhs"]["p"] and st["rv"]["k"] == "agg" and st["rv"].get("variant") == "Err"]
    lens = set()
    for eb in err_blocks:
        for (a, s_, c) in dom_guards(b, eb):
            ct = cond_truth(c)
            if ct and ct[0][0] == "bin" and ct[0][1] in ("Le", "Lt", "Eq") and ct[0][3][0] == "const" and isinstance(ct[0][3][1], int) and ct[0][3][1] <= 3:
                for x in walk(ct[0][2]):
                    if x[0] == "var":
                        lens.add(x[1])
    if len(lens) != 1:
        if err_blocks:
            rep.inconc(R5, "calculate_lz13_header: the value its error return tests was not identified")
        return
    ll = list(lens)[0]
    bad = None
    n = 0

    def named_root(l):
        """the named local a temporary is a copy of (raw MIR: terms of locals that are updated through `+=` on a
        wrapper type are not reliable)"""
        for _ in range(6):
            if b.local_name(l):
                return l
            ds = b.defs().get(l, [])
            if len(ds) != 1 or ds[0][2] != "assign" or ds[0][3]["rv"]["k"] not in ("use", "cast"):
                return l
            pl = ds[0][3]["rv"]["a"].get("m") or ds[0][3]["rv"]["a"].get("c")
            if pl is None:
                return l
            l = pl["l"]
        return l

    def guard_roots(bi):
        """named locals tested `>= 3` (or `> 2`) on the way to block bi"""
        out = set()
        for (a, s_, c) in dom_guards(b, bi):
            tt = b.blocks[a]["term"]
            if tt["k"] != "switch":
                continue
            dl = tt["d"].get("m") or tt["d"].get("c")
            for st in b.blocks[a]["stmts"]:
                if st["k"] == "assign" and dl is not None and st["lhs"]["l"] == dl["l"] and st["rv"]["k"] == "bin" and st["rv"]["op"] in ("Ge", "Gt", "Lt", "Le"):
                    k = st["rv"]["b"].get("k")
                    apl = st["rv"]["a"].get("m") or st["rv"]["a"].get("c")
                    if not k or k.get("val", {}).get("kind") != "int" or apl is None:
                        continue
                    kv = k["val"]["v"]
                    # which way does the edge a -> s_ go?
                    truth = None
                    for v_, tb in tt["targets"]:
                        if tb == s_:
                            truth = bool(v_)
                    if truth is None and tt["otherwise"] == s_:
                        truth = True
                    op = st["rv"]["op"] if truth else {"Lt": "Ge", "Le": "Gt", "Gt": "Le", "Ge": "Lt"}[st["rv"]["op"]]
                    if (op == "Ge" and kv >= 3) or (op == "Gt" and kv >= 2):
                        out.add(named_root(apl["l"]))
        return out
    for (bi, si, kind, payload) in b.defs().get(ll, []):
        if kind != "assign":
            bad = bad or "is set by a call result"
            continue
        rv = payload["rv"]
        if rv["k"] == "agg" and len(rv["fields"]) == 1 and rv["fields"][0].get("k", {}).get("val", {}).get("v") == 1:
            n += 1
            continue
        if rv["k"] in ("use", "cast") and rv["a"].get("k", {}).get("val", {}).get("v") == 1:
            n += 1          # a plain integer counter: the same initial literal step
            continue
        src = rv["a"].get("m") or rv["a"].get("c") if rv["k"] in ("use", "cast") else None
        if src is not None and named_root(src["l"]) in guard_roots(bi):
            n += 1
        else:
            bad = bad or "can be assigned at line %s from a value that did not pass the `>= 3` test" % payload.get("line")
    if bad:
        rep.violation(R5, b.name, "prepass-length", "the step length of the size pre-pass %s: a value of 2 reaches its `length <= 2` error return, and compress fails on a valid input" % bad, where)
    elif n:
        rep.ok(R5, {"fn": b.name, "step_length": "1, or a value that passed >= 3 (%d assignments)" % n})


def no_failure_on_matches(rep, R5, enc, L, W, where):
    """compress succeeds for every input below the size limit: no error return may depend on what the match search
    found.  A path that returns Err under a comparison on the match length / displacement is checked for
    satisfiability within the caps (length 3..L, displacement 1..W)."""
    from c04 import is_err_term
    bad = None
    for p in enc.paths:
        if p.end != "ret" or is_err_term(p.ret) is not True:
            continue
        sat = True
        dep = False
        for (bb, term, vals, neg, dty) in p.conds:
            ct = cond_truth((term, vals, neg, dty))
            if not ct or ct[0][0] != "bin" or ct[0][1] not in ("Lt", "Le", "Gt", "Ge", "Eq", "Ne") or ct[0][3][0] != "const":
                continue
            what = enc.classify(ct[0][2])
            if what not in ("len", "disp"):
                continue
            dep = True
            lo, hi = (3, L or 0x10110) if what == "len" else (1, W or 0x1000)
            k = ct[0][3][1]
            op = ct[0][1]
            if not ct[1]:
                op = {"Lt": "Ge", "Le": "Gt", "Gt": "Le", "Ge": "Lt", "Eq": "Ne", "Ne": "Eq"}[op]
            ok = {"Lt": lo < k, "Le": lo <= k, "Gt": hi > k, "Ge": hi >= k, "Eq": lo <= k <= hi, "Ne": lo != k or hi != k}[op]
            if op == "Lt" and what == "len":
                # the literal branch (length below the threshold) is not a failure of a found match
                pass
            if not ok:
                sat = False
        if dep and sat:
            conds = "; ".join(fmt(c[1])[:50] for c in p.conds[-3:])
            bad = "compress returns an error on a path selected by the match search's result [%s]: inputs whose best match has such a length / displacement cannot be compressed" % conds
    if bad:
        rep.violation(R5, enc.body.name, "fails-on-match", bad, where)
    else:
        rep.ok(R5, {"fn": enc.body.name, "error_paths": "none depends on the match found"})


def check_header_wrapped(rep, R1, enc, where):
    hb = enc.header_bytes()
    if len(hb) < 8:
        rep.violation(R1, enc.body.name, "header-length", "header has %d byte(s), specified 8" % len(hb), where)
        return
    exp = [("const", 0x13), ("w", 0), ("w", 8), ("w", 16), ("const", 0x11), ("n", 0), ("n", 8), ("n", 16)]
    wsrc = None
    for i, w in enumerate(exp):
        try:
            bt = canon(*bitslice(hb[i], enc.classify))
        except NotBits as e:
            rep.inconc(R1, "header byte %d: %s" % (i, e))
            continue
        if w[0] == "const":
            good = bt == ([], w[1])
            desc = hex(w[1])
        elif w[0] == "w":
            good = len(bt[0]) == 1 and bt[1] == 0 and bt[0][0][1:] == (0, w[1], 8, 0) and bt[0][0][0].startswith("call:")
            if good:
                if wsrc is None:
                    wsrc = bt[0][0][0]
                good = bt[0][0][0] == wsrc
            desc = "bits [%d,%d) of the wrapper length" % (w[1], w[1] + 8)
        else:
            good = bt == ([("n", 0, w[1], 8, 0)], 0)
            desc = "bits [%d,%d) of the input length" % (w[1], w[1] + 8)
        if good:
            rep.ok(R1, {"header_byte": i, "value": fmt_byte(bt)})
        else:
            rep.violation(R1, enc.body.name, "header-byte-%d" % i, "header byte %d is %s, specified %s" % (i, fmt_byte(bt), desc), where)


def sub_guards(facts, rep, R4, b):
    """Every `a - b` on usize values in compress and its local callees whose operands derive only from
    the input length / constants / the read position must be guarded."""
    ids, ext = facts.reachable_from([b.id])
    for i in sorted(ids):
        fb = facts.bodies[i]
        cd = None
        inp = None
        for k in range(1, fb.argc + 1):
            if fb.local_ty(k) == "&[u8]":
                inp = k
        for bb, t in fb.asserts():
            m = t["msg"]
            if m["kind"] != "Overflow" or m["op"] != "Sub":
                continue
            a = fb.term_of_operand(m["a"])
            c = fb.term_of_operand(m["b"])
            where = "%s:%s" % (fb.file, t["line"])

            def is_len(x):
                x = strip_refs(x)
                return x[0] == "call" and x[1].endswith("<impl [T]>::len") and inp is not None and strip_refs(x[2][0])[0] == "param"
            only_len = is_len(a) or (a[0] == "const")
            if not (is_len(a) and c[0] == "const"):
                rep.count("subtractions_not_in_scope")
                continue
            if cd is None:
                cd = control_deps(fb)
            ok = False
            for op, lhs, rhs in dominating_bounds(fb, bb, cd):
                if norm(lhs) == norm(a) and rhs[0] == "const":
                    if (op == "Ge" and rhs[1] >= c[1]) or (op == "Gt" and rhs[1] >= c[1] - 1) or (op == "Ne" and rhs[1] == 0 and c[1] == 1):
                        ok = True
            if ok:
                rep.ok(R4, {"fn": fb.name, "site": "%s - %s guarded" % (fmt(norm(a))[:30], c[1])})
            else:
                rep.violation(R4, fb.name, "sub:len-%s" % c[1], "%s computes len(input) - %s with no dominating guard: panics (checked) or wraps to a huge value (unchecked) on the empty input" % (fb.name.rsplit("::", 1)[-1], c[1]), where)
    # positive evidence that the capacity estimate is underflow-free: saturating/checked form present
    for bb, t in b.calls():
        nm = callee_names(t)[1] or ""
        if nm.endswith("saturating_sub") or nm.endswith("checked_sub") or nm.endswith("wrapping_sub"):
            a = strip_refs(b.term_of_operand(t["args"][0]))
            if a[0] == "call" and a[1].endswith("<impl [T]>::len"):
                rep.ok(R4, {"fn": b.name, "site": "len(input) %s %s" % (nm.rsplit("::", 1)[-1], fmt(b.term_of_operand(t["args"][1])))})
