"""MIR-level inlining over the fact file (still purely static: it rewrites the dumped MIR, it runs nothing).

Why: the rules read the shape of a function.  "Extract helper", "wrap in a generic taking a closure" and
"loop -> iterator adaptor" are the commonest behaviour-preserving edits, and each hides part of that shape
behind a call.  `inline_body` splices crate-local callees (and closures whose construction is visible) back
into the caller, and rewrites a few std adaptors (`any`, `all`, `find`, `find_map`, `position`, `for_each`,
`try_for_each`) into the very `for`-loop skeleton rustc emits, so the rules see one flat body again.

Conventions
  * parameters of an inlined callee become *unnamed* temporaries (they expand to the argument term);
    the callee's own named locals keep their names (NamedView atoms), as if written in the caller;
  * `keep(name)` -> True leaves a call alone (anchors a rule wants to see as calls);
  * recursion and depth are bounded; anything not understood is left as the original call.
"""
import re
import copy

from mir import Body, call_target, callee_names

CLOSURE_CALLS = ("std::ops::Fn::call", "std::ops::FnMut::call_mut", "std::ops::FnOnce::call_once")

# adaptor -> (kind)   kind decides the loop skeleton
ADAPTORS = {
    "std::iter::Iterator::any": "any",
    "std::iter::Iterator::all": "all",
    "std::iter::Iterator::find": "find",
    "std::iter::Iterator::find_map": "find_map",
    "std::iter::Iterator::position": "position",
    "std::iter::Iterator::for_each": "for_each",
    "std::iter::Iterator::try_for_each": "try_for_each",
}


# Option / Result combinators -> explicit match.  (receiver kind, arms) ; arms: variant -> how the result is built
#   ("wrap", V, "f")  : V(f(payload))      ("wrap", V, "id") : V(payload)     ("call", "f") : f(payload) as is
#   ("call0", "f")    : f()                ("wrap0", V, "f") : V(f())         ("arg", V)    : V(second argument)
#   ("payload",)      : payload            ("none",)         : None           ("argv",)     : second argument as is
COMBINATORS = {
    "std::option::Option::<T>::map":            ("opt", {"Some": ("wrap", "Some", "f"), "None": ("none",)}),
    "std::option::Option::<T>::and_then":       ("opt", {"Some": ("call", "f"), "None": ("none",)}),
    "std::option::Option::<T>::ok_or_else":     ("opt", {"Some": ("wrap", "Ok", "id"), "None": ("wrap0", "Err", "f")}),
    "std::option::Option::<T>::ok_or":          ("opt", {"Some": ("wrap", "Ok", "id"), "None": ("arg", "Err")}),
    "std::option::Option::<T>::unwrap_or_else": ("opt", {"Some": ("payload",), "None": ("call0", "f")}),
    "std::option::Option::<T>::unwrap_or":      ("opt", {"Some": ("payload",), "None": ("argv",)}),
    "std::result::Result::<T, E>::map":         ("res", {"Ok": ("wrap", "Ok", "f"), "Err": ("wrap", "Err", "id")}),
    "std::result::Result::<T, E>::map_err":     ("res", {"Ok": ("wrap", "Ok", "id"), "Err": ("wrap", "Err", "f")}),
    "std::result::Result::<T, E>::and_then":    ("res", {"Ok": ("call", "f"), "Err": ("wrap", "Err", "id")}),
    "std::result::Result::<T, E>::or_else":     ("res", {"Ok": ("wrap", "Ok", "id"), "Err": ("call", "f")}),
    "std::result::Result::<T, E>::ok":          ("res", {"Ok": ("wrap", "Some", "id"), "Err": ("none",)}),
    "std::result::Result::<T, E>::unwrap_or_else": ("res", {"Ok": ("payload",), "Err": ("call", "f")}),
    # (default, f): the closure is the *third* argument
    "std::option::Option::<T>::map_or":         ("opt", {"Some": ("call", "f"), "None": ("argv",)}, 2),
    "std::result::Result::<T, E>::map_or":      ("res", {"Ok": ("call", "f"), "Err": ("argv",)}, 2),
    "std::option::Option::<T>::is_some_and":    ("opt", {"Some": ("call", "f"), "None": ("false",)}),
}
VARIANT_OF = {"Some": ("std::option::Option", 1), "None": ("std::option::Option", 0),
              "Ok": ("std::result::Result", 0), "Err": ("std::result::Result", 1)}


def _map_place(p, lm):
    q = {"l": lm(p["l"]), "p": []}
    for e in p["p"]:
        if isinstance(e, dict) and "idx" in e:
            e = dict(e)
            e["idx"] = lm(e["idx"])
        q["p"].append(e)
    return q


def _map_op(op, lm):
    if "c" in op:
        return {"c": _map_place(op["c"], lm)}
    if "m" in op:
        return {"m": _map_place(op["m"], lm)}
    return op


def _map_rv(rv, lm):
    rv = dict(rv)
    for k in ("a", "b"):
        if k in rv and isinstance(rv[k], dict):
            rv[k] = _map_op(rv[k], lm)
    if "place" in rv:
        rv["place"] = _map_place(rv["place"], lm)
    if "fields" in rv:
        rv["fields"] = [_map_op(f, lm) for f in rv["fields"]]
    return rv


def _map_stmt(s, lm):
    s = dict(s)
    if "lhs" in s:
        s["lhs"] = _map_place(s["lhs"], lm)
    if "rv" in s:
        s["rv"] = _map_rv(s["rv"], lm)
    return s


def _map_term(t, lm, bm):
    t = dict(t)
    k = t["k"]
    if k == "goto":
        t["t"] = bm(t["t"])
    elif k == "switch":
        t["d"] = _map_op(t["d"], lm)
        t["targets"] = [[v, bm(b)] for v, b in t["targets"]]
        t["otherwise"] = bm(t["otherwise"])
    elif k == "drop":
        t["place"] = _map_place(t["place"], lm)
        t["t"] = bm(t["t"])
        t["unwind"] = bm(t["unwind"]) if t.get("unwind") is not None else None
    elif k == "call":
        t["fn"] = _map_op(t["fn"], lm)
        t["args"] = [_map_op(a, lm) for a in t["args"]]
        t["dest"] = _map_place(t["dest"], lm)
        t["t"] = bm(t["t"]) if t.get("t") is not None else None
        t["unwind"] = bm(t["unwind"]) if t.get("unwind") is not None else None
    elif k == "assert":
        t["cond"] = _map_op(t["cond"], lm)
        m = dict(t["msg"])
        for kk in ("len", "index", "a", "b"):
            if kk in m and isinstance(m[kk], dict):
                m[kk] = _map_op(m[kk], lm)
        t["msg"] = m
        t["t"] = bm(t["t"])
        t["unwind"] = bm(t["unwind"]) if t.get("unwind") is not None else None
    return t


def _walk_term(t):
    st = [t]
    while st:
        x = st.pop()
        if isinstance(x, tuple) and x and isinstance(x[0], str):
            yield x
            for y in x[1:]:
                if isinstance(y, tuple):
                    if y and isinstance(y[0], str):
                        st.append(y)
                    else:
                        st.extend(z for z in y if isinstance(z, tuple))


def compute_idom(blocks):
    """Immediate dominators over all edges (unwind included), entry = 0; unreachable blocks -> None."""
    n = len(blocks)

    def succs(i):
        t = blocks[i]["term"]
        k = t["k"]
        out = []
        if k == "goto":
            out = [t["t"]]
        elif k == "switch":
            out = [x[1] for x in t["targets"]] + [t["otherwise"]]
        elif k in ("call", "drop", "assert"):
            if t.get("t") is not None:
                out = [t["t"]]
            if t.get("unwind") is not None:
                out.append(t["unwind"])
        return out

    order, seen, st = [], {0}, [(0, iter(succs(0)))]
    while st:
        node, it = st[-1]
        adv = False
        for nx in it:
            if nx not in seen:
                seen.add(nx)
                st.append((nx, iter(succs(nx))))
                adv = True
                break
        if not adv:
            order.append(node)
            st.pop()
    rpo = list(reversed(order))
    idx = {b: i for i, b in enumerate(rpo)}
    preds = {b: [] for b in rpo}
    for b in rpo:
        for s in succs(b):
            if s in preds:
                preds[s].append(b)
    idom = {0: 0}
    changed = True
    while changed:
        changed = False
        for b in rpo[1:]:
            new = None
            for p in preds[b]:
                if p in idom:
                    if new is None:
                        new = p
                    else:
                        a, c = new, p
                        while a != c:
                            while idx[a] > idx[c]:
                                a = idom[a]
                            while idx[c] > idx[a]:
                                c = idom[c]
                        new = a
            if new is not None and idom.get(b) != new:
                idom[b] = new
                changed = True
    out = [None] * n
    for b, d in idom.items():
        out[b] = None if b == 0 else d
    return out


class _Builder:
    def __init__(self, facts, body, keep, depth, adaptors, known_ids=frozenset(), combinators=False):
        self.facts = facts
        self.known_ids = known_ids
        self.combinators = combinators
        self.keep = keep
        self.max_depth = depth
        self.adaptors = adaptors
        raw = body.raw
        self.raw = {k: v for k, v in raw.items() if k not in ("locals", "blocks", "idom")}
        self.locals = [dict(l) for l in raw["locals"]]
        self.blocks = copy.deepcopy(raw["blocks"])
        self.inlined = []            # (callee id, caller block)
        self.origin = {}             # new block -> callee id
        self.root_id = body.id

    # -- helpers ---------------------------------------------------------------------------
    def new_local(self, ty, name=None, mut=True):
        self.locals.append({"ty": ty, "name": name, "mut": mut})
        return len(self.locals) - 1

    def new_block(self, stmts, term, cleanup=False):
        self.blocks.append({"cleanup": cleanup, "stmts": stmts, "term": term})
        return len(self.blocks) - 1

    def snapshot(self):
        raw = dict(self.raw)
        raw["locals"] = self.locals
        raw["blocks"] = self.blocks
        raw["idom"] = compute_idom(self.blocks)
        return Body(self.facts, raw)

    def closure_of_operand(self, op, view):
        """(closure body id, by_ref) when the operand provably denotes a closure built in this body."""
        t = view.term_of_operand(op)
        by_ref = False
        for _ in range(6):
            if t[0] in ("ref",):
                t = t[1]
                by_ref = True
                continue
            if t[0] == "deref":
                t = t[1]
                continue
            break
        if t[0] == "agg" and t[1] == "closure" and t[2] in self.facts.bodies:
            return t[2]
        return None

    # -- splice a callee -------------------------------------------------------------------
    def splice(self, bi, callee, args_ops, untuple, line):
        """Replace the call terminator of block bi by the callee's body. args_ops: operands for
        callee parameters 1..argc (after untupling)."""
        t = self.blocks[bi]["term"]
        craw = callee.raw
        base_l = len(self.locals)
        for i, l in enumerate(craw["locals"]):
            d = dict(l)
            if 1 <= i <= craw["argc"]:
                d["name"] = None
            self.locals.append(d)
        base_b = len(self.blocks)
        lm = lambda l: l + base_l
        bm = lambda b: b + base_b
        cont = t.get("t")
        dest = t["dest"]
        for cb in craw["blocks"]:
            stmts = [_map_stmt(s, lm) for s in cb["stmts"]]
            ct = cb["term"]
            if ct["k"] == "ret":
                stmts.append({"k": "assign", "lhs": dest, "rv": {"k": "use", "a": {"m": {"l": lm(0), "p": []}}},
                              "lty": t.get("dty"), "line": line, "exp": False, "inl": "ret"})
                nt = {"k": "goto", "t": cont, "line": line} if cont is not None else {"k": "unreachable", "line": line}
            elif ct["k"] == "resume" and t.get("unwind") is not None:
                nt = {"k": "goto", "t": t["unwind"], "line": ct.get("line")}
            else:
                nt = _map_term(ct, lm, bm)
                if nt["k"] == "call":
                    self.resolve_self_call(nt, t)
            self.blocks.append({"cleanup": cb["cleanup"], "stmts": stmts, "term": nt})
            self.origin[len(self.blocks) - 1] = callee.id
        # parameter binding
        for i, op in enumerate(args_ops):
            pl = lm(i + 1)
            want = craw["locals"][i + 1]["ty"]
            rv = {"k": "use", "a": op}
            if untuple and i == 0 and want.startswith("&") and ("c" in op or "m" in op):
                have = self.place_ty(op.get("c") or op.get("m"))
                if have is not None and not have.startswith("&"):
                    rv = {"k": "ref", "mut": want.startswith("&mut"), "place": op.get("c") or op.get("m")}
            elif untuple and i == 0 and not want.startswith("&") and ("c" in op or "m" in op):
                # a by-value (FnOnce) closure body reached through a reference to the closure
                pl_ = op.get("c") or op.get("m")
                have = self.place_ty(pl_)
                if have is not None and have.startswith("&"):
                    rv = {"k": "use", "a": {"c": {"l": pl_["l"], "p": pl_["p"] + ["deref"]}}}
            self.blocks[bi]["stmts"].append({"k": "assign", "lhs": {"l": pl, "p": []}, "rv": rv,
                                             "lty": want, "line": line, "exp": False, "inl": "arg"})
        self.blocks[bi]["term"] = {"k": "goto", "t": bm(0), "line": line, "inl": callee.id}
        self.inlined.append((callee.id, bi))
        return range(base_b, len(self.blocks))

    def place_ty(self, p):
        if p["p"]:
            return None
        return self.locals[p["l"]]["ty"]

    def find_impl(self, trait_method, self_ty):
        """Body of `<self_ty as Trait>::method` for the trait method path `crate::..::Trait::method`."""
        norm_ty = lambda x: re.sub(r"'\w+", "'_", x or "")
        self_ty = norm_ty(self_ty)
        if "::" not in trait_method:
            return None
        tpath, meth = trait_method.rsplit("::", 1)
        crate = tpath.split("::", 1)[0]
        tshort = tpath.split("::", 1)[1] if "::" in tpath else tpath
        for b in self.facts.bodies.values():
            n = b.name
            if not n.endswith("::" + meth) or " as " not in n:
                continue
            m_ = re.match(r"^%s::<(.+) as (.+)>::%s$" % (re.escape(crate), re.escape(meth)), n)
            if m_ and norm_ty(m_.group(1)) == self_ty and m_.group(2).split("<")[0] == tshort:
                return b
        return None

    def devirt_one(self, view):
        """A `dyn Trait` method call whose receiver was coerced from concrete types inside this body: resolve it
        (one coercion) or split the straight-line run from the join of the coercions to the call, one copy per
        concrete type (several), so that each copy calls its own impl."""
        nblocks = len(self.blocks)
        preds = {}
        for bi, blk in enumerate(self.blocks):
            for s_ in view.succs(bi, unwind=False):
                preds.setdefault(s_, set()).add(bi)
        for ci in range(nblocks):
            blk = self.blocks[ci]
            t = blk["term"]
            if t["k"] != "call" or blk["cleanup"] or not t.get("args"):
                continue
            k = (t.get("fn") or {}).get("k") or {}
            if k.get("res_kind") != "virtual":
                continue
            rp = t["args"][0].get("m") or t["args"][0].get("c")
            if rp is None or rp["p"]:
                continue
            cur = rp["l"]
            cands = None
            for _ in range(12):
                ds = view.defs().get(cur, [])
                if not ds or any(d[2] != "assign" for d in ds):
                    break
                rvs = [d[3]["rv"] for d in ds]
                def bare(op):
                    pl = op.get("m") or op.get("c") if isinstance(op, dict) else None
                    return pl["l"] if pl and not pl["p"] else None
                def concrete(rv):
                    fr = rv.get("from") or ""
                    return rv["k"] == "cast" and "Unsize" in str(rv.get("ck")) and "dyn " not in fr
                if all(concrete(rv) for rv in rvs):
                    cands = [(d[0], rv.get("from")) for d, rv in zip(ds, rvs)]
                    break
                if len(ds) != 1:
                    break
                rv = rvs[0]
                nxt = None
                if rv["k"] == "use":
                    nxt = bare(rv["a"])
                elif rv["k"] == "ref" and rv["place"]["p"] == ["deref"]:
                    nxt = rv["place"]["l"]
                elif rv["k"] == "cast":
                    nxt = bare(rv["a"])
                if nxt is None:
                    break
                cur = nxt
            if not cands:
                continue
            strip = lambda ty: re.sub(r"^(&mut |&|std::boxed::Box<)", "", ty or "").rstrip(">") if (ty or "").startswith("std::boxed::Box<") else re.sub(r"^(&mut |&)", "", ty or "")
            impls = []
            for (db, fr) in cands:
                ib = self.find_impl(k["def"], strip(fr))
                impls.append((db, strip(fr), ib))
            def resolved(kk, ty_, ib):
                kk = dict(kk)
                if ib is not None:
                    kk.update({"res": ib.name, "res_id": ib.id, "res_gargs": [ty_], "res_kind": "item"})
                else:
                    kk.update({"res": kk["def"], "res_id": kk.get("def_id"), "res_gargs": [ty_], "res_kind": "item", "gargs": [ty_]})
                return {"k": kk}
            if len(cands) == 1:
                t["fn"] = resolved(k, impls[0][1], impls[0][2])
                self.inlined.append(("adaptor:devirt", ci))
                return True
            # several coercions: their blocks must all jump to one join, from which a straight line reaches the call
            dbs = [c[0] for c in cands]
            if len(set(dbs)) != len(dbs):
                continue
            joins = set()
            for db in dbs:
                tt = self.blocks[db]["term"]
                joins.add(tt["t"] if tt["k"] == "goto" else None)
            if len(joins) != 1 or None in joins:
                continue
            j = joins.pop()
            if preds.get(j, set()) != set(dbs):
                continue
            chain = [j]
            ok = True
            while chain[-1] != ci:
                tt = self.blocks[chain[-1]]["term"]
                if tt["k"] != "goto" or len(chain) > 12:
                    ok = False
                    break
                nx = tt["t"]
                if preds.get(nx, set()) != {chain[-1]} or nx in chain:
                    ok = False
                    break
                chain.append(nx)
            if not ok:
                continue
            inside = set(chain)
            used_out = set()
            rec = lambda l: (used_out.add(l), l)[1]
            for bi, b_ in enumerate(self.blocks):
                if bi in inside:
                    continue
                for st in b_["stmts"]:
                    _map_stmt(st, rec)
                if b_["term"] is not None:
                    _map_term(b_["term"], rec, lambda x: x)
            assigned = set()
            for bi in chain:
                for st in self.blocks[bi]["stmts"]:
                    if st["k"] == "assign" and not st["lhs"]["p"]:
                        assigned.add(st["lhs"]["l"])
            argc = self.raw.get("argc", 0)
            private = {l for l in assigned if l not in used_out and l > argc}
            for (db, ty_, ib) in impls:
                lmap = {l: self.new_local(self.locals[l]["ty"], name=self.locals[l].get("name")) for l in sorted(private)}
                base = len(self.blocks)
                bmap = {b_: base + i for i, b_ in enumerate(chain)}
                lm = lambda l, lmap=lmap: lmap.get(l, l)
                bm = lambda b_, bmap=bmap: bmap.get(b_, b_)
                for b_ in chain:
                    src = self.blocks[b_]
                    nt = _map_term(copy.deepcopy(src["term"]), lm, bm)
                    if b_ == ci:
                        nt["fn"] = resolved(k, ty_, ib)
                    self.blocks.append({"cleanup": src["cleanup"], "stmts": [_map_stmt(copy.deepcopy(st), lm) for st in src["stmts"]], "term": nt})
                    self.origin[len(self.blocks) - 1] = "devirt"
                dt = dict(self.blocks[db]["term"])
                dt["t"] = bmap[j]
                self.blocks[db]["term"] = dt
            for b_ in chain:
                self.blocks[b_] = {"cleanup": False, "stmts": [], "term": {"k": "unreachable", "line": t.get("line")}}
            self.inlined.append(("adaptor:devirt%d" % len(impls), ci))
            return True
        return False

    def resolve_self_call(self, nt, outer):
        """Inside a trait's default method the sibling calls `self.m()` are generic in Self.  Once the method is
        expanded at a call whose Self type is known, they resolve to that type's impl."""
        k = (nt.get("fn") or {}).get("k") or {}
        if k.get("kind") != "fn" or k.get("res") or "Self" not in (k.get("gargs") or []):
            return
        k = dict(k)                        # the constant record is shared with the callee's own body
        nt["fn"] = {"k": k}
        ok = ((outer.get("fn") or {}).get("k") or {})
        og = ok.get("res_gargs") or ok.get("gargs") or []
        if not og:
            return
        norm_ty = lambda x: re.sub(r"'\w+", "'_", x or "")
        self_ty = norm_ty(og[0])
        tr = k["def"]                      # crate::path::Trait::method
        if "::" not in tr:
            return
        tpath, meth = tr.rsplit("::", 1)
        crate = tpath.split("::", 1)[0]
        tshort = tpath.split("::", 1)[1] if "::" in tpath else tpath
        for b in self.facts.bodies.values():
            n = b.name
            if not n.endswith("::" + meth) or " as " not in n:
                continue
            m_ = re.match(r"^%s::<(.+) as (.+)>::%s$" % (re.escape(crate), re.escape(meth)), n)
            if m_ and norm_ty(m_.group(1)) == self_ty and m_.group(2).split("<")[0] == tshort:
                k["res"] = n
                k["res_id"] = b.id
                k["res_gargs"] = list(og[:1])
                k["res_kind"] = "item"
                return

    # -- adaptor -> loop -------------------------------------------------------------------
    def desugar(self, bi, kind, closure, line):
        """iter.kind(closure)  ==>  the `for` skeleton with the closure call in the body.  The closure
        call itself is left for the next round of inlining."""
        t = self.blocks[bi]["term"]
        it_op, cl_op = t["args"][0], t["args"][1]
        cont, dest, dty = t.get("t"), t["dest"], t.get("dty")
        if cont is None:
            return False
        craw = closure.raw
        if craw["argc"] != 2:
            return False
        arg_ty = craw["locals"][2]["ty"]
        item_ty = arg_ty[1:].lstrip() if kind == "find" and arg_ty.startswith("&") else arg_ty
        it_place = it_op.get("m") or it_op.get("c")
        if it_place is None:
            return False
        it_ty = self.place_ty(it_place) or "?"
        if it_place["p"]:
            return False
        it = it_place["l"]
        # when `iter` is `&mut I` (by_ref), next() goes through the reference; keep it simple: both forms
        l_ref = self.new_local("&mut " + it_ty)
        l_next = self.new_local("std::option::Option<%s>" % item_ty)
        l_d = self.new_local("isize")
        l_x = self.new_local(item_ty, name=None)
        l_cl = self.new_local(self.place_ty(cl_op.get("m") or cl_op.get("c") or {"p": [1]}) or "?")
        l_clref = self.new_local("&mut closure")
        l_args = self.new_local("(%s,)" % arg_ty)
        l_r = self.new_local(self.ret_ty(closure))
        P = lambda l, *proj: {"l": l, "p": list(proj)}
        A = lambda lhs, rv, ty=None: {"k": "assign", "lhs": lhs, "rv": rv, "lty": ty, "line": line, "exp": False, "inl": "adaptor"}
        U = lambda op: {"k": "use", "a": op}
        K = lambda v, ty, kind="int": {"k": {"ty": ty, "val": {"kind": kind, "v": v}, "dbg": str(v)}}
        bare = it_ty[5:] if it_ty.startswith("&mut ") else it_ty
        next_name = "<%s as std::iter::Iterator>::next" % bare
        fnrec = lambda d, r: {"k": {"ty": "fn", "kind": "fn", "def": d, "def_id": d, "gargs": [], "res": r}}
        # blocks (allocated first so they can reference each other)
        head = self.new_block([], None)
        sw = self.new_block([], None)
        body = self.new_block([], None)
        after = self.new_block([], None)
        exit_none = self.new_block([], None)
        exit_hit = self.new_block([], None)
        unreach = self.new_block([], {"k": "unreachable", "line": line})
        self.blocks[bi]["stmts"].append(A(P(l_cl), U(cl_op)))
        self.blocks[bi]["term"] = {"k": "goto", "t": head, "line": line, "inl": "adaptor:" + kind}
        self.blocks[head]["stmts"] = [A(P(l_ref), {"k": "ref", "mut": True, "place": P(it)})]
        self.blocks[head]["term"] = {"k": "call", "fn": fnrec("std::iter::Iterator::next", next_name),
                                     "args": [{"m": P(l_ref)}], "dest": P(l_next), "dty": self.locals[l_next]["ty"],
                                     "t": sw, "unwind": None, "exp": False, "line": line, "inl": "adaptor"}
        self.blocks[sw]["stmts"] = [A(P(l_d), {"k": "discr", "place": P(l_next), "adt": self.locals[l_next]["ty"]})]
        self.blocks[sw]["term"] = {"k": "switch", "d": {"m": P(l_d)}, "dty": "isize",
                                   "targets": [[0, exit_none], [1, body]], "otherwise": unreach, "line": line}
        some = {"dc": "Some", "vi": 1}
        fld = {"f": 0, "name": "0", "adt": "std::option::Option"}
        self.blocks[body]["stmts"] = [
            A(P(l_x), U({"m": P(l_next, some, fld)}), item_ty),
            A(P(l_clref), {"k": "ref", "mut": True, "place": P(l_cl)}),
            A(P(l_args), {"k": "agg", "ak": "tuple", "fields": [
                {"c": P(l_x)} if not (kind == "find") else {"c": P(l_x)}]}),
        ]
        if kind == "find":
            # predicate receives &item
            l_xr = self.new_local("&" + item_ty)
            self.blocks[body]["stmts"][2] = A(P(l_xr), {"k": "ref", "mut": False, "place": P(l_x)})
            self.blocks[body]["stmts"].append(A(P(l_args), {"k": "agg", "ak": "tuple", "fields": [{"m": P(l_xr)}]}))
        self.blocks[body]["term"] = {"k": "call", "fn": fnrec("std::ops::FnMut::call_mut", closure.name),
                                     "args": [{"m": P(l_clref)}, {"m": P(l_args)}], "dest": P(l_r),
                                     "dty": self.locals[l_r]["ty"], "t": after, "unwind": None, "exp": False,
                                     "line": line, "inl": "adaptor-call"}
        self.blocks[body]["term"]["fn"]["k"]["res_id"] = closure.id
        bool_k = lambda v: {"k": {"ty": "bool", "val": {"kind": "bool", "v": v}, "dbg": str(v)}}
        opt = lambda variant, vi, fields: {"k": "agg", "ak": "adt", "def": "std::option::Option", "variant": variant,
                                           "vi": vi, "field_names": ["0"] if fields else [], "fields": fields}
        unit = {"k": "agg", "ak": "tuple", "fields": []}
        G = lambda b: {"k": "goto", "t": b, "line": line}
        if kind in ("any", "all"):
            hit_val = kind == "any"
            # any: closure true -> dest = true ; all: closure false -> dest = false
            self.blocks[after]["term"] = {"k": "switch", "d": {"m": P(l_r)}, "dty": "bool",
                                          "targets": [[0, head if kind == "any" else exit_hit]],
                                          "otherwise": exit_hit if kind == "any" else head, "line": line}
            self.blocks[exit_hit]["stmts"] = [A(dest, U(bool_k(hit_val)), dty)]
            self.blocks[exit_none]["stmts"] = [A(dest, U(bool_k(not hit_val)), dty)]
        elif kind == "find":
            self.blocks[after]["term"] = {"k": "switch", "d": {"m": P(l_r)}, "dty": "bool",
                                          "targets": [[0, head]], "otherwise": exit_hit, "line": line}
            self.blocks[exit_hit]["stmts"] = [A(dest, opt("Some", 1, [{"m": P(l_x)}]), dty)]
            self.blocks[exit_none]["stmts"] = [A(dest, opt("None", 0, []), dty)]
        elif kind == "find_map":
            l_d2 = self.new_local("isize")
            self.blocks[after]["stmts"] = [A(P(l_d2), {"k": "discr", "place": P(l_r), "adt": self.locals[l_r]["ty"]})]
            self.blocks[after]["term"] = {"k": "switch", "d": {"m": P(l_d2)}, "dty": "isize",
                                          "targets": [[0, head]], "otherwise": exit_hit, "line": line}
            self.blocks[exit_hit]["stmts"] = [A(dest, U({"m": P(l_r)}), dty)]
            self.blocks[exit_none]["stmts"] = [A(dest, opt("None", 0, []), dty)]
        elif kind == "position":
            l_i = self.new_local("usize")
            incr = self.new_block([], None)
            self.blocks[bi]["stmts"].append(A(P(l_i), U(K(0, "usize")), "usize"))
            self.blocks[after]["term"] = {"k": "switch", "d": {"m": P(l_r)}, "dty": "bool",
                                          "targets": [[0, incr]], "otherwise": exit_hit, "line": line}
            self.blocks[incr]["stmts"] = [A(P(l_i), {"k": "bin", "op": "Add", "a": {"c": P(l_i)}, "b": K(1, "usize"), "aty": "usize"}, "usize")]
            self.blocks[incr]["term"] = G(head)
            self.blocks[exit_hit]["stmts"] = [A(dest, opt("Some", 1, [{"c": P(l_i)}]), dty)]
            self.blocks[exit_none]["stmts"] = [A(dest, opt("None", 0, []), dty)]
        elif kind == "for_each":
            self.blocks[after]["term"] = G(head)
            self.blocks[exit_none]["stmts"] = [A(dest, unit, dty)]
            self.blocks[exit_hit]["stmts"] = []
        elif kind == "try_for_each":
            # R = Result<(), E> / Option<()> / ControlFlow: variant 0 continues (Ok / Continue) except Option
            rty = self.locals[l_r]["ty"]
            l_d2 = self.new_local("isize")
            self.blocks[after]["stmts"] = [A(P(l_d2), {"k": "discr", "place": P(l_r), "adt": rty})]
            if rty.startswith("std::result::Result<") or rty.startswith("std::ops::ControlFlow<"):
                cont_vi = 0
            elif rty.startswith("std::option::Option<"):
                cont_vi = 1
            else:
                return False
            self.blocks[after]["term"] = {"k": "switch", "d": {"m": P(l_d2)}, "dty": "isize",
                                          "targets": [[cont_vi, head]], "otherwise": exit_hit, "line": line}
            self.blocks[exit_hit]["stmts"] = [A(dest, U({"m": P(l_r)}), dty)]
            if rty.startswith("std::result::Result<"):
                okv = {"k": "agg", "ak": "adt", "def": "std::result::Result", "variant": "Ok", "vi": 0,
                       "field_names": ["0"], "fields": [{"k": {"ty": "()", "val": {"kind": "zst"}, "dbg": "()"}}]}
            elif rty.startswith("std::option::Option<"):
                okv = opt("Some", 1, [{"k": {"ty": "()", "val": {"kind": "zst"}, "dbg": "()"}}])
            else:
                okv = {"k": "agg", "ak": "adt", "def": "std::ops::ControlFlow", "variant": "Continue", "vi": 0,
                       "field_names": ["0"], "fields": [{"k": {"ty": "()", "val": {"kind": "zst"}, "dbg": "()"}}]}
            self.blocks[exit_none]["stmts"] = [A(dest, okv, dty)]
        else:
            return False
        self.blocks[exit_hit]["term"] = G(cont)
        self.blocks[exit_none]["term"] = G(cont)
        for b in (head, sw, body, after, exit_none, exit_hit):
            if self.blocks[b]["term"] is None:
                self.blocks[b]["term"] = G(cont)
        self.inlined.append(("adaptor:" + kind, bi))
        return True

    # -- lazy adaptors (map / take_while / filter) and count ---------------------------------
    LAZY = {"std::iter::Iterator::map": "map", "std::iter::Iterator::take_while": "take_while",
            "std::iter::Iterator::filter": "filter"}

    def _origin_call(self, view, op):
        """The call terminator that built the iterator behind operand `op` (through moves, `&mut`, and the identity
        `IntoIterator::into_iter` of an iterator), as (block index, terminator) -- or None."""
        pl = op.get("m") or op.get("c")
        for _ in range(12):
            if pl is not None and pl["p"] == ["deref"]:
                pl = {"l": pl["l"], "p": []}      # a reborrow `&mut *r`: what r refers to
            if pl is None or pl["p"]:
                return None
            ds = view.defs().get(pl["l"], [])
            if len(ds) != 1:
                return None
            bi, si, kind, payload = ds[0]
            if kind == "assign":
                rv = payload["rv"]
                if rv["k"] == "ref":
                    pl = rv["place"]
                elif rv["k"] == "use":
                    pl = rv["a"].get("m") or rv["a"].get("c")
                else:
                    return None
                continue
            if kind == "call":
                f = call_target(payload)
                dn = f.get("def") if f else None
                if dn == "std::iter::IntoIterator::into_iter" and payload["args"]:
                    a = payload["args"][0]
                    apl = a.get("m") or a.get("c")
                    if apl is not None and not apl["p"] and self.locals[apl["l"]]["ty"] == self.locals[pl["l"]]["ty"]:
                        pl = apl
                        continue
                    return None
                return (bi, payload)
            return None
        return None

    def fuse_one(self, view):
        """One rewrite per call: `next()` on a Map / TakeWhile / Filter whose construction (with its closure) is
        visible in this body becomes  inner.next()  + the closure call + the adaptor's own decision;  `count()`
        becomes the counting loop.  The adaptor object itself stays (other consumers still see it)."""
        for bi in range(len(self.blocks)):
            blk = self.blocks[bi]
            t = blk["term"]
            if t["k"] != "call" or blk["cleanup"] or t.get("t") is None:
                continue
            f = call_target(t)
            if not f:
                continue
            dn = f.get("def")
            line = t.get("line")
            if dn == "std::iter::Iterator::collect" and len(t["args"]) == 1 and "fused" not in t:
                if self._desugar_collect(bi, line):
                    return True
                t["fused"] = False
                continue
            if dn == "std::iter::Iterator::count" and len(t["args"]) == 1 and "fused" not in t:
                if self._desugar_count(bi, line):
                    return True
                t["fused"] = False
                continue
            if dn != "std::iter::Iterator::next" or len(t["args"]) != 1 or "fused" in t:
                continue
            rn = f.get("res") or ""
            if re.match(r"^<std::iter::Zip<", rn):
                oc = self._origin_call(view, t["args"][0])
                df = call_target(oc[1]) if oc else None
                if oc and df and df.get("def") == "std::iter::Iterator::zip" and len(oc[1]["args"]) == 2 and self._fuse_zip(bi, oc[0], line):
                    return True
                t["fused"] = False
                continue
            if re.match(r"^<std::slice::Iter<", rn) and t.get("inl") == "fuse":
                if self._fuse_slice_next(view, bi, line):
                    return True
                t["fused"] = False
                continue
            if not re.match(r"^<std::iter::(Map|TakeWhile|Filter)<", rn):
                continue
            oc = self._origin_call(view, t["args"][0])
            if oc is None:
                t["fused"] = False
                continue
            bd, dt = oc
            df = call_target(dt)
            kind = self.LAZY.get(df.get("def") if df else None)
            if kind is None or len(dt["args"]) != 2:
                t["fused"] = False
                continue
            cid = self.closure_of_operand(dt["args"][1], view)
            if not cid:
                t["fused"] = False
                continue
            if self._fuse_next(bi, bd, kind, self.facts.bodies[cid], line):
                return True
            t["fused"] = False
        return False

    def _fuse_zip(self, bi, bd, line):
        """`dest = Zip::next(&mut z)`, z built at block bd by `a.zip(b)`:  a.next() then b.next(), Some((x, y)) when
        both are Some.  A `&[T]` handed to zip is iterated as a slice (a counter over it)."""
        dt = self.blocks[bd]["term"]
        sites = self.__dict__.setdefault("zip_sites", {})
        if bd not in sites:
            a_op, b_op = dt["args"][0], dt["args"][1]
            apl = a_op.get("m") or a_op.get("c")
            bpl = b_op.get("m") or b_op.get("c")
            if apl is None or bpl is None or apl["p"] or bpl["p"]:
                return False
            zty = self.locals[dt["dest"]["l"]]["ty"]
            a_ty = self.locals[apl["l"]]["ty"]
            b_ty = self.locals[bpl["l"]]["ty"]
            if not zty.startswith("std::iter::Zip<" + a_ty + ", "):
                return False
            want_b = zty[len("std::iter::Zip<" + a_ty + ", "):-1]
            l_a = self.new_local(a_ty)
            cp = lambda pl: {"k": "use", "a": {"c": {"l": pl["l"], "p": []}}}
            st = [{"k": "assign", "lhs": {"l": l_a, "p": []}, "rv": cp(apl), "lty": a_ty, "line": line, "exp": False, "inl": "adaptor"}]
            # two slices walked in step (`s.iter().zip(t)`, the iterator made on the spot and used by nothing else):
            # one shared counter, so that rules see the two elements of a pair at the same offset
            view_ = self.snapshot()
            oa = self._origin_call(view_, a_op)
            fa = call_target(oa[1]) if oa else None
            uses_a = sum(1 for blk_ in self.blocks for st_ in blk_["stmts"] if st_["k"] == "assign" and st_["rv"]["k"] == "use" and
                         (st_["rv"]["a"].get("m") or st_["rv"]["a"].get("c") or {}).get("l") == apl["l"]) + \
                sum(1 for blk_ in self.blocks if blk_["term"]["k"] == "call" for a_ in blk_["term"]["args"] if (a_.get("m") or a_.get("c") or {}).get("l") == apl["l"])
            if (fa and fa.get("def") == "core::slice::<impl [T]>::iter" and len(oa[1]["args"]) == 1 and uses_a == 1
                    and want_b.startswith("std::slice::Iter<") and re.match(r"^&(\[.*\]|std::vec::Vec<.*>)$", b_ty)):
                sapl = oa[1]["args"][0].get("m") or oa[1]["args"][0].get("c")
                if sapl is not None and not sapl["p"]:
                    l_sa = self.new_local(self.locals[sapl["l"]]["ty"])
                    l_k = self.new_local("usize", name=None)
                    self.blocks[oa[0]]["stmts"].append({"k": "assign", "lhs": {"l": l_sa, "p": []}, "rv": cp(sapl), "lty": None, "line": line, "exp": False, "inl": "adaptor"})
                    st.append({"k": "assign", "lhs": {"l": l_k, "p": []}, "rv": {"k": "use", "a": {"k": {"ty": "usize", "val": {"kind": "int", "v": 0}, "dbg": "0"}}},
                               "lty": "usize", "line": line, "exp": False, "inl": "adaptor"})
                    self.blocks[bd]["stmts"] += st
                    sites[bd] = ("lockstep", l_sa, bpl["l"], l_k)
            if bd in sites:
                return self._fuse_zip_lockstep(bi, sites[bd], line)
            l_b = self.new_local(want_b)
            if b_ty == want_b:
                st.append({"k": "assign", "lhs": {"l": l_b, "p": []}, "rv": cp(bpl), "lty": b_ty, "line": line, "exp": False, "inl": "adaptor"})
            elif want_b.startswith("std::slice::Iter<") and re.match(r"^&(\[.*\]|std::vec::Vec<.*>)$", b_ty):
                l_k = self.new_local("usize", name=None)
                st.append({"k": "assign", "lhs": {"l": l_k, "p": []}, "rv": {"k": "use", "a": {"k": {"ty": "usize", "val": {"kind": "int", "v": 0}, "dbg": "0"}}},
                           "lty": "usize", "line": line, "exp": False, "inl": "adaptor"})
                self.__dict__.setdefault("slice_locals", {})[l_b] = (bpl["l"], l_k)
            else:
                return False
            self.blocks[bd]["stmts"] += st
            sites[bd] = (l_a, l_b, a_ty, want_b)
        if sites[bd][0] == "lockstep":
            return self._fuse_zip_lockstep(bi, sites[bd], line)
        l_a, l_b, a_ty, b_ty = sites[bd]
        t = self.blocks[bi]["term"]
        cont, dest, dty = t["t"], t["dest"], t.get("dty")
        P = lambda l, *proj: {"l": l, "p": list(proj)}
        A = lambda lhs, rv, ty=None: {"k": "assign", "lhs": lhs, "rv": rv, "lty": ty, "line": line, "exp": False, "inl": "adaptor"}
        fnrec = lambda r: {"k": {"ty": "fn", "kind": "fn", "def": "std::iter::Iterator::next", "def_id": "std::iter::Iterator::next", "gargs": [], "res": r}}
        some = {"dc": "Some", "vi": 1}
        fld = {"f": 0, "name": "0", "adt": "std::option::Option"}
        l_ra, l_rb = self.new_local("&mut " + a_ty), self.new_local("&mut " + b_ty)
        l_na, l_nb = self.new_local("std::option::Option<?a>"), self.new_local("std::option::Option<?b>")
        l_da, l_db = self.new_local("isize"), self.new_local("isize")
        sw_a = self.new_block([], None)
        nx_b = self.new_block([], None)
        sw_b = self.new_block([], None)
        both = self.new_block([], None)
        none = self.new_block([], None)
        unreach = self.new_block([], {"k": "unreachable", "line": line})
        mk_next = lambda ty, ref, dst, to: {"k": "call", "fn": fnrec("<%s as std::iter::Iterator>::next" % ty), "args": [{"m": P(ref)}], "dest": P(dst),
                                            "dty": self.locals[dst]["ty"], "t": to, "unwind": None, "exp": False, "line": line, "inl": "fuse"}
        self.blocks[bi]["stmts"].append(A(P(l_ra), {"k": "ref", "mut": True, "place": P(l_a)}))
        self.blocks[bi]["term"] = mk_next(a_ty, l_ra, l_na, sw_a)
        self.blocks[sw_a]["stmts"] = [A(P(l_da), {"k": "discr", "place": P(l_na), "adt": "std::option::Option"})]
        self.blocks[sw_a]["term"] = {"k": "switch", "d": {"m": P(l_da)}, "dty": "isize", "targets": [[0, none], [1, nx_b]], "otherwise": unreach, "line": line}
        self.blocks[nx_b]["stmts"] = [A(P(l_rb), {"k": "ref", "mut": True, "place": P(l_b)})]
        self.blocks[nx_b]["term"] = mk_next(b_ty, l_rb, l_nb, sw_b)
        self.blocks[sw_b]["stmts"] = [A(P(l_db), {"k": "discr", "place": P(l_nb), "adt": "std::option::Option"})]
        self.blocks[sw_b]["term"] = {"k": "switch", "d": {"m": P(l_db)}, "dty": "isize", "targets": [[0, none], [1, both]], "otherwise": unreach, "line": line}
        l_pair = self.new_local("(?a, ?b)")
        self.blocks[both]["stmts"] = [
            A(P(l_pair), {"k": "agg", "ak": "tuple", "fields": [{"c": P(l_na, some, fld)}, {"c": P(l_nb, some, fld)}]}),
            A(dest, {"k": "agg", "ak": "adt", "def": "std::option::Option", "variant": "Some", "vi": 1, "field_names": ["0"], "fields": [{"m": P(l_pair)}]}, dty)]
        self.blocks[both]["term"] = {"k": "goto", "t": cont, "line": line}
        self.blocks[none]["stmts"] = [A(dest, {"k": "agg", "ak": "adt", "def": "std::option::Option", "variant": "None", "vi": 0, "field_names": [], "fields": []}, dty)]
        self.blocks[none]["term"] = {"k": "goto", "t": cont, "line": line}
        for b in (sw_a, nx_b, sw_b, both, none):
            self.origin.setdefault(b, "adaptor:zip")
        self.inlined.append(("adaptor:zip", bi))
        return True

    def _fuse_zip_lockstep(self, bi, site, line):
        """zip of two slices:  if k < a.len() && k < b.len() { Some((&a[k], &b[k])); k += 1 } else { None }"""
        _, l_sa, l_sb, l_k = site
        t = self.blocks[bi]["term"]
        cont, dest, dty = t["t"], t["dest"], t.get("dty")
        P = lambda l, *proj: {"l": l, "p": list(proj)}
        A = lambda lhs, rv, ty=None: {"k": "assign", "lhs": lhs, "rv": rv, "lty": ty, "line": line, "exp": False, "inl": "adaptor"}
        K = lambda v, ty: {"k": {"ty": ty, "val": {"kind": "int", "v": v}, "dbg": str(v)}}

        def len_fn(l):
            n = "std::vec::Vec::<T, A>::len" if "std::vec::Vec<" in self.locals[l]["ty"] else "core::slice::<impl [T]>::len"
            return {"k": {"ty": "fn", "kind": "fn", "def": n, "def_id": n, "gargs": [], "res": n}}
        l_la, l_lb = self.new_local("usize"), self.new_local("usize")
        l_ca, l_cb = self.new_local("bool"), self.new_local("bool")
        l_xa, l_xb = self.new_local("&?a"), self.new_local("&?b")
        l_pair = self.new_local("(&?a, &?b)")
        test_a = self.new_block([], None)
        len_b = self.new_block([], None)
        test_b = self.new_block([], None)
        both = self.new_block([], None)
        none = self.new_block([], None)
        call = lambda fn, arg, dst, to: {"k": "call", "fn": fn, "args": [{"c": P(arg)}], "dest": P(dst), "dty": "usize", "t": to, "unwind": None,
                                         "exp": False, "line": line, "inl": "adaptor"}
        self.blocks[bi]["term"] = call(len_fn(l_sa), l_sa, l_la, test_a)
        self.blocks[test_a]["stmts"] = [A(P(l_ca), {"k": "bin", "op": "Lt", "a": {"c": P(l_k)}, "b": {"c": P(l_la)}, "aty": "usize"}, "bool")]
        self.blocks[test_a]["term"] = {"k": "switch", "d": {"m": P(l_ca)}, "dty": "bool", "targets": [[0, none]], "otherwise": len_b, "line": line}
        self.blocks[len_b]["term"] = call(len_fn(l_sb), l_sb, l_lb, test_b)
        self.blocks[test_b]["stmts"] = [A(P(l_cb), {"k": "bin", "op": "Lt", "a": {"c": P(l_k)}, "b": {"c": P(l_lb)}, "aty": "usize"}, "bool")]
        self.blocks[test_b]["term"] = {"k": "switch", "d": {"m": P(l_cb)}, "dty": "bool", "targets": [[0, none]], "otherwise": both, "line": line}
        self.blocks[both]["stmts"] = [
            A(P(l_xa), {"k": "ref", "mut": False, "place": P(l_sa, "deref", {"idx": l_k})}),
            A(P(l_xb), {"k": "ref", "mut": False, "place": P(l_sb, "deref", {"idx": l_k})}),
            A(P(l_pair), {"k": "agg", "ak": "tuple", "fields": [{"c": P(l_xa)}, {"c": P(l_xb)}]}),
            A(dest, {"k": "agg", "ak": "adt", "def": "std::option::Option", "variant": "Some", "vi": 1, "field_names": ["0"], "fields": [{"m": P(l_pair)}]}, dty),
            A(P(l_k), {"k": "bin", "op": "Add", "a": {"c": P(l_k)}, "b": K(1, "usize"), "aty": "usize"}, "usize")]
        self.blocks[both]["term"] = {"k": "goto", "t": cont, "line": line}
        self.blocks[none]["stmts"] = [A(dest, {"k": "agg", "ak": "adt", "def": "std::option::Option", "variant": "None", "vi": 0, "field_names": [], "fields": []}, dty)]
        self.blocks[none]["term"] = {"k": "goto", "t": cont, "line": line}
        for b in (test_a, len_b, test_b, both, none):
            self.origin.setdefault(b, "adaptor:zip")
        self.inlined.append(("adaptor:zip-slices", bi))
        return True

    def _fuse_slice_next(self, view, bi, line):
        """`dest = slice::Iter::next(&mut it)` inside a fused pipeline, `it` built by `s.iter()` (or standing for a
        `&[T]` handed to zip):  if k < s.len() { Some(&s[k++]) } else { None }  with a counter k."""
        t = self.blocks[bi]["term"]
        pl = t["args"][0].get("m") or t["args"][0].get("c")
        sl = self.__dict__.setdefault("slice_locals", {})
        found = None
        for _ in range(10):
            if pl is not None and pl["p"] == ["deref"]:
                pl = {"l": pl["l"], "p": []}
            if pl is None or pl["p"]:
                return False
            if pl["l"] in sl:
                found = sl[pl["l"]]
                break
            ds = view.defs().get(pl["l"], [])
            if len(ds) != 1:
                return False
            bd, si, kind, payload = ds[0]
            if kind == "assign" and payload["rv"]["k"] == "ref":
                pl = payload["rv"]["place"]
            elif kind == "assign" and payload["rv"]["k"] == "use":
                pl = payload["rv"]["a"].get("m") or payload["rv"]["a"].get("c")
            elif kind == "call":
                f = call_target(payload)
                if not f or f.get("def") != "core::slice::<impl [T]>::iter" or len(payload["args"]) != 1:
                    return False
                spl = payload["args"][0].get("m") or payload["args"][0].get("c")
                if spl is None or spl["p"]:
                    return False
                sites = self.__dict__.setdefault("slice_sites", {})
                if bd not in sites:
                    l_s = self.new_local(self.locals[spl["l"]]["ty"])
                    l_k = self.new_local("usize", name=None)
                    self.blocks[bd]["stmts"] += [
                        {"k": "assign", "lhs": {"l": l_s, "p": []}, "rv": {"k": "use", "a": {"c": {"l": spl["l"], "p": []}}}, "lty": None, "line": line, "exp": False, "inl": "adaptor"},
                        {"k": "assign", "lhs": {"l": l_k, "p": []}, "rv": {"k": "use", "a": {"k": {"ty": "usize", "val": {"kind": "int", "v": 0}, "dbg": "0"}}},
                         "lty": "usize", "line": line, "exp": False, "inl": "adaptor"}]
                    sites[bd] = (l_s, l_k)
                found = sites[bd]
                break
            else:
                return False
        if found is None:
            return False
        l_s, l_k = found
        cont, dest, dty = t["t"], t["dest"], t.get("dty")
        P = lambda l, *proj: {"l": l, "p": list(proj)}
        A = lambda lhs, rv, ty=None: {"k": "assign", "lhs": lhs, "rv": rv, "lty": ty, "line": line, "exp": False, "inl": "adaptor"}
        K = lambda v, ty: {"k": {"ty": ty, "val": {"kind": "int", "v": v}, "dbg": str(v)}}
        l_len = self.new_local("usize")
        l_c = self.new_local("bool")
        l_x = self.new_local("&?")
        test = self.new_block([], None)
        some_b = self.new_block([], None)
        none_b = self.new_block([], None)
        fn_len = {"k": {"ty": "fn", "kind": "fn", "def": "core::slice::<impl [T]>::len", "def_id": "core::slice::<impl [T]>::len", "gargs": [], "res": "core::slice::<impl [T]>::len"}}
        s_is_vec = self.locals[l_s]["ty"].startswith("&std::vec::Vec<") or self.locals[l_s]["ty"].startswith("&mut std::vec::Vec<")
        if s_is_vec:
            fn_len["k"]["def"] = fn_len["k"]["def_id"] = fn_len["k"]["res"] = "std::vec::Vec::<T, A>::len"
        self.blocks[bi]["term"] = {"k": "call", "fn": fn_len, "args": [{"c": P(l_s)}], "dest": P(l_len), "dty": "usize", "t": test, "unwind": None,
                                   "exp": False, "line": line, "inl": "adaptor"}
        self.blocks[test]["stmts"] = [A(P(l_c), {"k": "bin", "op": "Lt", "a": {"c": P(l_k)}, "b": {"c": P(l_len)}, "aty": "usize"}, "bool")]
        self.blocks[test]["term"] = {"k": "switch", "d": {"m": P(l_c)}, "dty": "bool", "targets": [[0, none_b]], "otherwise": some_b, "line": line}
        self.blocks[some_b]["stmts"] = [
            A(P(l_x), {"k": "ref", "mut": False, "place": P(l_s, "deref", {"idx": l_k})}),
            A(dest, {"k": "agg", "ak": "adt", "def": "std::option::Option", "variant": "Some", "vi": 1, "field_names": ["0"], "fields": [{"c": P(l_x)}]}, dty),
            A(P(l_k), {"k": "bin", "op": "Add", "a": {"c": P(l_k)}, "b": K(1, "usize"), "aty": "usize"}, "usize")]
        self.blocks[some_b]["term"] = {"k": "goto", "t": cont, "line": line}
        self.blocks[none_b]["stmts"] = [A(dest, {"k": "agg", "ak": "adt", "def": "std::option::Option", "variant": "None", "vi": 0, "field_names": [], "fields": []}, dty)]
        self.blocks[none_b]["term"] = {"k": "goto", "t": cont, "line": line}
        for b in (test, some_b, none_b):
            self.origin.setdefault(b, "adaptor:slice-iter")
        self.inlined.append(("adaptor:slice-iter", bi))
        return True

    def _desugar_collect(self, bi, line):
        """`(a..b).map(f).collect::<Vec<T>>()` / `::<Result<Vec<T>, E>>()` -- a counted loop written as a pipeline --
        becomes the loop: push each item; for the Result form stop at the first Err and hand it back."""
        t = self.blocks[bi]["term"]
        it_op = t["args"][0]
        it_place = it_op.get("m") or it_op.get("c")
        if it_place is None or it_place["p"] or t["dest"]["p"]:
            return False
        it_ty = self.locals[it_place["l"]]["ty"]
        if not it_ty.startswith("std::iter::Map<std::ops::Range<"):
            return False
        dty = self.locals[t["dest"]["l"]]["ty"] or ""
        res_form = dty.startswith("std::result::Result<std::vec::Vec<")
        if not (res_form or dty.startswith("std::vec::Vec<")):
            return False
        vec_ty = dty[len("std::result::Result<"):].rsplit(",", 1)[0] if res_form else dty
        cont, dest = t["t"], t["dest"]
        P = lambda l, *proj: {"l": l, "p": list(proj)}
        A = lambda lhs, rv, ty=None: {"k": "assign", "lhs": lhs, "rv": rv, "lty": ty, "line": line, "exp": False, "inl": "adaptor"}
        U = lambda op: {"k": "use", "a": op}
        fnrec = lambda d, r=None: {"k": {"ty": "fn", "kind": "fn", "def": d, "def_id": d, "gargs": [], "res": r or d}}
        l_it = self.new_local(it_ty)
        l_vec = self.new_local(vec_ty, name=None)
        l_ref = self.new_local("&mut " + it_ty)
        l_next = self.new_local("std::option::Option<?>")
        l_d = self.new_local("isize")
        l_x = self.new_local("?item")
        l_vref = self.new_local("&mut " + vec_ty)
        l_unit = self.new_local("()")
        mk = self.new_block([], None)
        head = self.new_block([], None)
        sw = self.new_block([], None)
        body = self.new_block([], None)
        push = self.new_block([], None)
        done = self.new_block([], None)
        unreach = self.new_block([], {"k": "unreachable", "line": line})
        some = {"dc": "Some", "vi": 1}
        fld = {"f": 0, "name": "0", "adt": "std::option::Option"}
        call = lambda fn, args, dst, to, inl="adaptor": {"k": "call", "fn": fn, "args": args, "dest": P(dst), "dty": self.locals[dst]["ty"], "t": to,
                                                        "unwind": None, "exp": False, "line": line, "inl": inl}
        self.blocks[bi]["stmts"].append(A(P(l_it), U(it_op), it_ty))
        self.blocks[bi]["term"] = call(fnrec("std::vec::Vec::<T>::new"), [], l_vec, head)
        self.blocks[head]["stmts"] = [A(P(l_ref), {"k": "ref", "mut": True, "place": P(l_it)})]
        self.blocks[head]["term"] = call(fnrec("std::iter::Iterator::next", "<%s as std::iter::Iterator>::next" % it_ty), [{"m": P(l_ref)}], l_next, sw, "fuse")
        self.blocks[sw]["stmts"] = [A(P(l_d), {"k": "discr", "place": P(l_next), "adt": "std::option::Option"})]
        self.blocks[sw]["term"] = {"k": "switch", "d": {"m": P(l_d)}, "dty": "isize", "targets": [[0, done], [1, body]], "otherwise": unreach, "line": line}
        self.blocks[body]["stmts"] = [A(P(l_x), U({"m": P(l_next, some, fld)}))]
        if res_form:
            l_d2 = self.new_local("isize")
            l_v = self.new_local("?ok")
            errb = self.new_block([], None)
            okb = self.new_block([], None)
            self.blocks[body]["stmts"].append(A(P(l_d2), {"k": "discr", "place": P(l_x), "adt": "std::result::Result"}))
            self.blocks[body]["term"] = {"k": "switch", "d": {"m": P(l_d2)}, "dty": "isize", "targets": [[0, okb], [1, errb]], "otherwise": unreach, "line": line}
            okf = {"f": 0, "name": "0", "adt": "std::result::Result"}
            self.blocks[okb]["stmts"] = [A(P(l_v), U({"m": P(l_x, {"dc": "Ok", "vi": 0}, okf)})), A(P(l_vref), {"k": "ref", "mut": True, "place": P(l_vec)})]
            self.blocks[okb]["term"] = call(fnrec("std::vec::Vec::<T, A>::push"), [{"m": P(l_vref)}, {"m": P(l_v)}], l_unit, head)
            self.blocks[errb]["stmts"] = [A(dest, {"k": "agg", "ak": "adt", "def": "std::result::Result", "variant": "Err", "vi": 1, "field_names": ["0"],
                                                   "fields": [{"m": P(l_x, {"dc": "Err", "vi": 1}, okf)}]}, dty)]
            self.blocks[errb]["term"] = {"k": "goto", "t": cont, "line": line}
            self.blocks[done]["stmts"] = [A(dest, {"k": "agg", "ak": "adt", "def": "std::result::Result", "variant": "Ok", "vi": 0, "field_names": ["0"],
                                                   "fields": [{"m": P(l_vec)}]}, dty)]
            extra = (errb, okb)
        else:
            self.blocks[body]["stmts"].append(A(P(l_vref), {"k": "ref", "mut": True, "place": P(l_vec)}))
            self.blocks[body]["term"] = call(fnrec("std::vec::Vec::<T, A>::push"), [{"m": P(l_vref)}, {"m": P(l_x)}], l_unit, head)
            self.blocks[done]["stmts"] = [A(dest, U({"m": P(l_vec)}), dty)]
            extra = ()
        self.blocks[done]["term"] = {"k": "goto", "t": cont, "line": line}
        for b in (head, sw, body, done) + extra:
            self.origin.setdefault(b, "adaptor:collect")
        # unused scaffolding blocks
        self.blocks[mk]["term"] = {"k": "unreachable", "line": line}
        self.blocks[push]["term"] = {"k": "unreachable", "line": line}
        self.inlined.append(("adaptor:collect", bi))
        return True

    def _desugar_count(self, bi, line):
        t = self.blocks[bi]["term"]
        it_op = t["args"][0]
        it_place = it_op.get("m") or it_op.get("c")
        if it_place is None or it_place["p"]:
            return False
        it_ty = self.locals[it_place["l"]]["ty"]
        m_ = re.match(r"^std::iter::(Map|TakeWhile|Filter)<(.*)>$", it_ty)
        if not m_:
            return False
        cont, dest, dty = t["t"], t["dest"], t.get("dty")
        P = lambda l, *proj: {"l": l, "p": list(proj)}
        A = lambda lhs, rv, ty=None: {"k": "assign", "lhs": lhs, "rv": rv, "lty": ty, "line": line, "exp": False, "inl": "adaptor"}
        U = lambda op: {"k": "use", "a": op}
        K = lambda v, ty: {"k": {"ty": ty, "val": {"kind": "int", "v": v}, "dbg": str(v)}}
        l_it = self.new_local(it_ty)
        l_ref = self.new_local("&mut " + it_ty)
        l_next = self.new_local("std::option::Option<?>")
        l_d = self.new_local("isize")
        l_n = self.new_local("usize", name=None)
        head = self.new_block([], None)
        sw = self.new_block([], None)
        inc = self.new_block([], None)
        done = self.new_block([], None)
        unreach = self.new_block([], {"k": "unreachable", "line": line})
        fnrec = {"k": {"ty": "fn", "kind": "fn", "def": "std::iter::Iterator::next", "def_id": "std::iter::Iterator::next", "gargs": [],
                       "res": "<%s as std::iter::Iterator>::next" % it_ty}}
        self.blocks[bi]["stmts"] += [A(P(l_it), U(it_op), it_ty), A(P(l_n), U(K(0, "usize")), "usize")]
        self.blocks[bi]["term"] = {"k": "goto", "t": head, "line": line, "inl": "adaptor:count"}
        self.blocks[head]["stmts"] = [A(P(l_ref), {"k": "ref", "mut": True, "place": P(l_it)})]
        self.blocks[head]["term"] = {"k": "call", "fn": fnrec, "args": [{"m": P(l_ref)}], "dest": P(l_next), "dty": self.locals[l_next]["ty"],
                                     "t": sw, "unwind": None, "exp": False, "line": line, "inl": "fuse"}
        self.blocks[sw]["stmts"] = [A(P(l_d), {"k": "discr", "place": P(l_next), "adt": "std::option::Option"})]
        self.blocks[sw]["term"] = {"k": "switch", "d": {"m": P(l_d)}, "dty": "isize", "targets": [[0, done], [1, inc]], "otherwise": unreach, "line": line}
        self.blocks[inc]["stmts"] = [A(P(l_n), {"k": "bin", "op": "Add", "a": {"c": P(l_n)}, "b": K(1, "usize"), "aty": "usize"}, "usize")]
        self.blocks[inc]["term"] = {"k": "goto", "t": head, "line": line}
        self.blocks[done]["stmts"] = [A(dest, U({"c": P(l_n)}), dty)]
        self.blocks[done]["term"] = {"k": "goto", "t": cont, "line": line}
        for b in (head, sw, inc, done):
            self.origin.setdefault(b, "adaptor:count")
        self.inlined.append(("adaptor:count", bi))
        return True

    def _fuse_next(self, bi, bd, kind, closure, line):
        """Rewrite `dest = <Adaptor as Iterator>::next(&mut a)` at block bi; the adaptor was built at block bd by
        `src.kind(closure)`."""
        craw = closure.raw
        if craw["argc"] != 2:
            return False
        dt = self.blocks[bd]["term"]
        sites = self.__dict__.setdefault("pipe_sites", {})
        if bd not in sites:
            src_op, cl_op = dt["args"][0], dt["args"][1]
            spl = src_op.get("m") or src_op.get("c")
            cpl = cl_op.get("m") or cl_op.get("c")
            if spl is None or cpl is None or spl["p"] or cpl["p"]:
                return False
            src_ty = self.locals[spl["l"]]["ty"]
            l_src = self.new_local(src_ty)
            l_cl = self.new_local(self.locals[cpl["l"]]["ty"])
            cp = lambda pl: {"k": "use", "a": {"c": {"l": pl["l"], "p": []}}}
            self.blocks[bd]["stmts"] += [
                {"k": "assign", "lhs": {"l": l_src, "p": []}, "rv": cp(spl), "lty": src_ty, "line": line, "exp": False, "inl": "adaptor"},
                {"k": "assign", "lhs": {"l": l_cl, "p": []}, "rv": cp(cpl), "lty": None, "line": line, "exp": False, "inl": "adaptor"}]
            sites[bd] = (l_src, l_cl, src_ty)
        l_src, l_cl, src_ty = sites[bd]
        t = self.blocks[bi]["term"]
        cont, dest, dty = t["t"], t["dest"], t.get("dty")
        arg_ty = craw["locals"][2]["ty"]
        by_ref = kind in ("take_while", "filter")
        item_ty = arg_ty[1:].lstrip() if by_ref and arg_ty.startswith("&") else arg_ty
        P = lambda l, *proj: {"l": l, "p": list(proj)}
        A = lambda lhs, rv, ty=None: {"k": "assign", "lhs": lhs, "rv": rv, "lty": ty, "line": line, "exp": False, "inl": "adaptor"}
        U = lambda op: {"k": "use", "a": op}
        l_ref = self.new_local("&mut " + src_ty)
        l_next = self.new_local("std::option::Option<%s>" % item_ty)
        l_d = self.new_local("isize")
        l_x = self.new_local(item_ty, name=None)
        l_clref = self.new_local("&mut closure")
        l_args = self.new_local("(%s,)" % arg_ty)
        l_r = self.new_local(self.ret_ty(closure))
        bare = src_ty[5:] if src_ty.startswith("&mut ") else src_ty
        fnrec = lambda d, r: {"k": {"ty": "fn", "kind": "fn", "def": d, "def_id": d, "gargs": [], "res": r}}
        sw = self.new_block([], None)
        body = self.new_block([], None)
        after = self.new_block([], None)
        exit_none = self.new_block([], None)
        exit_some = self.new_block([], None)
        unreach = self.new_block([], {"k": "unreachable", "line": line})
        head = bi if kind != "filter" else self.new_block([], None)
        if kind == "filter":
            self.blocks[bi]["term"] = {"k": "goto", "t": head, "line": line, "inl": "adaptor:" + kind}
            self.blocks[head]["stmts"] = []
        self.blocks[head]["stmts"] = self.blocks[head]["stmts"] + [A(P(l_ref), {"k": "ref", "mut": True, "place": P(l_src)})]
        self.blocks[head]["term"] = {"k": "call", "fn": fnrec("std::iter::Iterator::next", "<%s as std::iter::Iterator>::next" % bare),
                                     "args": [{"m": P(l_ref)}], "dest": P(l_next), "dty": self.locals[l_next]["ty"],
                                     "t": sw, "unwind": None, "exp": False, "line": line, "inl": "fuse"}
        self.blocks[sw]["stmts"] = [A(P(l_d), {"k": "discr", "place": P(l_next), "adt": self.locals[l_next]["ty"]})]
        self.blocks[sw]["term"] = {"k": "switch", "d": {"m": P(l_d)}, "dty": "isize",
                                   "targets": [[0, exit_none], [1, body]], "otherwise": unreach, "line": line}
        some = {"dc": "Some", "vi": 1}
        fld = {"f": 0, "name": "0", "adt": "std::option::Option"}
        st = [A(P(l_x), U({"m": P(l_next, some, fld)}), item_ty),
              A(P(l_clref), {"k": "ref", "mut": True, "place": P(l_cl)})]
        if by_ref:
            l_xr = self.new_local("&" + item_ty)
            st.append(A(P(l_xr), {"k": "ref", "mut": False, "place": P(l_x)}))
            st.append(A(P(l_args), {"k": "agg", "ak": "tuple", "fields": [{"m": P(l_xr)}]}))
        else:
            st.append(A(P(l_args), {"k": "agg", "ak": "tuple", "fields": [{"c": P(l_x)}]}))
        self.blocks[body]["stmts"] = st
        self.blocks[body]["term"] = {"k": "call", "fn": fnrec("std::ops::FnMut::call_mut", closure.name),
                                     "args": [{"m": P(l_clref)}, {"m": P(l_args)}], "dest": P(l_r),
                                     "dty": self.locals[l_r]["ty"], "t": after, "unwind": None, "exp": False,
                                     "line": line, "inl": "adaptor-call"}
        self.blocks[body]["term"]["fn"]["k"]["res_id"] = closure.id
        opt = lambda variant, vi, fields: {"k": "agg", "ak": "adt", "def": "std::option::Option", "variant": variant,
                                           "vi": vi, "field_names": ["0"] if fields else [], "fields": fields}
        G = lambda b: {"k": "goto", "t": b, "line": line}
        if kind == "map":
            self.blocks[after]["stmts"] = [A(dest, opt("Some", 1, [{"m": P(l_r)}]), dty)]
            self.blocks[after]["term"] = G(cont)
            self.blocks[exit_some]["term"] = G(cont)
        elif kind == "take_while":
            self.blocks[after]["term"] = {"k": "switch", "d": {"m": P(l_r)}, "dty": "bool", "targets": [[0, exit_none]], "otherwise": exit_some, "line": line}
            self.blocks[exit_some]["stmts"] = [A(dest, opt("Some", 1, [{"m": P(l_x)}]), dty)]
            self.blocks[exit_some]["term"] = G(cont)
        else:
            self.blocks[after]["term"] = {"k": "switch", "d": {"m": P(l_r)}, "dty": "bool", "targets": [[0, head]], "otherwise": exit_some, "line": line}
            self.blocks[exit_some]["stmts"] = [A(dest, opt("Some", 1, [{"m": P(l_x)}]), dty)]
            self.blocks[exit_some]["term"] = G(cont)
        self.blocks[exit_none]["stmts"] = [A(dest, opt("None", 0, []), dty)]
        self.blocks[exit_none]["term"] = G(cont)
        for b in (sw, body, after, exit_none, exit_some) + ((head,) if head != bi else ()):
            self.origin.setdefault(b, "adaptor:" + kind)
        self.inlined.append(("adaptor:" + kind, bi))
        return True

    def combinator(self, bi, spec, line, view):
        """recv.comb(f)  ==>  match recv { V1(x) => .., V2(y) => .. } with the closure / function call explicit."""
        kind, arms = spec[0], spec[1]
        f_index = spec[2] if len(spec) > 2 else 1
        t = self.blocks[bi]["term"]
        cont, dest, dty = t.get("t"), t["dest"], t.get("dty")
        if cont is None or not t["args"]:
            return False
        recv = t["args"][0]
        rp = recv.get("m") or recv.get("c")
        if rp is None:
            return False
        needs_f = any(a[0] in ("call", "call0") or (a[0] in ("wrap", "wrap0") and a[-1] == "f") for a in arms.values())
        f_op = t["args"][f_index] if len(t["args"]) > f_index else None
        d_op = t["args"][1] if len(t["args"]) > 1 else None       # the default / plain second argument
        if needs_f and f_op is None:
            return False
        rty = self.place_ty(rp) or ("std::option::Option<?>" if kind == "opt" else "std::result::Result<?, ?>")
        P = lambda l, *proj: {"l": l, "p": list(proj)}
        A = lambda lhs, rv, ty=None: {"k": "assign", "lhs": lhs, "rv": rv, "lty": ty, "line": line, "exp": False, "inl": "comb"}
        U = lambda op: {"k": "use", "a": op}
        G = lambda b: {"k": "goto", "t": b, "line": line}
        l_recv = self.new_local(rty)
        l_d = self.new_local("isize")
        self.blocks[bi]["stmts"].append(A(P(l_recv), U(recv), rty))
        l_f = None
        if f_op is not None and ("m" in f_op or "c" in f_op):
            l_f = self.new_local(self.place_ty(f_op.get("m") or f_op.get("c")) or "?")
            self.blocks[bi]["stmts"].append(A(P(l_f), U(f_op)))
        self.blocks[bi]["stmts"].append(A(P(l_d), {"k": "discr", "place": P(l_recv), "adt": rty}))
        names = ("None", "Some") if kind == "opt" else ("Ok", "Err")
        arm_blocks = {}
        unreach = self.new_block([], {"k": "unreachable", "line": line})

        def agg(variant, fields):
            adt, vi = VARIANT_OF[variant]
            return {"k": "agg", "ak": "adt", "def": adt, "variant": variant, "vi": vi,
                    "field_names": ["0"] if fields else [], "fields": fields}

        def call_f(blk, arg_ops, out_local, nxt):
            """emit `out_local = f(arg_ops..)` terminating block blk, continuing at nxt"""
            if l_f is None:
                k = f_op.get("k") or {}
                if k.get("kind") != "fn":
                    return False
                # tuple-variant constructor used as a function
                dn = k.get("def", "")
                adt, _, var = dn.rpartition("::")
                a = self.facts.adts.get(adt)
                if a and any(v["name"] == var for v in a["variants"]) and dn not in self.facts.by_name:
                    vi = [v["discr"] for v in a["variants"] if v["name"] == var][0]
                    self.blocks[blk]["stmts"].append(A(P(out_local), {"k": "agg", "ak": "adt", "def": adt, "variant": var, "vi": vi,
                                                                       "field_names": [str(i) for i in range(len(arg_ops))], "fields": arg_ops}))
                    self.blocks[blk]["term"] = G(nxt)
                    return True
                self.blocks[blk]["term"] = {"k": "call", "fn": {"k": k}, "args": arg_ops, "dest": P(out_local), "dty": None,
                                            "t": nxt, "unwind": None, "exp": False, "line": line, "inl": "comb-call"}
                return True
            l_ref = self.new_local("&mut closure")
            l_tup = self.new_local("tuple")
            self.blocks[blk]["stmts"].append(A(P(l_ref), {"k": "ref", "mut": True, "place": P(l_f)}))
            self.blocks[blk]["stmts"].append(A(P(l_tup), {"k": "agg", "ak": "tuple", "fields": arg_ops}))
            self.blocks[blk]["term"] = {"k": "call", "fn": {"k": {"ty": "fn", "kind": "fn", "def": "std::ops::FnOnce::call_once",
                                                                 "def_id": "std::ops::FnOnce::call_once", "gargs": []}},
                                        "args": [{"m": P(l_ref)}, {"m": P(l_tup)}], "dest": P(out_local), "dty": None,
                                        "t": nxt, "unwind": None, "exp": False, "line": line, "inl": "comb-call"}
            return True
        for vi, vname in enumerate(names):
            arm = arms[vname]
            blk = self.new_block([], None)
            arm_blocks[vi] = blk
            payload = {"m": P(l_recv, {"dc": vname, "vi": vi}, {"f": 0, "name": "0", "adt": "std::option::Option" if kind == "opt" else "std::result::Result"})}
            has_payload = vname != "None"
            if arm[0] == "none":
                self.blocks[blk]["stmts"].append(A(dest, agg("None", []), dty))
                self.blocks[blk]["term"] = G(cont)
            elif arm[0] == "payload":
                self.blocks[blk]["stmts"].append(A(dest, U(payload), dty))
                self.blocks[blk]["term"] = G(cont)
            elif arm[0] == "argv":
                self.blocks[blk]["stmts"].append(A(dest, U(d_op), dty))
                self.blocks[blk]["term"] = G(cont)
            elif arm[0] == "false":
                self.blocks[blk]["stmts"].append(A(dest, U({"k": {"ty": "bool", "val": {"kind": "bool", "v": False}, "dbg": "false"}}), dty))
                self.blocks[blk]["term"] = G(cont)
            elif arm[0] == "arg":
                self.blocks[blk]["stmts"].append(A(dest, agg(arm[1], [d_op]), dty))
                self.blocks[blk]["term"] = G(cont)
            elif arm[0] == "wrap" and arm[2] == "id":
                self.blocks[blk]["stmts"].append(A(dest, agg(arm[1], [payload]), dty))
                self.blocks[blk]["term"] = G(cont)
            elif arm[0] in ("wrap", "wrap0"):
                l_r = self.new_local("?")
                fin = self.new_block([A(dest, agg(arm[1], [{"m": P(l_r)}]), dty)], G(cont))
                if not call_f(blk, [payload] if arm[0] == "wrap" and has_payload else [], l_r, fin):
                    return False
            elif arm[0] in ("call", "call0"):
                l_r = self.new_local(dty or "?")
                fin = self.new_block([A(dest, U({"m": P(l_r)}), dty)], G(cont))
                if not call_f(blk, [payload] if arm[0] == "call" and has_payload else [], l_r, fin):
                    return False
            else:
                return False
        self.blocks[bi]["term"] = {"k": "switch", "d": {"m": P(l_d)}, "dty": "isize",
                                   "targets": [[0, arm_blocks[0]], [1, arm_blocks[1]]], "otherwise": unreach,
                                   "line": line, "inl": "comb"}
        self.inlined.append(("adaptor:comb", bi))
        return True

    # -- `for x in [a, b, c]` -> three copies of the body -------------------------------------------------
    def unroll_one(self, view):
        """Unroll one `for` loop whose source is a literal array (by value, `.iter()`, optionally `.enumerate()`)
        of at most 40 elements.  Iteration-local temporaries get fresh locals per copy so that single-assignment
        term building keeps working."""
        from mir import callee_names as cn
        loops = view.loops()
        for head, lblocks in sorted(loops.items()):
            # the next() call: in the head block or its first successor
            nb = None
            for bb in [head] + [x for x in view.succs(head) if x in lblocks]:
                t = self.blocks[bb]["term"]
                if t["k"] == "call":
                    nm = (cn(t)[1] or cn(t)[0] or "")
                    if nm.endswith("::next") and "Iterator" in nm:
                        nb = bb
                        break
            if nb is None or self.blocks[nb]["cleanup"]:
                continue
            nt = self.blocks[nb]["term"]
            sw = nt.get("t")
            if sw is None or self.blocks[sw]["term"]["k"] != "switch" or nt["dest"]["p"]:
                continue
            swt = self.blocks[sw]["term"]
            some = [b_ for v, b_ in swt["targets"] if v == 1]
            none = [b_ for v, b_ in swt["targets"] if v == 0]
            if len(some) != 1 or len(none) != 1 or none[0] in lblocks:
                continue
            nxt_local = nt["dest"]["l"]
            # source of the iterator
            it = view.term_of_operand(nt["args"][0])
            while it[0] in ("ref", "deref"):
                it = it[1]
            src = it
            enum_ = False
            by_ref = False
            for _ in range(6):
                if src[0] == "call" and src[1].endswith("::into_iter") and "IntoIterator" in src[1] and src[2]:
                    src = src[2][0]
                elif src[0] == "call" and src[1].endswith("Iterator::enumerate") and src[2] and not enum_:
                    enum_ = True
                    src = src[2][0]
                elif src[0] == "call" and (src[1].endswith("<impl [T]>::iter") or src[1].endswith("<impl [T]>::iter_mut")) and src[2]:
                    by_ref = True
                    src = src[2][0]
                elif src[0] in ("ref", "deref"):
                    if src[0] == "ref":
                        by_ref = by_ref or False
                    src = src[1]
                elif src[0] == "cast":
                    src = src[1]
                else:
                    break
            is_repeat = src[0] == "repeat" and isinstance(src[2], int) and 0 < src[2] <= 40
            if not (is_repeat or (src[0] == "agg" and src[1] == "array" and 0 < len(src[4]) <= 40)):
                continue
            # the statement that built the array: take its operands
            arr_ops = None
            arr_local = None
            mut_iter = any(x[0] == "call" and x[1].endswith("<impl [T]>::iter_mut") for x in _walk_term(it))
            for blk in self.blocks:
                for st in blk["stmts"]:
                    if is_repeat:
                        if st["k"] == "assign" and st["rv"]["k"] == "repeat" and st["rv"].get("n") == src[2] and not st["lhs"]["p"] \
                                and view.term_of_operand(st["rv"]["a"]) == src[1]:
                            arr_ops = [st["rv"]["a"]] * src[2]
                            arr_local = st["lhs"]["l"]
                    elif st["k"] == "assign" and st["rv"]["k"] == "agg" and st["rv"].get("ak") == "array" and len(st["rv"]["fields"]) == len(src[4]):
                        if tuple(view.term_of_operand(f) for f in st["rv"]["fields"]) == tuple(src[4]):
                            arr_ops = st["rv"]["fields"]
                            arr_local = st["lhs"]["l"] if not st["lhs"]["p"] else None
            if arr_ops is None:
                continue
            if by_ref:
                # `.iter()`: the elements are references into the array, which must then be a local
                if arr_local is None:
                    continue
                ref_ops = []
                for i_ in range(len(arr_ops)):
                    l_r = self.new_local("&elem")
                    ref_ops.append((l_r, {"k": "ref", "mut": mut_iter, "place": {"l": arr_local, "p": [{"cidx": i_}]}}))
            if head != nb and (self.blocks[head]["stmts"] or self.blocks[head]["term"]["k"] != "goto"):
                continue          # a separate head block must only jump to the next() block
            # one iteration = everything dominated by the Some arm: the loop body proper and the blocks that leave
            # the loop from inside it (`?` error exits, `break`, `return`), which also read iteration-local values
            body_blocks = sorted(b_ for b_ in range(len(self.blocks)) if view.dominates(some[0], b_) and b_ not in (head, nb, sw))
            if not body_blocks or any(b_ in (head, nb, sw) for b_ in body_blocks):
                continue
            entry_edges = [(p_, ) for p_ in range(len(self.blocks)) if p_ not in lblocks and head in view.succs(p_, unwind=False)]
            if not entry_edges:
                continue
            # iteration-local locals
            assigned = {}
            used_out = set()
            def places_of_stmt(st):
                out = []
                if "lhs" in st:
                    out.append(st["lhs"])
                rv = st.get("rv") or {}
                for k in ("a", "b"):
                    op = rv.get(k)
                    if isinstance(op, dict):
                        pl = op.get("c") or op.get("m")
                        if pl:
                            out.append(pl)
                if "place" in rv:
                    out.append(rv["place"])
                for f in rv.get("fields", []):
                    pl = f.get("c") or f.get("m")
                    if pl:
                        out.append(pl)
                return out
            def places_of_term(t_):
                out = []
                for k in ("d", "cond", "fn"):
                    op = t_.get(k)
                    if isinstance(op, dict):
                        pl = op.get("c") or op.get("m")
                        if pl:
                            out.append(pl)
                for a in t_.get("args", []):
                    pl = a.get("c") or a.get("m")
                    if pl:
                        out.append(pl)
                for k in ("dest", "place"):
                    if k in t_ and isinstance(t_[k], dict):
                        out.append(t_[k])
                m_ = t_.get("msg") or {}
                for k in ("len", "index", "a", "b"):
                    op = m_.get(k)
                    if isinstance(op, dict):
                        pl = op.get("c") or op.get("m")
                        if pl:
                            out.append(pl)
                return out
            def locals_of(pl):
                ls = {pl["l"]}
                for e in pl["p"]:
                    if isinstance(e, dict) and "idx" in e:
                        ls.add(e["idx"])
                return ls
            for bi_, blk in enumerate(self.blocks):
                inside = bi_ in body_blocks or bi_ in (nb, sw)
                for st in blk["stmts"]:
                    for pl in places_of_stmt(st):
                        for l in locals_of(pl):
                            if not inside:
                                used_out.add(l)
                    if inside and st["k"] == "assign" and not st["lhs"]["p"]:
                        assigned.setdefault(st["lhs"]["l"], []).append(bi_)
                for pl in places_of_term(blk["term"]):
                    for l in locals_of(pl):
                        if not inside:
                            used_out.add(l)
                if inside and blk["term"]["k"] == "call" and not blk["term"]["dest"]["p"]:
                    assigned.setdefault(blk["term"]["dest"]["l"], []).append(bi_)
            argc = self.raw.get("argc", 0)
            # where each local is read inside the region
            used_in = {}
            for bi_ in list(body_blocks) + [nb, sw]:
                blk = self.blocks[bi_]
                for st in blk["stmts"]:
                    pls = places_of_stmt(st)
                    if st["k"] == "assign" and not st["lhs"]["p"]:
                        pls = pls[1:]          # a whole-local assignment is a def, not a use
                    for pl in pls:
                        for l in locals_of(pl):
                            used_in.setdefault(l, set()).add(bi_)
                tt_ = blk["term"]
                for pl in places_of_term(tt_):
                    if tt_["k"] == "call" and pl is tt_.get("dest") and not pl["p"]:
                        continue
                    for l in locals_of(pl):
                        used_in.setdefault(l, set()).add(bi_)

            def iteration_local(l, bs):
                if l in used_out or l <= argc:
                    return False
                if len(bs) == 1:
                    return True
                # several definitions (a value chosen on two arms): fine unless some read can happen before all of them
                for u in used_in.get(l, ()):
                    if all(view.dominates(u, d) and u != d for d in bs):
                        return False
                return True
            local_iter = set(l for l, bs in assigned.items() if iteration_local(l, bs))
            local_iter.add(nxt_local)
            n = len(arr_ops)
            exit_bb = none[0]
            first_entries = []
            copies = []
            start_blocks = len(self.blocks)
            for i in range(n):
                lmap = {}
                for l in sorted(local_iter):
                    d = dict(self.locals[l])
                    self.locals.append(d)
                    lmap[l] = len(self.locals) - 1
                base = start_blocks + i * (len(body_blocks) + 1)
                bmap = {b_: base + 1 + k for k, b_ in enumerate(body_blocks)}
                copies.append((lmap, bmap, base))
            for i in range(n):
                lmap, bmap, base = copies[i]
                lm = lambda l, lmap=lmap: lmap.get(l, l)
                nxt_entry = copies[i + 1][2] if i + 1 < n else exit_bb
                def bm(b_, bmap=bmap, nxt_entry=nxt_entry):
                    if b_ in bmap:
                        return bmap[b_]
                    if b_ in (head, nb):
                        return nxt_entry
                    return b_
                line = nt.get("line")
                elem = arr_ops[i]
                pre0 = []
                if by_ref:
                    l_r, rv_r = ref_ops[i]
                    pre0 = [{"k": "assign", "lhs": {"l": l_r, "p": []}, "rv": rv_r, "lty": None, "line": line, "exp": False, "inl": "unroll"}]
                    elem = {"c": {"l": l_r, "p": []}}
                if enum_:
                    l_t = self.new_local("(usize, ?)")
                    pre = [{"k": "assign", "lhs": {"l": l_t, "p": []}, "rv": {"k": "agg", "ak": "tuple", "fields": [
                        {"k": {"ty": "usize", "val": {"kind": "int", "v": i}, "dbg": str(i)}}, elem]}, "lty": None, "line": line, "exp": False, "inl": "unroll"}]
                    pre = pre0 + pre
                    elem_op = {"m": {"l": l_t, "p": []}}
                else:
                    pre = list(pre0)
                    elem_op = elem
                some_agg = {"k": "agg", "ak": "adt", "def": "std::option::Option", "variant": "Some", "vi": 1, "field_names": ["0"], "fields": [elem_op]}
                pre.append({"k": "assign", "lhs": {"l": lm(nxt_local), "p": []}, "rv": some_agg, "lty": self.locals[nxt_local]["ty"], "line": line, "exp": False, "inl": "unroll"})
                e_bb = self.new_block(pre, {"k": "goto", "t": bm(some[0]), "line": line, "inl": "unroll"})
                assert e_bb == base, (e_bb, base)
                for b_ in body_blocks:
                    ob = self.blocks[b_]
                    nbk = {"cleanup": ob["cleanup"], "stmts": [_map_stmt(st, lm) for st in ob["stmts"]], "term": _map_term(ob["term"], lm, bm)}
                    self.blocks.append(nbk)
                    self.origin[len(self.blocks) - 1] = self.origin.get(b_, "unroll")
            first = copies[0][2]
            # redirect loop entries
            for (p_,) in entry_edges:
                self.blocks[p_]["term"] = _map_term(self.blocks[p_]["term"], lambda l: l, lambda b_: first if b_ == head else b_)
            # the old loop is now unreachable: blank it so that whole-body scans do not see its calls twice
            seen, st_ = set(), [0]
            while st_:
                x = st_.pop()
                if x in seen:
                    continue
                seen.add(x)
                tt = self.blocks[x]["term"]
                k_ = tt["k"]
                if k_ == "goto":
                    st_.append(tt["t"])
                elif k_ == "switch":
                    st_.extend([b_ for v, b_ in tt["targets"]] + [tt["otherwise"]])
                elif k_ in ("call", "drop", "assert"):
                    if tt.get("t") is not None:
                        st_.append(tt["t"])
                    if tt.get("unwind") is not None:
                        st_.append(tt["unwind"])
            for x in range(len(self.blocks)):
                if x not in seen:
                    self.blocks[x] = {"cleanup": self.blocks[x]["cleanup"], "stmts": [], "term": {"k": "unreachable", "line": None, "inl": "dead"}}
            self.inlined.append(("adaptor:unroll%d" % n, head))
            return True
        return False

    def ret_ty(self, closure):
        return closure.raw["locals"][0]["ty"]

    # -- driver ----------------------------------------------------------------------------
    def run(self):
        stack_of = {}          # block -> tuple of callee ids it was inlined through
        for rnd in range(self.max_depth * 3):
            view = self.snapshot()
            changed = False
            try:
                if self.devirt_one(view):
                    continue
            except Exception:
                pass
            fused = False
            try:
                for _ in range(12):
                    if not (self.adaptors and self.fuse_one(view)):
                        break
                    fused = True
                    view = self.snapshot()
            except Exception:
                pass
            if fused:
                changed = True
            nblocks = len(self.blocks)
            for bi in range(nblocks):
                blk = self.blocks[bi]
                t = blk["term"]
                if t["k"] != "call" or blk["cleanup"]:
                    continue
                f = call_target(t)
                if not f:
                    continue
                chain = stack_of.get(bi, ())
                if len(chain) >= self.max_depth:
                    continue
                dn, rn = f.get("def"), f.get("res")
                rid = f.get("res_id")
                line = t.get("line")
                site_new = bi in self.origin or t.get("inl") is not None
                if dn in COMBINATORS and (self.combinators or site_new):
                    nb0 = len(self.blocks)
                    if self.combinator(bi, COMBINATORS[dn], line, view):
                        for nb in range(nb0, len(self.blocks)):
                            stack_of[nb] = chain
                            if site_new or self.combinators:
                                self.origin.setdefault(nb, "comb")
                        changed = True
                        nblocks = len(self.blocks)
                        continue
                # adaptor with a visible closure
                if self.adaptors and dn in ADAPTORS and len(t["args"]) == 2:
                    cid = self.closure_of_operand(t["args"][1], view)
                    if cid and cid not in chain:
                        if self.desugar(bi, ADAPTORS[dn], self.facts.bodies[cid], line):
                            for nb in range(nblocks, len(self.blocks)):
                                stack_of[nb] = chain
                            changed = True
                            nblocks = len(self.blocks)
                            continue
                # closure call
                if dn in CLOSURE_CALLS and len(t["args"]) == 2:
                    cid = rid if rid in self.facts.bodies and self.facts.bodies[rid].kind == "Closure" else None
                    if cid is None:
                        cid = self.closure_of_operand(t["args"][0], view)
                    site_new = bi in self.origin or t.get("inl") is not None
                    if cid is None and site_new:
                        # a plain function handed over where a closure is expected (`read_at(r, addr, read_name)`)
                        t0 = view.term_of_operand(t["args"][0])
                        while t0[0] in ("ref", "deref"):
                            t0 = t0[1]
                        fb = self.facts.raw_body(t0[1]) if t0[0] == "fn" and isinstance(t0[1], str) else None
                        tp = t["args"][1].get("m") or t["args"][1].get("c")
                        if fb is not None and fb.kind != "Closure" and fb.id not in chain and fb.id != self.root_id and not self.keep(fb.name) and tp is not None:
                            ops = [{"m": {"l": tp["l"], "p": tp["p"] + [{"f": k, "name": str(k), "adt": "tuple"}]}} for k in range(fb.argc)]
                            new = self.splice(bi, fb, ops, False, line)
                            for nb in new:
                                stack_of[nb] = chain + (fb.id,)
                            changed = True
                            continue
                    if cid and cid not in chain and cid != self.root_id and (site_new or cid not in self.known_ids):
                        callee = self.facts.bodies[cid]
                        tup = t["args"][1]
                        n = callee.argc - 1
                        ops = [t["args"][0]]
                        tp = tup.get("m") or tup.get("c")
                        ok = True
                        for k in range(n):
                            if tp is None:
                                ok = False
                                break
                            ops.append({"m": {"l": tp["l"], "p": tp["p"] + [{"f": k, "name": str(k), "adt": "tuple"}]}})
                        if ok:
                            new = self.splice(bi, callee, ops, True, line)
                            for nb in new:
                                stack_of[nb] = chain + (cid,)
                            changed = True
                            continue
                # crate-local function
                if rid in self.facts.bodies and rid != self.root_id and rid not in chain:
                    callee = self.facts.bodies[rid]
                    nm = callee.name
                    if callee.kind == "Closure" or self.keep(nm) or len(t["args"]) != callee.argc:
                        continue
                    new = self.splice(bi, callee, list(t["args"]), False, line)
                    for nb in new:
                        stack_of[nb] = chain + (rid,)
                    changed = True
            if not changed:
                break
        for _ in range(12 if getattr(self, 'unroll', True) else 0):
            try:
                if not self.unroll_one(self.snapshot()):
                    break
            except Exception:       # an unexpected shape is simply not unrolled
                break
        b = self.snapshot()
        b.inlined = list(self.inlined)
        b.origin = dict(self.origin)
        b.inlined_ids = sorted({i for i, _ in self.inlined if not i.startswith("adaptor:")})
        return b


def inline_body(facts, body, keep=lambda n: False, depth=3, adaptors=True, known_ids=frozenset(), combinators=False, unroll=True):
    """A new Body equal to `body` with crate-local callees (not kept), visible closures and loop adaptors
    expanded.  Returns `body` itself when nothing was expanded."""
    bld = _Builder(facts, body, keep, depth, adaptors, known_ids, combinators)
    bld.unroll = unroll
    out = bld.run()
    if not bld.inlined:
        body.inlined, body.origin, body.inlined_ids = [], {}, []
        return body
    return out
