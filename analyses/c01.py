"""C01 — bin archive content survives serialize -> parse (layout arithmetic agreement)."""
import re
from mir import fmt, walk, strip_refs, callee_names, norm
from binser import (expand_len_locals, for_loops, root_of, rpo_index, mutations_of, affine, fmt_affine, len_atom, enclosing_loops, deep)
from flow import guards, dom_guards, control_deps, cond_truth
from c02 import collected_from

EXPLANATION = ("Writer/reader layout arithmetic of the bin archive image: the origin that string pointer values are "
               "offset from equals the byte size of everything the writer emits before the text section (element "
               "size x length of each section, plus the string pointers still to be pushed); the reader's origin "
               "uses the same per-entry sizes as the writer's header counts; one header-size constant on both "
               "sides; label records are read in the order they are written; pointer classification threshold.")
ASSUMPTIONS = ["content equality after the round trip, Shift-JIS losslessness and non-canonical layouts are not decided",
               "Vec<u32>/Vec<u8> element sizes are 4/1"]

BA = "mila::bin_archive::BinArchive"
ELEM = {"std::vec::Vec<u8>": 1, "std::vec::Vec<u32>": 4, "std::vec::Vec<(u32, u32)>": 8}


def resolve_through_constructors(facts, t, depth=0):
    """`S::new(x).field` / `S { field: x, .. }.field` -> x : a value read back from a struct that was just built
    from it (a reader object carrying the caller's endianness)."""
    t = strip_refs(t)
    if depth > 4 or t[0] != "field" or len(t) < 4:
        return t
    base = strip_refs(resolve_through_constructors(facts, t[1], depth + 1)) if strip_refs(t[1])[0] == "field" else strip_refs(t[1])
    while base[0] == "deref":
        base = strip_refs(base[1])
    idx = t[3]
    if base[0] == "agg" and base[1] == "adt" and len(base) > 4 and isinstance(idx, int) and idx < len(base[4]):
        return resolve_through_constructors(facts, base[4][idx], depth + 1)
    if base[0] == "call" and base[1] and base[1].startswith("mila::"):
        cb = facts.raw_body(base[1])
        if cb is not None:
            aggs = [cb.term_of_rvalue(st["rv"]) for bi, si, st in cb.stmts()
                    if st["k"] == "assign" and st["lhs"]["l"] == 0 and not st["lhs"]["p"] and st["rv"]["k"] == "agg" and st["rv"].get("ak") == "adt"]
            if len(aggs) == 1 and isinstance(idx, int) and idx < len(aggs[0][4]):
                v = strip_refs(aggs[0][4][idx])
                if v[0] == "param" and 1 <= v[1] <= len(base[2]):
                    return resolve_through_constructors(facts, base[2][v[1] - 1], depth + 1)
                if v[0] in ("const", "agg"):
                    return v
    return t


def run(facts, rep, ctx):
    R1 = rep.rule("R01.1", "text origin = sum of element-size x length over all sections emitted before the text section (+4 per string pointer still to be pushed)", floor=1)
    R2 = rep.rule("R01.2", "reader origin coefficients (1,4,8) agree with the writer's header words and entry sizes", floor=3)
    R3 = rep.rule("R01.3", "one header-size constant on both sides", floor=5)
    R4 = rep.rule("R01.4", "label record (address, name offset) and pointer entries are read in the order they are written; string/pointer classification threshold is the data size", floor=3)
    R6 = rep.rule("R01.6", "archive adders the reader registers entries through (write_string/write_pointer/write_label/write_c_string): store the payload on every non-error path, accept every payload class the image can hold (empty text, destination = size), never remove by payload", floor=4)
    import annot
    annot.contract(facts, rep, R6, ("write_string", "write_pointer", "write_label", "write_c_string"))
    ser = facts.body(BA + "::serialize")
    rd = facts.body(BA + "::from_bytes")
    if ser is None or rd is None or not ser.pub or not rd.pub:
        rep.inconc(R1, "anchors serialize/from_bytes missing")
        return
    R5 = rep.rule("R01.5", "both endiannesses: every integer written by serialize and read by from_bytes uses the archive's / caller's endianness", floor=4)
    import c02
    c02.endian_rule(facts, rep, R5, ser)
    nrd = 0
    for bb, t in rd.calls():
        nm = callee_names(t)[1] or callee_names(t)[0] or ""
        sh = nm.rsplit("::", 1)[-1]
        if sh in ("read_u32", "read_u16") and "EndianAwareReader" in nm:
            e = strip_refs(rd.term_of_operand(t["args"][-1]))
            e = resolve_through_constructors(facts, e)
            if e[0] == "param" and rd.local_ty(e[1]).endswith("Endian"):
                nrd += 1
                rep.ok(R5, {"read": sh, "endian": "caller's", "line": t["line"]})
            elif not (e[0] == "agg" and not (e[4] if len(e) > 4 else None)) and e[0] != "const":
                # neither the caller's parameter nor a fixed byte order: where the value comes from is not followed
                rep.inconc(R5, "from_bytes reads a %s with byte order %s: origin not resolved" % (sh[5:], fmt(e)[:60]))
            else:
                rep.violation(R5, rd.name, "endian-arg:%s" % fmt(norm(e))[:30], "from_bytes reads a %s with byte order %s instead of the caller's" % (sh[5:], fmt(e)[:40]), "%s:%s" % (rd.file, t["line"]))
        elif sh in ("from_le_bytes", "from_be_bytes", "from_ne_bytes"):
            rep.violation(R5, rd.name, "raw-bytes:" + sh, "from_bytes converts with %s: fixed byte order" % sh, "%s:%s" % (rd.file, t["line"]))
    # the archive built by the parser carries the caller's endianness
    ok_new = False
    for bb, t in rd.calls():
        if (callee_names(t)[1] or "").endswith("BinArchive::new"):
            e = strip_refs(rd.term_of_operand(t["args"][0]))
            ok_new = e[0] == "param" and rd.local_ty(e[1]).endswith("Endian")
    if ok_new:
        rep.ok(R5, {"archive": "constructed with the caller's endianness"})
    else:
        rep.violation(R5, rd.name, "archive-endian", "from_bytes does not construct the archive with the caller's endianness", "%s:%s" % (rd.file, rd.line))
    # offsets are section-relative: the interning map of one section is never used for another (shared with C02-R02.4)
    try:
        import c02 as _c02
        helpers_ = set()
        for bb_, t_ in ser.calls():
            cb_ = facts.body(callee_names(t_)[1] or callee_names(t_)[0] or "")
            if cb_ is not None and cb_.argc == 3 and cb_.local_ty(1) == "&mut std::vec::Vec<u8>" and cb_.local_ty(2).startswith("&mut std::collections::HashMap<std::string::String, usize"):
                helpers_.add(cb_.name)
        if len(helpers_) == 1:
            _c02.pairing_rule(facts, rep, R1, ser, facts.body(list(helpers_)[0]))
    except Exception:
        pass
    w = writer_model(facts, rep, R1, ser)
    r = reader_model(facts, rep, R2, rd)
    if w is None or r is None:
        return
    nv = ser.named_view()
    # ---- R01.1 ------------------------------------------------------------------------------
    origin = w["origin"]
    where = "%s:%s" % (ser.file, w["origin_line"])
    if origin is None:
        rep.inconc(R1, "text origin is not an affine expression")
    else:
        d, c = origin
        got = {}
        unknown = []
        for k, v in d.items():
            la = len_atom(k)
            if la is None:
                unknown.append(fmt(k)[:50])
            else:
                got[la] = got.get(la, 0) + v
        want = {}
        # sections before text in the final image
        bad_sec = [sec for sec in w["sections_before_text"] if sec[1] is None or (sec[1][0] == "local" and nv.local_ty(sec[1][1]) not in ELEM)]
        if bad_sec:
            rep.inconc(R1, "writer: a section written before the text is not a plain buffer (%s)" % (bad_sec[0],))
            w["sections_before_text"] = [sec for sec in w["sections_before_text"] if sec not in bad_sec]
        for sec in w["sections_before_text"]:
            kind, root = sec
            want[root] = ELEM[nv.local_ty(root[1])] if root[0] == "local" else 1
        # data may be referred to as self.data or its clone
        norm_got = {}
        for k, v in got.items():
            if k == ("selffield", "data") and w["data_root"] in want and not w.get("data_copy_resized"):
                k = w["data_root"]
            norm_got[k] = norm_got.get(k, 0) + v
        # the pointer table is still growing when the origin is taken: string pointers are pushed later, one per string
        extra = {k: v for k, v in norm_got.items() if k not in want}
        missing = {k: v for k, v in want.items() if norm_got.get(k) != v}
        ptr_sec = w["ptr_section"]
        incomplete = w["ptr_incomplete_at_origin"]
        ok = not unknown and c == 0 and not missing
        if incomplete:
            # exactly one extra atom: the number of strings, weight 4
            ok = ok and len(extra) == 1 and list(extra.values()) == [4] and list(extra.keys())[0] in (("selffield", "text"), w.get("text_vec_root"))
        else:
            ok = ok and not extra
        # the pointer-table term may legitimately be expressed through other counts; only its absence
        # from the byte sections and the label table is decided here
        ptr_only = (not unknown and c == 0 and set(missing) <= {ptr_sec} and
                    all(k in (("selffield", "pointers"), ("selffield", "text"), ("selffield", "cstrings"), w.get("text_vec_root")) or (k[0] == "local") for k in extra))
        if w.get("incomplete_sections"):
            root, (bb, sh, line) = w["incomplete_sections"][0]
            rep.violation(R1, ser.name, "section-incomplete:" + str(nv.local_name(root[1])),
                          "the text origin uses len(%s) but that section still grows afterwards (%s at line %s): string pointers are offset by the shorter length" % (fmt(root), sh, line), where)
        elif ok:
            rep.ok(R1, {"origin": fmt_affine(origin)})
        elif ptr_only and missing:
            rep.inconc(R1, "the pointer-table size in the text origin is expressed as %s rather than through the table itself; not decided" % {fmt(k): v for k, v in extra.items()})
        else:
            desc = []
            for k, v in missing.items():
                desc.append("%s x len(%s) is %s" % (v, fmt(k), norm_got.get(k, "absent")))
            if extra and not (incomplete and len(extra) == 1):
                desc.append("unexpected terms %s" % {fmt(k): v for k, v in extra.items()})
            if incomplete and not extra:
                desc.append("the string pointers pushed after this point are not counted")
            if unknown:
                desc.append("non-length terms %s" % unknown)
            if c:
                desc.append("constant %s" % c)
            rep.violation(R1, ser.name, "text-origin",
                          "string pointers are offset from %s, but the text section starts after %s: %s" % (
                              fmt_affine(origin), ", ".join("%s[%s]" % (fmt(r), k) for k, r in w["sections_before_text"]), "; ".join(desc)), where)
    # ---- R01.2 -------------------------------------------------------------------------------
    ro = r["origin"]
    if ro is None:
        rep.inconc(R2, "reader origin is not affine in the header fields")
    else:
        d, c = ro
        coeff = []
        for fld in r["header_fields"]:
            coeff.append(d.get(("local", fld[0], fld[1]), 0))
        # writer side: header word 2 = bytes before the pointer table (coefficient 1), word 3 counts u32 (4 bytes),
        # word 4 counts pairs of u32 (2 x 4 bytes)
        wc = w["header_entry_sizes"]
        names = ["data size", "pointer count", "label count"]
        for i in range(3):
            if i < len(coeff) and i < len(wc) and coeff[i] == wc[i] and wc[i] is not None:
                rep.ok(R2, {"field": names[i], "bytes_per_unit": coeff[i]})
            elif i >= len(wc) or wc[i] is None:
                rep.inconc(R2, "writer: bytes emitted per unit of the %s are not recognised" % names[i])
            else:
                rep.violation(R2, rd.name, "coeff:" + names[i].replace(" ", "-"),
                              "reader weighs the %s by %s bytes, the writer emits %s bytes per unit" % (names[i], coeff[i] if i < len(coeff) else "?", wc[i] if i < len(wc) else "?"),
                              "%s:%s" % (rd.file, r["origin_line"]))
        if c != 0 or len(d) != 3:
            rep.violation(R2, rd.name, "origin-extra", "reader origin has extra terms: %s" % fmt_affine(ro), "%s:%s" % (rd.file, r["origin_line"]))
    # ---- R01.3 -------------------------------------------------------------------------------
    consts = w["header_consts"] + r["header_consts"]
    vals = set(v for _, v in consts)
    if len(consts) < 5:
        rep.inconc(R3, "only %d header-size constants located (expected >= 5)" % len(consts))
    elif len(vals) == 1:
        for role, v in consts:
            rep.ok(R3, {"role": role, "value": hex(v)})
    else:
        for role, v in consts:
            rep.ok(R3, {"role": role, "value": hex(v)}) if v == w["header_consts"][0][1] else rep.violation(
                R3, ser.name if role.startswith("writer") else rd.name, "hdr:" + role, "%s uses %s while the writer's body starts at %s" % (role, hex(v), hex(w["header_consts"][0][1])), "")
    # ---- R01.4 -------------------------------------------------------------------------------
    if w["label_push_order"] == ["address", "offset"] and r["label_read_order"] == ["address", "offset"]:
        rep.ok(R4, {"label_record": "address, name offset"})
    elif len(w["label_push_order"]) != 2 or len(r["label_read_order"]) != 2 or "?" in r["label_read_order"] or "?" in w["label_push_order"]:
        rep.inconc(R4, "label record: writer pushes %s, reader interprets %s (two words expected on each side)" % (w["label_push_order"], r["label_read_order"]))
    else:
        rep.violation(R4, rd.name, "label-record", "writer pushes %s, reader interprets %s" % (w["label_push_order"], r["label_read_order"]), "%s:%s" % (rd.file, rd.line))
    for bad_acc in sorted(set(r.get("label_addr_misuse", []))):
        rep.violation(R4, rd.name, "label-at-end:" + bad_acc, "the parser passes a label's address to BinArchive::%s, which rejects address == size: a label at the end of the data cannot be re-parsed (labels may sit at any address <= size)" % bad_acc, "%s:%s" % (rd.file, rd.line))
    # per-address label order: a sort that orders by label text must compare whole buckets, not single labels
    from binser import sort_calls
    for sc in sort_calls(nv):
        root = sc["target"]
        if not root or root[0] != "local":
            continue
        ty = nv.local_ty(root[1]) or ""
        m_ = re.match(r"std::vec::Vec<\((.*)\)>$", ty)
        if not m_:
            continue
        comps = [c_.strip() for c_ in m_.group(1).split(", ")]
        single = [i for i, c_ in enumerate(comps) if c_ in ("&std::string::String", "std::string::String", "&str")]
        if len(comps) != 2 or not single or sc["spec"] is None:
            continue
        # is it the label sequence (derived from self.labels)?
        d_ = nv.definition(root[1]) if len(nv.defs().get(root[1], [])) == 1 else None
        from_labels = False
        seen_l, todo = set(), [d_] if d_ is not None else []
        while todo and len(seen_l) < 12:
            t_ = todo.pop()
            for x in walk(t_):
                if x[0] == "field" and x[2] == "labels":
                    from_labels = True
                if x[0] == "local" and x[1] not in seen_l:
                    seen_l.add(x[1])
                    for (bi_, si_, kind_, pay_) in nv.defs().get(x[1], []):
                        todo.append(nv.term_of_rvalue(pay_["rv"]) if kind_ == "assign" else nv.term_of_call(pay_, bi_))
        if not from_labels:
            continue
        first = sc["spec"][0]
        if first["path"][:1] == [single[0]]:
            rep.violation(R4, ser.name, "label-sort-per-label", "serialize sorts single (address, label) entries by the label text: labels attached to one address are written in alphabetical instead of insertion order, so the per-address label order does not survive a round trip", "%s:%s" % (ser.file, sc["line"]))
    if r.get("pointer_entry_dropped"):
        rep.violation(R4, rd.name, "pointer-entry-dropped", "a pointer-table entry can be skipped without being stored as a string or a pointer (under [%s]): the annotation is missing after a round trip" % r["pointer_entry_dropped"], "%s:%s" % (rd.file, rd.line))
    for acc, mode in sorted(set(r.get("label_store", []))):
        if mode == "replace":
            rep.violation(R4, rd.name, "label-replace:" + acc, "the label loop stores a label with BinArchive::%s, which replaces the labels already collected for that address: a table that lists one address's labels non-adjacently loses all but the last run" % acc, "%s:%s" % (rd.file, rd.line))
        else:
            rep.ok(R4, {"label_store": acc, "mode": mode})
    if r["classify"] == "gt-data-size":
        rep.ok(R4, {"classification": "value > data size => string"})
    elif r["classify"] is None:
        rep.inconc(R4, "reader: the test that separates string entries from internal pointers was not recognised")
    else:
        rep.violation(R4, rd.name, "classification", "pointer entries are classified by %s (specified: string iff value > data size)" % r["classify"], "%s:%s" % (rd.file, rd.line))
    if r["string_seek"] == "value+hdr" and r["label_seek"] == "origin+offset+hdr":
        rep.ok(R4, {"string at": "value + header", "label name at": "origin + offset + header"})
    elif r["string_seek"] is None or r["label_seek"] is None:
        rep.inconc(R4, "reader: position of the string / label-name reads not recognised (%s, %s)" % (r["string_seek"], r["label_seek"]))
    elif "#" in str(r["label_seek"]) or "#" in str(r["string_seek"]).replace("value+hdr", ""):
        # a position expressed through a local whose own definition was not followed (`start#61`): not a different
        # position, an unresolved one
        rep.inconc(R4, "reader: position of the string / label-name reads not resolved to header fields (%s, %s)" % (r["string_seek"], r["label_seek"]))
    else:
        rep.violation(R4, rd.name, "seeks", "string read at %s, label name at %s" % (r["string_seek"], r["label_seek"]), "%s:%s" % (rd.file, rd.line))


def writer_model(facts, rep, R1, ser):
    nv = ser.named_view()
    loops = for_loops(nv)
    idx = rpo_index(nv)
    m = {"header_consts": []}
    # returned buffer and its cursor
    out_root = None
    for bi, si, s in nv.stmts():
        if s["k"] == "assign" and s["lhs"]["l"] == 0 and not s["lhs"]["p"] and s["rv"]["k"] == "agg" and s["rv"].get("variant") == "Ok":
            out_root = root_of(nv.term_of_operand(s["rv"]["fields"][0]))
    cur = None
    data_cur = None
    for l in range(len(nv.locals)):
        if nv.is_atom(l) and nv.local_ty(l).startswith("std::io::Cursor<"):
            d = nv.definition(l)
            r0 = root_of(d[2][0]) if d[0] == "call" and d[2] else None
            if r0 == out_root:
                cur = l
            else:
                data_cur = (l, r0)
    if out_root is None or cur is None or data_cur is None:
        rep.inconc(R1, "writer: output buffer / cursors not identified")
        return None
    m["data_root"] = data_cur[1]
    # the working copy stands for self.data only while its length is left alone
    m["data_copy_resized"] = None
    if data_cur[1] and data_cur[1][0] == "local":
        for bb_, sh_, args_, t_ in mutations_of(nv, data_cur[1][1]):
            if sh_ in ("resize", "push", "extend", "extend_from_slice", "truncate", "insert", "remove", "append", "pop", "clear", "drain", "splice", "resize_with"):
                m["data_copy_resized"] = (sh_, t_["line"])
    evs = []
    for bb, t in nv.calls():
        if not t["args"]:
            continue
        a0 = nv.term_of_operand(t["args"][0])
        r = root_of(a0)
        nm = (callee_names(t)[1] or callee_names(t)[0] or "").rsplit("::", 1)[-1]
        if r and r[0] == "local" and r[1] == cur:
            evs.append((idx.get(bb, 0), bb, nm, [nv.term_of_operand(a) for a in t["args"][1:]], t))
    evs.sort(key=lambda e: e[0])
    sections = []
    header_words = []
    words_per_item = {}
    last_loop = None
    for _, bb, nm, args, t in evs:
        enc = enclosing_loops(loops, bb)
        if nm == "write_u32" and not enc:
            header_words.append(affine(args[0], nv))
        elif nm == "write_u32" and enc:
            src = enc[0]["src"]
            ch = [x for x in walk(src) if x[0] == "call" and x[1].endswith("Iterator::chain") and len(x[2]) == 2] if src else []
            arr = None
            r_ = root_of(src) if src else None
            if r_ and r_[0] == "local" and len(nv.defs().get(r_[1], [])) == 1 and not nv.partial_writes().get(r_[1]):
                d_ = nv.definition(r_[1])
                if d_[0] == "agg" and d_[1] == "array":
                    arr = d_[4]
            if ch:
                sections.append(("u32", root_of(ch[0][2][0])))
                sections.append(("u32", root_of(ch[0][2][1])))
            elif arr is not None and not sections:
                for el in arr:
                    header_words.append(affine(el, nv))
            else:
                r__ = root_of(src)
                if sections and sections[-1] == ("u32", r__) and r__ is not None and last_loop == enc[0]["head"]:
                    # a second word per iteration of the same loop: a table of records
                    words_per_item[r__] = words_per_item.get(r__, 1) + 1
                else:
                    sections.append(("u32", r__))
                last_loop = enc[0]["head"]
        elif nm == "write_all":
            sections.append(("bytes", root_of(args[0])))
        elif nm == "seek":
            v = [x for x in walk(args[0]) if x[0] == "const" and isinstance(x[1], int)]
            if v:
                m["header_consts"].append(("writer body seek", v[0][1]))
    header_words = [expand_len_locals(nv, h_) for h_ in header_words]
    if len(sections) < 3 or len(header_words) != 4:
        rep.inconc(R1, "writer: image sequence not recognised (%d sections, %d header words)" % (len(sections), len(header_words)))
        return None
    m["sections"] = sections
    m["sections_before_text"] = sections[:-1]
    m["text_section"] = sections[-1][1]
    u32secs = [s for s in sections if s[0] == "u32"]
    m["ptr_section"] = u32secs[0][1] if u32secs else None
    if header_words[0] is not None:
        m["header_consts"].append(("writer file-size addend", header_words[0][1]))
    # header entry sizes: word2 -> bytes (1), word3 = len(u32 vec) -> 4, word4 = len(u32 vec)/2 -> 8
    sizes = []
    hw2, hw3, hw4 = header_words[1], header_words[2], header_words[3]
    sizes.append(1 if hw2 is not None and all(v == 1 for v in hw2[0].values()) and all(len_atom(k) for k in hw2[0]) else None)

    def elem(la):
        """bytes emitted per element of the vector: its element size, provided the loop writes that many words"""
        ty = nv.local_ty(la[1])
        k_ = words_per_item.get(la, 1)
        if ty in ELEM and k_ == 1 and ty != "std::vec::Vec<(u32, u32)>":
            return ELEM[ty]
        if ty == "std::vec::Vec<(u32, u32)>" and k_ == 2:
            return 8
        return None

    def unit(a):
        if a is None or len(a[0]) != 1 or a[1] != 0:
            return None
        k, v = list(a[0].items())[0]
        if k[0] == "div":
            la = len_atom(k[1])
            if la and la[0] == "local" and elem(la) is not None:
                return elem(la) * k[2] // v if v else None
            return None
        la = len_atom(k)
        if la and la[0] == "local" and elem(la) is not None:
            return elem(la) // v if v else None
        return None
    sizes.append(unit(hw3))
    sizes.append(unit(hw4))
    m["header_entry_sizes"] = sizes
    # the string loop: writes text pointer value on the data cursor
    origin = None
    m["origin_line"] = ser.line
    m["text_vec_root"] = None
    intern_target = m["text_section"]
    for lp in loops:
        if lp["kind"] != "for" or not lp["src_root"] or lp["src_root"][0] != "local":
            continue
        fld, d = collected_from(nv, lp["src_root"])
        if fld != "text":
            continue
        m["text_vec_root"] = lp["src_root"]
        for bb in lp["blocks"]:
            t = nv.blocks[bb]["term"]
            if t["k"] != "call" or not t["args"]:
                continue
            nm = (callee_names(t)[1] or callee_names(t)[0] or "").rsplit("::", 1)[-1]
            a0 = nv.term_of_operand(t["args"][0])
            r = root_of(a0)
            if nm == "write_u32" and r and r[0] == "local" and r[1] == data_cur[0]:
                val = nv.term_of_operand(t["args"][1])
                # value = origin + offset, offset = result of the interning call on the text buffer
                a = affine(val, nv, expand=True)
                if a is None:
                    continue
                offs = {}
                rest = {}
                for k, v in a[0].items():
                    is_off = any(x[0] == "call" and x[2] and root_of(x[2][0]) == intern_target for x in walk(k)) or \
                        (k[0] == "local" and any(x[0] == "call" and x[2] and root_of(x[2][0]) == intern_target for x in walk(norm(nv.definition(k[1])))))
                    (offs if is_off else rest)[k] = v
                if offs:
                    origin = (rest, a[1])
                    m["origin_line"] = t["line"]
                    m["origin_bb"] = bb
    # a local that holds `x.len()` of a section that no longer changes stands for that length
    if origin is not None:
        origin = expand_len_locals(nv, origin)
    m["origin"] = origin
    # is the pointer table complete when the origin is computed?  find the definition block of the origin:
    # approximate with the loop head of the text loop – pushes reachable from there into ptr_section
    m["ptr_incomplete_at_origin"] = False
    if m["ptr_section"] and m["ptr_section"][0] == "local" and "origin_bb" in m:
        reach = nv.reachable_blocks(m["origin_bb"])
        for bb, sh, args, t in mutations_of(nv, m["ptr_section"][1]):
            if sh in ("push", "extend", "insert", "append", "extend_from_slice", "resize") and bb in reach:
                m["ptr_incomplete_at_origin"] = True
    # every other section whose length enters the origin must be complete when the origin is taken
    m["incomplete_sections"] = []
    if "origin_bb" in m:
        reach = nv.reachable_blocks(m["origin_bb"])
        for kind, root in m["sections_before_text"]:
            if root == m["ptr_section"] or not root or root[0] != "local":
                continue
            late = [(bb, sh, t["line"]) for bb, sh, args, t in mutations_of(nv, root[1]) if sh in ("push", "extend", "insert", "append", "resize", "extend_from_slice") and bb in reach and bb != m["origin_bb"]]
            if late:
                m["incomplete_sections"].append((root, late[0]))
    # label pushes: order of pushes to the label section inside the label loop
    order = []
    lab_sec = u32secs[1][1] if len(u32secs) > 1 else None
    if lab_sec and lab_sec[0] == "local":
        pushes = sorted(((idx.get(bb, 0), args) for bb, sh, args, t in mutations_of(nv, lab_sec[1]) if sh == "push"), key=lambda x: x[0])
        for _, args in pushes:
            v = args[1]
            is_off = any(x[0] == "call" and x[2] and root_of(x[2][0]) == intern_target for x in walk(norm(v))) or \
                any(x[0] == "local" and any(y[0] == "call" and y[2] and root_of(y[2][0]) == intern_target for y in walk(norm(nv.definition(x[1])))) for x in walk(v) if x[0] == "local" and len(nv.defs().get(x[1], [])) == 1)
            # an address is (a cast of) the key of the label map entry being visited: the item of the loop's next()
            full = nv.definition(v[1]) if v[0] == "local" and len(nv.defs().get(v[1], [])) == 1 else v
            is_addr = any(x[0] == "call" and x[1].endswith("Iterator>::next") or (x[0] == "local" and nv.local_name(x[1]) and nv.local_ty(x[1]).startswith("&usize"))
                          for x in walk(full)) and not any(x[0] == "call" and x[1].rsplit("::", 1)[-1] in ("len", "get", "insert", "entry") for x in walk(full))
            order.append("offset" if is_off else ("address" if is_addr else "?"))
    m["label_push_order"] = order
    return m


def label_store_mode(cb):
    """'append' when the accessor adds to the bucket of its address (inserting a fresh bucket only when there is
    none), 'replace' when it inserts a bucket whatever was there, None when it does not store labels."""
    from flow import enum_paths, PathLimit
    try:
        paths = enum_paths(cb, max_paths=400)
    except PathLimit:
        return None
    mode = None
    for p in paths:
        if p.end != "ret":
            continue
        absent = False
        for (bb, term, vals, neg, dty) in p.conds:
            if term[0] == "discr":
                x = strip_refs(term[1])
                if x[0] == "call" and x[1].rsplit("::", 1)[-1] in ("get_mut", "get", "entry") and x[2]:
                    r_ = strip_refs(x[2][0])
                    if r_[0] == "field" and r_[2] == "labels" and ((vals == (0,)) != neg):
                        absent = True
            ct = cond_truth((term, vals, neg, dty))
            if ct and ct[0][0] == "call" and ct[0][1].endswith("contains_key") and not ct[1]:
                absent = True
        for e in p.events:
            if e["k"] == "call" and e["callee"] and e["args"]:
                sh = e["callee"].rsplit("::", 1)[-1]
                a0 = strip_refs(e["args"][0])
                if sh == "insert" and a0[0] == "field" and a0[2] == "labels":
                    if absent:
                        mode = mode or "append"
                    else:
                        mode = "replace"
                elif sh == "push" and any(x[0] == "field" and x[2] == "labels" for x in walk(e["args"][0])):
                    mode = mode or "append"
    return mode


def reader_model(facts, rep, R2, rd):
    nv = rd.named_view()
    idx = rpo_index(nv)
    loops = for_loops(nv)
    m = {"header_consts": []}
    # header fields: named locals defined by a stream read before any loop, in order
    fields = []
    for l in range(len(nv.locals)):
        if nv.is_atom(l) and nv.local_ty(l) in ("u32", "usize", "u64"):
            ds = nv.defs().get(l, [])
            if len(ds) == 1 and not enclosing_loops(loops, ds[0][0]):
                d = norm(nv.definition(l))
                if nv.local_ty(l) != "u32" and (strip_refs(d)[0] != "cast" or any(x[0] == "bin" for x in walk(d))):
                    continue        # (a header word widened on the spot: `read_u32(..)? as usize`)
                if any(x[0] == "call" and x[1].endswith("read_u32") for x in walk(d)):
                    fields.append((idx.get(ds[0][0], 0), l, nv.local_name(l)))
    fields.sort()
    m["header_fields"] = [(l, n) for _, l, n in fields]
    if len(fields) != 3:
        rep.inconc(R2, "reader: expected 3 header fields read before the loops, found %d" % len(fields))
        return None
    # origin: a named local whose affine form is over exactly those three
    m["origin"] = None
    m["origin_line"] = rd.line
    origin_locals = set()
    for l in range(len(nv.locals)):
        if nv.is_atom(l) and nv.local_ty(l) in ("usize", "u64", "u32"):
            ds = nv.defs().get(l, [])
            if len(ds) != 1 or ds[0][2] != "assign":
                continue
            a = affine(("local", l, nv.local_name(l)), nv)
            if a and set(a[0].keys()) == set(("local", f[0], f[1]) for f in m["header_fields"]):
                if m["origin"] is None:
                    m["origin"] = a
                    m["origin_line"] = ds[0][3]["line"]
                origin_locals.add(l)
    # constants: length checks, seeks, additions
    for bb, t in nv.calls():
        nm = (callee_names(t)[1] or callee_names(t)[0] or "")
        if nm.endswith("Seek>::seek") and not enclosing_loops(loops, bb):
            v = [x for x in walk(nv.term_of_operand(t["args"][1])) if x[0] == "const" and isinstance(x[1], int)]
            if v:
                m["header_consts"].append(("reader body seek", v[0][1]))
    for (bi, si, s) in nv.stmts():
        if s["k"] == "assign" and s["rv"]["k"] == "bin" and s["rv"]["op"] in ("Lt", "Gt", "Le", "Ge"):
            a = nv.term_of_operand(s["rv"]["a"])
            b = nv.term_of_operand(s["rv"]["b"])
            for x, y in ((a, b), (b, a)):
                if x[0] == "const" and isinstance(x[1], int) and any(z[0] == "call" and z[1].endswith("::len") for z in walk(y)) and not enclosing_loops(loops, bi):
                    m["header_consts"].append(("reader minimum length", x[1]))
                aff = affine(x, nv)
                if aff and aff[1] and any(k[0] == "local" and k[1] in [f[0] for f in m["header_fields"]] for k in aff[0]) and any(z[0] == "call" and z[1].endswith("::len") for z in walk(y)):
                    m["header_consts"].append(("reader size check addend", aff[1]))
    # seeks inside loops
    m["string_seek"] = None
    m["label_seek"] = None
    m["classify"] = None
    m["label_read_order"] = []
    hdr_fields = [("local", f[0], f[1]) for f in m["header_fields"]]
    for lp in sorted(loops, key=lambda l: idx.get(l["head"], 0)):
        if lp["kind"] != "for":
            continue
        bound = lp["src"]
        which = None
        for x in walk(bound):
            if x[0] == "local" and x in hdr_fields:
                which = hdr_fields.index(x)
        reads = []
        for bb in sorted(lp["blocks"], key=lambda b: idx.get(b, 0)):
            t = nv.blocks[bb]["term"]
            if t["k"] != "call":
                continue
            nm = (callee_names(t)[1] or callee_names(t)[0] or "")
            if nm.endswith("EndianAwareReader>::read_u32"):
                reads.append((bb, t))
            if nm.endswith("Seek>::seek") or nm.endswith("Cursor::<T>::set_position"):
                tgt = nv.term_of_operand(t["args"][1])
                if tgt[0] == "agg":
                    if tgt[3] != "Start" or not tgt[4]:
                        continue
                    tgt = tgt[4][0]
                a = affine(tgt, nv)
                if a is None or not a[0]:
                    continue
                keys = set(a[0].keys())
                if a[1] and which == 1:
                    # pointer loop: value + hdr
                    if len(keys) == 1 and list(a[0].values()) == [1]:
                        m["string_seek"] = "value+hdr"
                        m["header_consts"].append(("reader string seek addend", a[1]))
                    else:
                        m["string_seek"] = fmt_affine(a)
                if a[1] and which == 2:
                    if set(hdr_fields) <= keys and len(keys) == 4:
                        m["label_seek"] = "origin+offset+hdr"
                        m["header_consts"].append(("reader label-name seek addend", a[1]))
                    else:
                        m["label_seek"] = fmt_affine(a)
        if which == 1:
            # classification: under which relation between the cell value and the data size is the entry stored
            # as a string / as an internal pointer (read off the guards of the two stores, whatever the branch order)
            cd_ = control_deps(nv)
            D = hdr_fields[0]

            def relation(bb):
                """'v>d' | 'v<=d' | other relation text | None for the guards of block bb"""
                out = None
                for (a_, s_, c) in dom_guards(nv, bb, cd_):
                    ct = cond_truth(c)
                    if not ct or ct[0][0] != "bin" or ct[0][1] not in ("Gt", "Ge", "Lt", "Le"):
                        continue
                    l_, r_ = norm(ct[0][2]), norm(ct[0][3])
                    stop_ = tuple(f[1] for f in hdr_fields)
                    dl, dr = deep(nv, ct[0][2], stop=stop_), deep(nv, ct[0][3], stop=stop_)
                    # one side is the data size alone, the other the value stored in the cell
                    def is_d(t_):
                        return any(x == D for x in walk(t_)) and not any(x in hdr_fields[1:] for x in walk(t_)) and not any(x[0] == "bin" for x in walk(t_))
                    def is_v(t_):
                        return any(x[0] == "call" and x[1].endswith("BinArchive::read_u32") for x in walk(t_)) and not any(x[0] == "bin" for x in walk(t_))
                    l_d = is_d(ct[0][2]) or is_d(dl)
                    r_d = is_d(ct[0][3]) or is_d(dr)
                    if l_d == r_d or not (is_v(dr) if l_d else is_v(dl)):
                        continue
                    op = ct[0][1]
                    if l_d:      # d OP v  ->  v OP' d
                        op = {"Gt": "Lt", "Ge": "Le", "Lt": "Gt", "Le": "Ge"}[op]
                    if not ct[1]:
                        op = {"Gt": "Le", "Ge": "Lt", "Lt": "Ge", "Le": "Gt"}[op]
                    out = "v" + {"Gt": ">", "Ge": ">=", "Lt": "<", "Le": "<="}[op] + "d"
                return out
            rel_s = rel_p = None
            for bb in lp["blocks"]:
                t = nv.blocks[bb]["term"]
                if t["k"] == "call":
                    nm = (callee_names(t)[1] or "")
                    if nm.endswith("BinArchive::write_string"):
                        rel_s = relation(bb)
                    elif nm.endswith("BinArchive::write_pointer"):
                        rel_p = relation(bb)
            if rel_s is None:
                # the test is not a plain comparison (a helper, a predicate call): evaluate the guards of the string
                # store at representatives of the three orderings of (cell value, data size)
                rel_s = rel_p = None
                try:
                    from summ import Evaluator, Unknown, Panic
                    E_ = Evaluator(facts)
                    sbb = [bb for bb in lp["blocks"] if nv.blocks[bb]["term"]["k"] == "call" and (callee_names(nv.blocks[bb]["term"])[1] or "").endswith("BinArchive::write_string")]

                    def subst(t_, v_, d_):
                        if not isinstance(t_, tuple) or not t_:
                            return t_
                        if t_[0] == "call" and t_[1].endswith("BinArchive::read_u32"):
                            return ("const", v_, "u32")
                        if (t_[0] == "field" and t_[1][0] == "downcast" and t_[1][2] == "Continue" and t_[1][1][0] == "call" and t_[1][1][1].endswith("Try>::branch")
                                and t_[1][1][2] and strip_refs(t_[1][1][2][0])[0] == "call" and strip_refs(t_[1][1][2][0])[1].endswith("BinArchive::read_u32")):
                            return ("const", v_, "u32")        # `archive.read_u32(..)?`
                        if t_ == D:
                            return ("const", d_, "u32")
                        if t_[0] == "call" and (t_[1].endswith("BinArchive::size") or (t_[1].endswith("::len") and any(y[0] == "field" and y[2] == "data" for y in walk(t_)))):
                            return ("const", d_, "usize")      # the archive being filled holds exactly the data region
                        if t_[0] == "local" and len(nv.defs().get(t_[1], [])) == 1:
                            return subst(nv.definition(t_[1]), v_, d_)
                        return tuple(subst(x, v_, d_) if isinstance(x, tuple) else x for x in t_)
                    table = {}
                    for (v_, d_) in ((3, 8), (8, 8), (9, 8), (0, 0), (1, 0)):
                        taken = True
                        for (a_, s_, c_) in dom_guards(nv, sbb[0], cd_) if sbb else []:
                            if a_ not in lp["blocks"]:
                                continue
                            term, vals, neg, dty = c_
                            if subst(term, 1, 2) == subst(term, 5, 7):
                                continue          # does not depend on the cell value / the data size
                            val = E_.ev(subst(term, v_, d_), {}, nv)
                            if isinstance(val, bool):
                                val = int(val)
                            if (val in vals) == neg:
                                taken = False
                        table[(v_, d_)] = taken
                    if sbb and table:
                        if all(table[k] == (k[0] > k[1]) for k in table):
                            rel_s, rel_p = "v>d", "v<=d"
                        elif all(table[k] == (k[0] >= k[1]) for k in table):
                            rel_s, rel_p = "v>=d", "v<d"
                        else:
                            rel_s = "a test that holds at (value, size) in %s" % sorted(k for k in table if table[k])
                            rel_p = "otherwise"
                except Exception as ex_:
                    import os, traceback
                    if os.environ.get("VERIF_DEBUG"):
                        traceback.print_exc()
                    rel_s = rel_p = None
            if rel_s == "v>d" and rel_p in ("v<=d", None):
                m["classify"] = "gt-data-size"
            elif rel_s is None:
                m["classify"] = None
            else:
                m["classify"] = "string when %s, pointer when %s (v = cell value, d = data size)" % (rel_s, rel_p)
        if which == 1:
            # every pointer-table entry ends up as a string or as a pointer: a trip round the loop that stores neither
            # drops the entry (the writer would not emit it again)
            try:
                from flow import enum_paths, PathLimit
                head_ = lp["head"]
                dropped = None
                for p_ in enum_paths(rd, max_paths=4000, start=head_):
                    if p_.end != "loop" or getattr(p_, "loop_to", None) != head_:
                        continue
                    if not all(x in lp["blocks"] for x in p_.blocks):
                        continue
                    stores = [e for e in p_.events if e["k"] == "call" and e["callee"] and e["callee"].rsplit("::", 1)[-1] in ("write_string", "write_pointer", "write_c_string")]
                    # ... or put straight into the archive's text / pointer / c-string map (`archive.text.insert(a, s)`)
                    stores += [e for e in p_.events if e["k"] == "call" and e["callee"] and e["callee"].rsplit("::", 1)[-1] in ("insert", "push", "entry", "extend") and e["args"] and any(
                        x[0] == "field" and x[2] in ("text", "pointers", "cstrings") and len(x) > 4 and str(x[4]).endswith("BinArchive") for x in walk(e["args"][0]))]
                    if not stores:
                        conds_ = [c_ for c_ in p_.conds if c_[4] == "bool"]
                        dropped = "; ".join(fmt(c_[1])[:50] for c_ in conds_[-2:]) or "unconditionally"
                m["pointer_entry_dropped"] = dropped
            except Exception:
                m["pointer_entry_dropped"] = None
        if which == 2:
            # how each label found in the table is stored: appended to the labels already collected for its address,
            # or put in place of them
            for bb2 in lp["blocks"]:
                t2 = nv.blocks[bb2]["term"]
                if t2["k"] != "call":
                    continue
                nm2 = callee_names(t2)[1] or ""
                cb2 = facts.body(nm2) if nm2.startswith("mila::bin_archive::BinArchive::") else None
                if cb2 is not None:
                    mode = label_store_mode(cb2)
                    if mode:
                        m.setdefault("label_store", []).append((nm2.rsplit("::", 1)[-1], mode))
            # roles of the two reads: which one reaches write_label's address, which one the seek
            roles = []
            for bb, t in reads:
                dest = t["dest"]["l"]
                role = "?"
                # find the named local defined from this read
                for l in range(len(nv.locals)):
                    if nv.is_atom(l):
                        ds = nv.defs().get(l, [])
                        if len(ds) == 1 and ds[0][0] in lp["blocks"]:
                            d = nv.definition(l)
                            if any(x[0] == "call" and len(x) > 3 and x[3] == bb and x[1].endswith("read_u32") for x in walk(d)):
                                # used as write_label address or in the seek?
                                for bb2 in lp["blocks"]:
                                    t2 = nv.blocks[bb2]["term"]
                                    if t2["k"] == "call":
                                        nm2 = (callee_names(t2)[1] or "")
                                        if nm2.endswith("::write_label") or nm2.endswith("::write_labels"):
                                            if any(x == ("local", l, nv.local_name(l)) for x in walk(deep(nv, nv.term_of_operand(t2["args"][1]), stop=(l,)))):
                                                role = "address"
                                        elif nm2.startswith("mila::bin_archive::BinArchive::") and len(t2["args"]) > 1 and \
                                                any(x == ("local", l, nv.local_name(l)) for x in walk(deep(nv, nv.term_of_operand(t2["args"][1]), stop=(l,)))):
                                            # the label's address handed to an accessor that rejects address == size
                                            m.setdefault("label_addr_misuse", []).append(nm2.rsplit("::", 1)[-1])
                                # ... or directly in the position the name is read at
                                for bb2 in lp["blocks"]:
                                    t2 = nv.blocks[bb2]["term"]
                                    if t2["k"] == "call" and ((callee_names(t2)[1] or "").endswith("Seek>::seek") or (callee_names(t2)[1] or "").endswith("Cursor::<T>::set_position")):
                                        tg = nv.term_of_operand(t2["args"][1])
                                        if tg[0] == "agg" and tg[4]:
                                            tg = tg[4][0]
                                        a3 = affine(tg, nv)
                                        if a3 and ("local", l, nv.local_name(l)) in a3[0] and set(hdr_fields) <= set(a3[0].keys()):
                                            role = "offset"
                                for l2 in range(len(nv.locals)):
                                    if nv.is_atom(l2) and l2 != l:
                                        ds2 = nv.defs().get(l2, [])
                                        if len(ds2) == 1 and ds2[0][0] in lp["blocks"] and ds2[0][2] == "assign":
                                            a2 = affine(("local", l2, nv.local_name(l2)), nv)
                                            if a2 and ("local", l, nv.local_name(l)) in a2[0] and set(hdr_fields) <= set(a2[0].keys()):
                                                role = "offset"
                roles.append(role)
            m["label_read_order"] = roles
    return m
