"""C19 — pixel decoding matches the hardware formats (bit-field tables, data tables, bpp, overflow-freedom)."""
import struct
from mir import fmt, walk, strip_refs, norm, callee_names
from flow import enum_paths, PathLimit, cond_truth
from lz import bitslice, canon, prune, fmt_byte, NotBits
import c05

EXPLANATION = ("Channel bit-field tables of the per-pixel decoders (3DS formats and GameCube RGB5A3) extracted in the "
               "bit-slice domain and compared with the hardware layouts; Z-order tile table, 5->8 expansion table, ETC1 "
               "modifier table and bit offsets compared with the published ones; bytes per pixel agree between the "
               "size table, the tile walk and the ETC1 block sizes; every arithmetic overflow check whose operands "
               "derive from payload bits is excluded by mask-aware intervals (checked == unchecked); ETC1 sub-block "
               "selection uses the same predicate for base colour and modifier table. Tile-walk index arithmetic and "
               "final pixel values are not decided.")
ASSUMPTIONS = ["tile walk / crop index arithmetic is value-level and not decided",
               "the frozen hardware tables (3DS PICA formats, GX RGB5A3, ETC1) are the specification"]

DC = "mila::texture_decoder::decode_color"
R5A3 = "mila::pixel_encodings::decode_rgb5a3_pixel"
ETC = "mila::etc1::decode"

MORTON = [((p & 1) | ((p >> 1) & 2) | ((p >> 2) & 4)) + 8 * (((p >> 1) & 1) | ((p >> 2) & 2) | ((p >> 3) & 4)) for p in range(64)]
ETC_MOD = [[2, 8], [5, 17], [9, 29], [13, 42], [18, 60], [24, 80], [33, 106], [47, 183]]
ETC_OFFSETS = {"ETC_INDIV_RED1_OFFSET": 60, "ETC_INDIV_GREEN1_OFFSET": 52, "ETC_INDIV_BLUE1_OFFSET": 44,
               "ETC_DIFF_RED1_OFFSET": 59, "ETC_DIFF_GREEN1_OFFSET": 51, "ETC_DIFF_BLUE1_OFFSET": 43,
               "ETC_RED2_OFFSET": 56, "ETC_GREEN2_OFFSET": 48, "ETC_BLUE2_OFFSET": 40,
               "ETC_TABLE1_OFFSET": 37, "ETC_TABLE2_OFFSET": 34, "ETC_DIFFERENTIAL_BIT": 33, "ETC_ORIENTATION_BIT": 32}


def S(lo, w, dst=0):
    return ("bits", tuple(sorted([("v", 0, lo, w, dst)])), 0)


def REP(lo, w=4):
    return ("bits", tuple(sorted([("v", 0, lo, w, 0), ("v", 0, lo, w, w)])), 0)


def TBL(lo, w=5):
    return ("tbl", "CONVERT_5_TO_8", tuple(sorted([("v", 0, lo, w, 0)])))


def K(c):
    return ("bits", (), c)


SPEC_3DS = {
    0: ("RGBA8", [S(24, 8), S(16, 8), S(8, 8), S(0, 8)]),
    2: ("RGBA5551", [TBL(11), TBL(6), TBL(1), ("bit", 0)]),
    3: ("RGB565", [TBL(11), S(5, 6, 2), TBL(0), K(255)]),
    4: ("RGBA4", [REP(12), REP(8), REP(4), REP(0)]),
    5: ("LA8", [S(8, 8), S(8, 8), S(8, 8), S(0, 8)]),
    7: ("L8", [S(0, 8), S(0, 8), S(0, 8), K(255)]),
    8: ("A8", [K(255), K(255), K(255), S(0, 8)]),
}
SPEC_5A3 = {
    "transparent": [REP(8), REP(4), REP(0), S(12, 3, 5)],
    "opaque": [S(10, 5, 3), S(5, 5, 3), S(0, 5, 3), K(255)],
}


def channel(t, valparam, vbits):
    """Normal form of a channel expression over the pixel value parameter."""
    def classify(x):
        x = strip_refs(x)
        if x[0] == "param" and x[1] == valparam:
            return "v"
        return None
    t0 = t
    while t0[0] == "cast":
        t0 = t0[1]
    # table lookup
    if t0[0] == "index":
        base = t0[1]
        names = [x[1] for x in walk(base) if x[0] == "const" and isinstance(x[1], str) and x[1].startswith("static:")]
        if names:
            pl, c = bitslice(t0[2], classify)
            pl = prune(pl, {"v": (0, (1 << vbits) - 1)})
            return ("tbl", names[0].rsplit("::", 1)[-1], tuple(sorted(clipw(pl))))
    # multiplication by 0x11 replicates a nibble
    def rewrite(x):
        if x[0] == "field" and x[1][0] == "bin" and x[1][1].endswith("WithOverflow") and x[3] == 0:
            x = ("bin", x[1][1].replace("WithOverflow", ""), x[1][2], x[1][3])
        if x[0] == "bin" and x[1] == "Mul":
            a, b = x[2], x[3]
            if a[0] == "const":
                a, b = b, a
            if b[0] == "const" and b[1] == 0x11:
                return ("bin", "BitOr", rewrite(a), ("bin", "Shl", rewrite(a), ("const", 4, "u32")))
            return ("bin", "Mul", rewrite(a), b)
        if x[0] == "bin":
            return ("bin", x[1], rewrite(x[2]), rewrite(x[3]))
        if x[0] == "cast":
            return ("cast", rewrite(x[1]), x[2]) + tuple(x[3:])
        return x
    pl, c = bitslice(rewrite(t), classify)
    pl = prune(pl, {"v": (0, (1 << vbits) - 1)})
    pl = clipw([p for p in pl])
    # final value is a byte
    from lz import clip
    pl = clip(pl, 0, 8)
    return ("bits", tuple(sorted(pl)), c & 0xFF)


def clipw(pl):
    return [(s, b, sl, w, dl) for (s, b, sl, w, dl) in pl if w > 0]


def fmt_ch(c):
    if c[0] == "tbl":
        return "%s[%s]" % (c[1], ",".join("v[%d..%d)" % (sl, sl + w) for (s, b, sl, w, dl) in c[2]))
    if c[0] == "bit":
        return "bit %d ? 255 : 0" % c[1]
    if c[0] == "bits":
        parts = ["v[%d..%d)->[%d..%d)" % (sl, sl + w, dl, dl + w) for (s, b, sl, w, dl) in c[1]]
        if c[2] or not parts:
            parts.append(hex(c[2]))
        return " | ".join(parts)
    return str(c)


def run(facts, rep, ctx):
    R1 = rep.rule("R19.1", "channel bit-fields of RGBA8/RGBA5551/RGB565/RGBA4/LA8/L8/A8 and both RGB5A3 modes", floor=36)
    R2 = rep.rule("R19.2", "data tables: Z-order tile table, 5->8 table, ETC1 modifier table, ETC1 bit offsets", floor=4)
    R3 = rep.rule("R19.3", "bytes per pixel agree: size table = width read in the tile walk = ETC1 block size / 16", floor=9)
    R4 = rep.rule("R19.4", "checked == unchecked: no overflow check on payload-derived operands can fire", floor=1)
    R5 = rep.rule("R19.5", "ETC1 sub-block selection: same predicate for base colour and modifier table; sign negates; clamp to [0,255]", floor=3)
    channels_3ds(facts, rep, R1)
    channels_5a3(facts, rep, R1)
    tables(facts, rep, R2)
    bpp(facts, rep, R3)
    overflow(facts, rep, R4)
    etc_selection(facts, rep, R5)
    R7 = rep.rule("R19.7", "tile walk: output position polynomial of the 8x8 Z-order walk and of the ETC1 tile/block/pixel nest", floor=2)
    tile_walk(facts, rep, R7)
    texel_kept(facts, rep, R7)
    R6 = rep.rule("R19.6", "ETC1 differential delta: 3-bit two's-complement sign extension (exhaustive over the 8 inputs)", floor=1)
    sign_extension(facts, rep, R6)
    R8 = rep.rule("R19.8", "every ETC1 block reaches the pixel nest; palette images go through block re-linearisation with aligned dimensions and are cropped", floor=3)
    every_block_decoded(facts, rep, R8)
    import c20
    c20.tpl_pipeline_rule(facts, rep, R8)


def every_block_decoded(facts, rep, R8):
    """In etc1::decode every trip round the block loop that has read the block's colour word goes through the
    pixel nest: a branch that returns to the block loop without entering it leaves the block's pixels unwritten."""
    b = facts.body(ETC)
    if b is None:
        rep.inconc(R8, "etc1::decode not found")
        return
    loops = b.loops()
    reads = [bb for bb, t in b.calls() if (callee_names(t)[1] or callee_names(t)[0] or "").endswith("read_u64")]
    if not reads:
        rep.inconc(R8, "etc1::decode: block reads (read_u64) not found")
        return
    # the block loop: the innermost loop containing the last colour-word read
    rbb = reads[-1]
    cont = [(len(bl), h) for h, bl in loops.items() if rbb in bl]
    if not cont:
        rep.inconc(R8, "etc1::decode: the colour word is not read inside a loop")
        return
    _, head = min(cont)
    inner_heads = set(h for h, bl in loops.items() if h != head and h in loops[head])
    if not inner_heads:
        rep.inconc(R8, "etc1::decode: no pixel nest inside the block loop")
        return
    seen, st = set(), [s for s in b.succs(rbb)]
    skipping = False
    while st:
        x = st.pop()
        if x in seen or x in inner_heads:
            continue
        seen.add(x)
        if x == head:
            skipping = True
            break
        if x not in loops[head]:
            continue        # left the loop (error exit / return)
        st.extend(b.succs(x))
    if skipping:
        rep.violation(R8, b.name, "block-skipped", "etc1::decode can return to the block loop after reading a block without entering the pixel nest: the pixels of that block keep their initial value", "%s:%s" % (b.file, b.blocks[rbb]["term"].get("line")))
    else:
        rep.ok(R8, {"fn": b.name, "block_loop": "every block that is read reaches the pixel nest"})


def color_writes(p):
    """channel index -> value term from writes through IndexMut on the colour vector (last write wins)."""
    out = {}
    for e in p.events:
        if e["k"] == "write" and e["place"][0] == "deref" and e["place"][1][0] == "call" and "index_mut" in e["place"][1][1]:
            i = e["place"][1][2][1]
            if i[0] == "const":
                out[i[1]] = e["val"]
            else:
                out["?"] = "store at a computed index"
        elif e["k"] == "call" and (e["callee"] or "").endswith("copy_from_slice") and len(e["args"]) == 2:
            # whole-vector copy from a byte array: channel i = array[i]
            dst = strip_refs(e["args"][0])
            src = strip_refs(e["args"][1])
            while src[0] == "cast":
                src = strip_refs(src[1])
            if dst[0] == "call" and dst[1].rsplit("::", 1)[-1] in ("deref_mut", "as_mut_slice", "as_mut") and (src[0] in ("call", "agg", "var")):
                for i in range(4):
                    out[i] = src[4][i] if (src[0] == "agg" and len(src[4]) == 4) else ("index", src, ("const", i, "usize"))
            else:
                out["?"] = "bulk copy into part of the colour vector"
        elif e["k"] == "call" and e["args"] and e["args"][0][0] == "ref" and e["args"][0][2] and (e["callee"] or "").rsplit("::", 1)[-1] in (
                "extend_from_slice", "push", "fill", "swap", "reverse", "clone_from_slice", "iter_mut"):
            out["?"] = "colour vector changed by %s" % (e["callee"] or "").rsplit("::", 1)[-1]
    return out


def eval_channel(facts, t, valparam, v):
    """Value of a pure channel expression at pixel value v (used when the expression is not in bit-field form:
    the domain of a 16-bit or 8-bit format is small enough to compare exhaustively)."""
    tag = t[0]
    if tag in ("ref", "deref"):
        return eval_channel(facts, t[1], valparam, v)
    if tag == "param":
        if t[1] == valparam:
            return v
        raise NotBits("parameter %s" % t[2])
    if tag == "const":
        if isinstance(t[1], bool):
            return int(t[1])
        if isinstance(t[1], int):
            return t[1]
        raise NotBits("constant " + fmt(t)[:30])
    if tag == "cast":
        x = eval_channel(facts, t[1], valparam, v)
        bits = {"u8": 8, "u16": 16, "u32": 32, "u64": 64, "usize": 64}.get(t[2])
        if bits is None:
            raise NotBits("cast to " + str(t[2]))
        return x & ((1 << bits) - 1)
    if tag == "field" and t[1][0] == "bin" and t[1][1].endswith("WithOverflow") and t[3] == 0:
        return eval_channel(facts, ("bin", t[1][1].replace("WithOverflow", ""), t[1][2], t[1][3], t[1][4] if len(t[1]) > 4 else None), valparam, v)
    if tag == "bin":
        a = eval_channel(facts, t[2], valparam, v)
        b = eval_channel(facts, t[3], valparam, v)
        op = t[1].replace("Unchecked", "")
        bits = {"u8": 8, "u16": 16, "u32": 32, "u64": 64, "usize": 64}.get(t[4] if len(t) > 4 else None, 64)
        m = (1 << bits) - 1
        if op in ("Add", "Sub", "Mul"):
            r = a + b if op == "Add" else (a - b if op == "Sub" else a * b)
            if r < 0 or r > m:
                raise NotBits("overflow")
            return r
        if op == "Shl":
            return (a << b) & m
        if op == "Shr":
            return a >> b
        if op == "BitAnd":
            return a & b
        if op == "BitOr":
            return a | b
        if op == "BitXor":
            return a ^ b
        if op == "Div" and b:
            return a // b
        if op == "Rem" and b:
            return a % b
        raise NotBits("operator " + op)
    if tag == "index":
        i = eval_channel(facts, t[2], valparam, v)
        base = strip_refs(t[1])
        names = [x[1] for x in walk(base) if x[0] == "const" and isinstance(x[1], str) and x[1].startswith("static:")]
        if names:
            tb = static_bytes(facts, names[0][len("static:"):])
            if tb is None or not (0 <= i < len(tb)):
                raise NotBits("table index")
            return tb[i]
        if base[0] == "call" and len(base[2]) == 1:
            import re
            mm = re.search(r"<impl (u16|u32|u64)>::to_(be|le)_bytes$", base[1])
            if mm:
                n = {"u16": 2, "u32": 4, "u64": 8}[mm.group(1)]
                x = eval_channel(facts, base[2][0], valparam, v)
                lo = 8 * (n - 1 - i) if mm.group(2) == "be" else 8 * i
                return (x >> lo) & 0xFF
    if tag == "call" and len(t[2]) == 1 and t[1].endswith("::from"):
        return eval_channel(facts, t[2][0], valparam, v)
    raise NotBits("term " + fmt(t)[:60])


def spec_value(facts, want, v):
    def bits(pl, x):
        r = 0
        for (s, b, sl, w, dl) in pl:
            r |= ((x >> sl) & ((1 << w) - 1)) << dl
        return r
    if want[0] == "bits":
        return (bits(want[1], v) | want[2]) & 0xFF
    if want[0] == "tbl":
        tb = static_bytes(facts, "mila::texture_decoder::" + want[1])
        return tb[bits(want[2], v)]
    raise NotBits("spec")


def exhaustive_channel(facts, w, want, valparam, vbits):
    """None when the expression equals the specified layout on every pixel value; else a witness string."""
    for v in range(1 << vbits):
        g = eval_channel(facts, w, valparam, v)
        e = spec_value(facts, want, v)
        if (g & 0xFF) != e:
            return "pixel value %#x gives %d, hardware layout %s gives %d" % (v, g & 0xFF, fmt_ch(want), e)
    return None


def channels_3ds(facts, rep, R1):
    b = facts.body(DC)
    if b is None:
        rep.inconc(R1, "decode_color not found (reached from ctpk/bch/cgfx readers)")
        return
    where = "%s:%s" % (b.file, b.line)
    try:
        paths = enum_paths(b)
    except PathLimit:
        rep.inconc(R1, "decode_color: too many paths")
        return
    vparam, fparam = 1, 2
    per = {}
    for p in paths:
        if p.end != "ret":
            continue
        fmts = None
        alpha_bit = None
        for (bb, term, vals, neg, dty) in p.conds:
            if strip_refs(term) == ("param", fparam, b.local_name(fparam)) and not neg:
                fmts = vals
            ct = cond_truth((term, vals, neg, dty))
            if ct and ct[0][0] == "bin" and ct[0][1] == "Eq" and ct[0][2][0] == "bin" and ct[0][2][1] == "BitAnd" and ct[0][3][0] == "const":
                m = ct[0][2][3]
                if m[0] == "const" and m[1] & (m[1] - 1) == 0 and ct[0][3][1] == m[1]:
                    alpha_bit = (m[1].bit_length() - 1, ct[1])
        if not fmts:
            continue
        for f in fmts:
            per.setdefault(f, []).append((p, alpha_bit))
    for f, (name, spec) in sorted(SPEC_3DS.items()):
        lst = per.get(f)
        if not lst:
            for ci in range(4):
                rep.violation(R1, b.name, "format-missing:%s:%d" % (name, ci), "format code %d (%s) has no decoding branch" % (f, name), where)
            continue
        vbits = 32 if f == 0 else (16 if f in (2, 3, 4, 5) else 8)
        for ci, want in enumerate(spec):
            cname = "RGBA"[ci]
            got = None
            bad = None
            unknown = None
            if want[0] == "bit":
                # two branches on the bit: 255 when set, 0 when clear
                vals = {}
                for p, ab in lst:
                    w = color_writes(p).get(ci)
                    if ab is None or w is None:
                        bad = "alpha is not selected by a single bit test"
                        continue
                    vals[(ab[0], ab[1])] = w
                if not bad:
                    ok = vals.get((want[1], True)) == ("const", 255, "u8") and vals.get((want[1], False)) == ("const", 0, "u8")
                    if not ok:
                        bad = "alpha = %s" % {k: fmt(v) for k, v in vals.items()}
            else:
                for p, ab in lst:
                    cw = color_writes(p)
                    w = cw.get(ci)
                    if w is None:
                        if "?" in cw:
                            unknown = cw["?"]
                        else:
                            bad = "channel never written"
                        continue
                    try:
                        g = channel(w, vparam, vbits)
                    except NotBits as e:
                        # not in shift/mask form: decide by comparing on the whole (small) value domain
                        if vbits <= 16:
                            try:
                                wit = exhaustive_channel(facts, w, want, vparam, vbits)
                                if wit:
                                    bad = wit
                                continue
                            except NotBits as e2:
                                e = e2
                        unknown = "not a bit-field expression (%s)" % e
                        continue
                    if g != want:
                        bad = "%s, hardware layout %s" % (fmt_ch(g), fmt_ch(want))
            if bad:
                rep.violation(R1, b.name, "channel:%s:%s" % (name, cname), "%s channel %s: %s" % (name, cname, bad), where)
            elif unknown:
                rep.inconc(R1, "%s channel %s: %s" % (name, cname, unknown))
            else:
                rep.ok(R1, {"format": name, "channel": cname, "layout": fmt_ch(want)})


def channels_5a3(facts, rep, R1):
    b = facts.body(R5A3)
    if b is None:
        rep.inconc(R1, "decode_rgb5a3_pixel not found")
        return
    where = "%s:%s" % (b.file, b.line)
    try:
        paths = enum_paths(b)
    except PathLimit:
        rep.inconc(R1, "rgb5a3: too many paths")
        return
    seen = {}
    for p in paths:
        if p.end != "ret":
            continue
        mode = None
        for (bb, term, vals, neg, dty) in p.conds:
            ct = cond_truth((term, vals, neg, dty))
            if ct and ct[0][0] == "bin" and ct[0][1] in ("Eq", "Ne") and ct[0][3][:2] == ("const", 0):
                m = [x for x in walk(ct[0][2]) if x[0] == "const" and x[1] == 0x8000]
                if m:
                    clear = (ct[0][1] == "Eq") == ct[1]          # bit 15 is clear on this arm
                    mode = "transparent" if clear else "opaque"
            elif ct and ct[0][0] == "bin" and ct[0][1] in ("Lt", "Ge") and ct[0][3][:2] == ("const", 0x8000) and strip_refs(ct[0][2])[0] == "param":
                clear = (ct[0][1] == "Lt") == ct[1]              # value < 0x8000
                mode = "transparent" if clear else "opaque"
        arr = None
        for e in p.events:
            if e["k"] == "write" and e["val"][0] == "agg" and e["val"][1] == "array" and len(e["val"][4]) == 4:
                arr = e["val"][4]
        if mode and arr:
            seen[mode] = arr
    for mode, spec in SPEC_5A3.items():
        arr = seen.get(mode)
        if not arr:
            if not seen:
                rep.inconc(R1, "RGB5A3: the test of bit 15 that selects the mode was not recognised")
                break
            for ci in range(4):
                rep.violation(R1, b.name, "mode-missing:%s:%d" % (mode, ci), "RGB5A3 %s mode (bit 15) has no branch" % mode, where)
            continue
        for ci, want in enumerate(spec):
            cname = "RGBA"[ci]
            try:
                g = channel(arr[ci], 1, 16 if mode == "opaque" else 15)
            except NotBits as e:
                rep.violation(R1, b.name, "channel:5A3-%s:%s" % (mode, cname), "RGB5A3 %s %s is not a bit-field expression (%s)" % (mode, cname, e), where)
                continue
            # in the opaque mode bit 15 is known to be 1: slices reaching into it are clipped by the byte cast
            if g == want:
                rep.ok(R1, {"format": "RGB5A3/" + mode, "channel": cname, "layout": fmt_ch(want)})
            else:
                rep.violation(R1, b.name, "channel:5A3-%s:%s" % (mode, cname), "RGB5A3 %s channel %s: %s, hardware layout %s" % (mode, cname, fmt_ch(g), fmt_ch(want)), where)


def static_bytes(facts, name):
    c = facts.consts.get(name)
    if not c or not c.get("val"):
        return None
    v = c["val"]
    if v.get("ptrs"):
        return v["ptrs"][0]["bytes"]
    return v.get("bytes")


def tables(facts, rep, R2):
    t = static_bytes(facts, "mila::texture_decoder::TILE_ORDER")
    if t is None:
        rep.inconc(R2, "TILE_ORDER static not found")
    elif list(t) == MORTON:
        rep.ok(R2, {"table": "TILE_ORDER", "entries": 64, "is": "Morton (Z-order) permutation of the 8x8 tile"})
    else:
        diff = [i for i in range(min(len(t), 64)) if t[i] != MORTON[i]]
        rep.violation(R2, "mila::texture_decoder::TILE_ORDER", "tile-order", "TILE_ORDER differs from the Z-order permutation at entries %s (length %d)" % (diff[:6], len(t)), "src/texture_decoder.rs")
    c = static_bytes(facts, "mila::texture_decoder::CONVERT_5_TO_8")
    if c is None:
        rep.inconc(R2, "CONVERT_5_TO_8 static not found")
    else:
        bad = [i for i in range(min(len(c), 32)) if abs(c[i] - round(255 * i / 31)) > 1]
        mono = all(c[i] < c[i + 1] for i in range(len(c) - 1))
        if len(c) == 32 and not bad and mono and c[0] == 0 and c[31] == 255:
            rep.ok(R2, {"table": "CONVERT_5_TO_8", "entries": 32})
        else:
            rep.violation(R2, "mila::texture_decoder::CONVERT_5_TO_8", "convert-5-to-8", "5->8 table: length %d, entries off by more than 1: %s, monotone: %s" % (len(c), bad[:6], mono), "src/texture_decoder.rs")
    # ETC1 modifier table: arrays of two i32 constants in construction order
    mt = None
    for b in facts.bodies.values():
        if b.name.startswith("mila::etc1::") and b.local_ty(0) == "std::vec::Vec<std::vec::Vec<i32>>":
            rows = []
            for bi, si, s in sorted(b.stmts(), key=lambda x: (x[0], x[1])):
                if s["k"] == "assign" and s["rv"]["k"] == "agg" and s["rv"].get("ak") == "array" and s["rv"].get("ty") == "i32":
                    vals = [b.term_of_operand(f) for f in s["rv"]["fields"]]
                    if all(v[0] == "const" for v in vals):
                        rows.append((s["line"], [v[1] for v in vals]))
            rows.sort()
            mt = (b, [r[1] for r in rows])
    if mt is None:
        rep.inconc(R2, "ETC1 modifier table constructor not found")
    elif mt[1] == ETC_MOD:
        rep.ok(R2, {"table": "ETC1 modifiers", "rows": 8})
    else:
        rep.violation(R2, mt[0].name, "etc1-modifiers", "ETC1 modifier table is %s, published %s" % (mt[1], ETC_MOD), "%s:%s" % (mt[0].file, mt[0].line))
    wrong = []
    found = 0
    for k, v in ETC_OFFSETS.items():
        got = facts.const_val("mila::etc1::" + k)
        if got is None:
            continue
        found += 1
        if got != v:
            wrong.append((k, got, v))
    # offsets may be inlined constants; then the uses carry them – decided through the shift amounts below
    e = facts.body(ETC)
    if e is not None:
        shifts = set()
        for bi, si, s in e.stmts():
            if s["k"] == "assign" and s["rv"]["k"] == "bin" and s["rv"]["op"] == "Shr":
                k = s["rv"]["b"].get("k")
                a = e.term_of_operand(s["rv"]["a"])
                if k and k.get("val", {}).get("kind") == "int" and any(x[0] == "call" and x[1].endswith("read_u64") for x in walk(a)) and "item" in k:
                    shifts.add((k["item"].rsplit("::", 1)[-1], k["val"]["v"]))
        for nm, v in shifts:
            if nm in ETC_OFFSETS and ETC_OFFSETS[nm] != v and (nm, v, ETC_OFFSETS[nm]) not in wrong:
                wrong.append((nm, v, ETC_OFFSETS[nm]))
    if wrong:
        rep.violation(R2, "mila::etc1", "etc1-offsets", "ETC1 bit offsets differ from the published block layout: %s" % [(k, g, "published %d" % w) for k, g, w in wrong], "src/etc1.rs")
    elif found >= 13:
        rep.ok(R2, {"table": "ETC1 bit offsets", "constants": found})
    else:
        rep.inconc(R2, "only %d of 13 ETC1 offset constants found" % found)


def fbits(v):
    return struct.unpack("<f", struct.pack("<I", v & 0xFFFFFFFF))[0]


def value_classes(body, path, param, universe=range(0, 16)):
    """Values of integer parameter `param` consistent with every condition of the path."""
    ok = set(universe)
    pt = ("param", param, body.local_name(param))
    for (bb, term, vals, neg, dty) in path.conds:
        if strip_refs(term) == pt:
            ok = {v for v in ok if (v in vals) != neg}
            continue
        ct = cond_truth((term, vals, neg, dty))
        if ct and ct[0][0] == "bin" and ct[0][1] in ("Le", "Ge", "Lt", "Gt", "Eq", "Ne"):
            a, b = ct[0][2], ct[0][3]
            op = ct[0][1]
            if strip_refs(b) == pt and a[0] == "const":
                a, b = b, a
                op = {"Le": "Ge", "Ge": "Le", "Lt": "Gt", "Gt": "Lt", "Eq": "Eq", "Ne": "Ne"}[op]
            if strip_refs(a) == pt and b[0] == "const":
                k = b[1]
                f = {"Le": lambda v: v <= k, "Ge": lambda v: v >= k, "Lt": lambda v: v < k, "Gt": lambda v: v > k, "Eq": lambda v: v == k, "Ne": lambda v: v != k}[op]
                ok = {v for v in ok if f(v) == ct[1]}
    return ok


def bpp(facts, rep, R3):
    tb = facts.body("mila::texture_decoder::get_pixel_format_bpp")
    wk = facts.body("mila::texture_decoder::decode_rgba_pixel_data")
    if tb is None or wk is None:
        rep.inconc(R3, "bpp table / tile walk not found")
        return
    table = {}
    for p in enum_paths(tb):
        if p.end != "ret":
            continue
        r = p.ret
        val = fbits(r[1]) if r[0] == "const" and isinstance(r[1], int) else None
        for v in value_classes(tb, p, 1):
            table[v] = val
    # tile walk: per format, which read is made
    walk_w = {}
    fparam = [i for i in range(1, wk.argc + 1) if wk.local_ty(i) == "u32"][0]
    for p in enum_paths(wk):
        reads = [e["callee"].rsplit("::", 1)[-1] for e in p.events if e["k"] == "call" and e["callee"] and "ReadBytesExt::read_" in e["callee"]]
        seeks = [e for e in p.events if e["k"] == "call" and e["callee"] and e["callee"].endswith("Seek>::seek")]
        if not reads:
            continue
        w = {"read_u32": 4, "read_u16": 2, "read_u8": 1}.get(reads[-1])
        if seeks:
            back = [x[1] for x in walk(seeks[-1]["args"][1]) if x[0] == "const" and isinstance(x[1], int)]
            if back:
                w = w + (back[0] if back[0] < (1 << 63) else back[0] - (1 << 64))
        for f in value_classes(wk, p, fparam):
            walk_w[f] = float(w)
    want = {0: 4.0, 2: 2.0, 3: 2.0, 4: 2.0, 5: 2.0, 7: 1.0, 8: 1.0}
    for f, w in sorted(want.items()):
        if table.get(f) == w and walk_w.get(f) == w:
            rep.ok(R3, {"format": f, "bytes_per_pixel": w})
        else:
            rep.violation(R3, tb.name, "bpp:%d" % f, "format %d: size table says %s bytes/pixel, the tile walk consumes %s, hardware %s" % (f, table.get(f), walk_w.get(f), w), "%s:%s" % (tb.file, tb.line))
    b8 = facts.const_val("mila::etc1::ETC1_BLOCK_SIZE")
    b16 = facts.const_val("mila::etc1::ETC1A4_BLOCK_SIZE")
    for f, blk, w in ((12, b8, 0.5), (13, b16, 1.0)):
        if blk is not None and blk / 16.0 == w == table.get(f):
            rep.ok(R3, {"format": f, "block_bytes": blk, "bytes_per_pixel": w})
        else:
            rep.violation(R3, tb.name, "bpp:%d" % f, "format %d: block size %s bytes per 16 pixels vs size table %s (hardware %s)" % (f, blk, table.get(f), w), "%s:%s" % (tb.file, tb.line))


def overflow(facts, rep, R4):
    roots = [facts.body(n) for n in (ETC, DC, R5A3, "mila::texture_decoder::decode_pixel_data", "mila::pixel_encodings::ColorFormat::decode", "mila::pixel_encodings::ColorFormat::decode_indexed")]
    roots = [r for r in roots if r is not None]
    ids, ext = facts.reachable_from([r.id for r in roots])
    sites = flagged = 0
    for i in sorted(ids):
        b = facts.bodies[i]
        P = c05.Prov(b)
        for bb, t in b.asserts():
            m = t["msg"]
            if m["kind"] != "Overflow":
                continue
            aty = m.get("aty")
            a = b.term_of_operand(m["a"])
            c = b.term_of_operand(m["b"])
            op = m["op"]
            # payload provenance: stream reads, or the pixel value parameter of the per-pixel functions
            def payload(x):
                tags = P.tags_of(x)
                if "input" in tags:
                    return True
                if b.name in (DC, R5A3, "mila::etc1::complement") and "param" in tags:
                    return any(y[0] == "param" and y[1] == 1 for y in walk(x))
                return False
            if not (payload(a) or payload(c)):
                continue
            # a value merely *selected* by payload bits (table lookup) is not computed from them
            def lookup(x):
                while x[0] in ("cast", "ref", "deref", "un"):
                    x = x[2] if x[0] == "un" else x[1]
                if x[0] == "var":
                    ds = b.defs().get(x[1], [])
                    return bool(ds) and all(k == "assign" and lookup(b.term_of_rvalue(pl["rv"])) for (_, _, k, pl) in ds)
                return x[0] == "index" or (x[0] == "call" and "ops::Index" in x[1])
            if lookup(a) or lookup(c):
                rep.count("payload_selected_table_values_not_decided")
                continue
            if b.name == DC:
                from flow import guards, control_deps
                fm = set(range(0, 16))
                for (ga, gs, gc) in guards(b, bb, control_deps(b)):
                    term, vals, neg, dty = gc
                    if strip_refs(term) == ("param", 2, b.local_name(2)):
                        fm = {v for v in fm if (v in vals) != neg}
                if not (fm & set(SPEC_3DS)):
                    rep.count("sites_in_formats_outside_the_property")
                    continue
            sites += 1
            res = P.of(("bin", op, a, c, aty), aty)
            r = c05.ty_range(aty)
            if op in ("Shl", "Shr"):
                sb = P.of(c, aty)
                if sb[1] < c05.BITS.get(aty, 64) and sb[0] >= 0:
                    rep.count("payload_overflow_sites_discharged")
                    continue
            if r and res[0] >= r[0] and res[1] <= r[1]:
                rep.count("payload_overflow_sites_discharged")
                continue
            if not b.pub and b.kind != "Closure" and any(x[0] == "param" and b.local_ty(x[1]) in c05.BITS for t_ in (a, c) for x in walk(t_)):
                # the operands are parameters of a private helper: their range is whatever its callers pass
                # (typically a masked bit field), which this site-local interval does not see
                rep.inconc(R4, "%s computes %s on its own integer parameters; the ranges its callers pass were not propagated" % (b.name.rsplit("::", 1)[-1], op))
                continue
            flagged += 1
            rep.violation(R4, b.name, "overflow:%s:%s" % (op, fmt(norm(a))[:24] + "," + fmt(norm(c))[:24]),
                          "%s computes %s(%s, %s) in %s on payload bits: range %s..%s can leave the type, so checked builds panic where unchecked builds wrap" % (
                              b.name.rsplit("::", 1)[-1], op, fmt(norm(a))[:40], fmt(norm(c))[:40], aty, res[0], res[1]), "%s:%s" % (b.file, t["line"]))
    rep.count("payload_overflow_sites", sites)
    if sites == 0:
        rep.inconc(R4, "no payload-derived arithmetic found in the decoders")
    elif flagged == 0:
        rep.ok(R4, {"payload_arithmetic_sites": sites, "all_discharged_by_interval": True})


def sign_extension(facts, rep, R6):
    """The helper that turns the 3-bit differential delta into a signed value: decision table over all 8 inputs."""
    from summ import Evaluator, Unknown, Panic
    e = facts.body(ETC)
    if e is None:
        rep.inconc(R6, "etc1::decode not found")
        return
    helpers = {}
    for bb, t in e.calls():
        nm = callee_names(t)[1] or ""
        cb = facts.body(nm)
        if cb is not None and cb.argc == 2 and cb.local_ty(1) == "u8" and cb.local_ty(2) == "u8" and cb.local_ty(0) == "u8":
            bits = e.term_of_operand(t["args"][1])
            if bits[0] == "const":
                helpers.setdefault((cb.name, bits[1]), 0)
                helpers[(cb.name, bits[1])] += 1
    if not helpers:
        # inlined: not decided here
        rep.inconc(R6, "delta sign-extension helper not found among the callees of etc1::decode")
        return
    E = Evaluator(facts)
    for (hn, bits), uses in sorted(helpers.items()):
        hb = facts.body(hn)
        bad = []
        for v in range(1 << bits):
            want = v if v < (1 << (bits - 1)) else (v - (1 << bits)) & 0xFF
            try:
                got = E.call_body(hb, [v, bits])
            except Panic as p:
                got = "panic: " + p.what
            except Unknown as u:
                rep.inconc(R6, "%s: %s" % (hn, u))
                got = None
                break
            if got != want:
                bad.append((v, got, want))
        if got is None:
            continue
        if bad:
            v, g, w = bad[0]
            rep.violation(R6, hn, "sign-extend", "%s(0b%s, %d) yields %s, two's-complement sign extension gives %s (%d of %d inputs differ): a differential delta is decoded with the wrong sign" % (hn.rsplit("::", 1)[-1], format(v, "03b"), bits, g, w, len(bad), 1 << bits), "%s:%s" % (hb.file, hb.line))
        else:
            rep.ok(R6, {"helper": hn, "bits": bits, "inputs": 1 << bits, "uses": uses})
    # the three deltas are applied to r, g, b respectively with a wrapping add of the extended value
    for bb, t in e.calls():
        nm = callee_names(t)[1] or ""
        short = nm.rsplit("::", 1)[-1]
        if "<impl u8>::" in nm and short in ("saturating_add", "checked_add", "strict_add"):
            used = [hn for (hn, bits) in helpers for a in t["args"]
                    if any(x[0] == "call" and x[1] == hn for x in walk(e.term_of_operand(a)))]
            if used:
                rep.violation(R6, ETC, "delta-application:" + short,
                              "the sign-extended delta from %s is an 8-bit two's-complement value (-1 is 0xFF) and is applied with u8::%s: base 10 with delta -1 gives %s, the ETC1 rule is base + delta = 9 (a negative delta needs the wrapping add, or a signed type)" % (
                                  used[0].rsplit("::", 1)[-1], short, "255 (saturated)" if short == "saturating_add" else "no value (overflow)"),
                              "%s:%s" % (e.file, t.get("line", e.line)))
                return
    adds = [t for bb, t in e.calls() if (callee_names(t)[1] or "").endswith("<impl u8>::wrapping_add")]
    if len(adds) >= 3:
        rep.ok(R6, {"delta_application": "base.wrapping_add(sign_extend(delta)) x%d" % len(adds)})
    else:
        rep.count("delta_additions_not_wrapping", 1)


def texel_kept(facts, rep, R7):
    """The texel copied into the output is the one the channel decoder returned: after `decode_color` has produced
    it, the same local is not overwritten from a source that reads no payload (a constant fill under a condition on
    the decoded value) before the iteration ends."""
    from binser import rpo_index
    DCN = "mila::texture_decoder::decode_color"
    b = facts.body("mila::texture_decoder::decode_rgba_pixel_data")
    if b is None:
        return
    nv = b.named_view()
    decoded = {}
    for i, blk in enumerate(nv.blocks):
        t = blk["term"]
        if t["k"] == "call" and (callee_names(t)[1] or "") == DCN and t.get("dest") and not t["dest"]["p"]:
            decoded.setdefault(t["dest"]["l"], []).append(i)
    if not decoded:
        return
    rpo = rpo_index(nv)
    for loc, starts in decoded.items():
        seen, todo = set(), list(starts)
        while todo:
            c = todo.pop()
            for s_ in nv.succs(c):
                if s_ not in seen and rpo.get(s_, -1) > rpo.get(c, -1) and s_ not in starts:
                    seen.add(s_)
                    todo.append(s_)
        for i in sorted(seen):
            for st in nv.blocks[i]["stmts"]:
                if st["k"] == "assign" and st["lhs"]["l"] == loc and not st["lhs"]["p"]:
                    t = nv.term_of_rvalue(st["rv"])
                    if not any(x[0] in ("param", "var") or (x[0] == "call" and ("read_" in x[1] or x[1] == DCN)) for x in walk(t)):
                        rep.violation(R7, b.name, "texel-replaced",
                                      "after decode_color has produced the texel, `%s` is overwritten with %s on some path: the pixel written at (x, y) is no longer the expansion of its source bits (every channel must stay within one quantisation step of them)" % (
                                          nv.local_name(loc) or "the texel", fmt(t)[:50]), "%s:%s" % (b.file, st.get("line", b.line)))
                        return
    rep.ok(R7, {"texel": "copied as decoded", "decode_sites": sum(len(v) for v in decoded.values())})


def tile_walk(facts, rep, R7):
    """Output position of a decoded pixel as a polynomial over the loop counters, the in-tile coordinates
    and the image width, compared with the 3DS tiled layouts."""
    from binser import poly, fmt_poly, for_loops, enclosing_loops
    # ---- 8x8 Z-order tiles ------------------------------------------------------------------------
    b = facts.body("mila::texture_decoder::decode_rgba_pixel_data")
    if b is None:
        rep.inconc(R7, "tile walk decode_rgba_pixel_data not found")
    else:
        where = "%s:%s" % (b.file, b.line)
        nv = b.named_view()
        loops = [lp for lp in for_loops(nv) if lp["kind"] == "for"]
        # width/height: parameters 2 and 3 of the (data, width, height, format) signature shared with decode_pixel_data
        W, H = ("param", 2, b.local_name(2)), ("param", 3, b.local_name(3))

        def loop_role(atom):
            """TX / TY / P for an atom that is the item of a counted loop."""
            for x in walk(atom):
                if x[0] == "call" and x[1].endswith("::next"):
                    rng = [y for y in walk(x) if y[0] == "agg" and y[2] and y[2].endswith("ops::Range")]
                    if rng:
                        hi = rng[0][4][1]
                        if hi[0] == "const":
                            return "P%d" % hi[1]
                        if hi[0] == "bin" and hi[1] == "Div" and hi[3][0] == "const" and hi[3][1] == 8:
                            return "TX" if strip_refs(hi[2]) == W else ("TY" if strip_refs(hi[2]) == H else "?")
            return None

        def deep(t, depth=0):
            """the term with named single-definition locals expanded (bounded)"""
            if not isinstance(t, tuple) or not t or depth > 6:
                return t
            if t[0] == "local" and len(nv.defs().get(t[1], [])) == 1:
                return deep(nv.definition(t[1]), depth + 1)
            return tuple(deep(x, depth + 1) if isinstance(x, tuple) else x for x in t)

        def tile_derived(t):
            return any(y[0] == "const" and isinstance(y[1], str) and y[1].endswith("TILE_ORDER") for y in walk(deep(t)))

        def is_tile_value(t):
            """t denotes the TILE_ORDER entry of this pixel (an element, possibly widened), not arithmetic on it"""
            t = deep(t)
            while t[0] in ("cast", "ref", "deref") or (t[0] == "call" and t[1].endswith("::from") and len(t[2]) == 1):
                t = t[1] if t[0] != "call" else t[2][0]
            if t[0] == "bin":
                return False
            return tile_derived(t)

        def classify(atom):
            a = atom
            if a == norm(W):
                return "W"
            if a == norm(H):
                return "H"
            r = loop_role(deep(a)) if a[0] == "local" and len(nv.defs().get(a[1], [])) == 1 and not tile_derived(a) else None
            if r:
                return r
            dd = deep(a)
            while dd[0] == "cast":
                dd = dd[1]
            if dd[0] == "bin" and dd[1] in ("Rem", "Div") and dd[3][0] == "const" and tile_derived(dd[2]):
                k = dd[3][1]
                num = dd[2]
                while num[0] == "cast":
                    num = num[1]
                if dd[1] == "Rem" and is_tile_value(num):
                    return "X" if k == 8 else "T%%%d" % k
                if dd[1] == "Div":
                    if is_tile_value(num):
                        return "Y" if k == 8 else "T/%d" % k
                    # (T - T % 8) / 8
                    if num[0] == "bin" and num[1].startswith("Sub") and is_tile_value(num[2]):
                        sub = num[3]
                        while sub[0] == "cast":
                            sub = sub[1]
                        sub = deep(sub)
                        while sub[0] == "cast":
                            sub = sub[1]
                        if sub[0] == "bin" and sub[1] == "Rem" and sub[3][0] == "const" and sub[3][1] == k and is_tile_value(sub[2]):
                            return "Y" if k == 8 else "T/%d" % k
            r = loop_role(a)
            if r:
                return r
            return "?" + fmt(a)[:30]
        target = None
        for bb, t in nv.calls():
            nm = callee_names(t)[1] or ""
            if "ops::IndexMut" in nm and t["args"]:
                rg = nv.term_of_operand(t["args"][1])
                if rg[0] == "agg" and rg[2] and rg[2].endswith("ops::Range") and len(enclosing_loops(loops, bb)) >= 3:
                    target = rg[4][0]
        if target is None:
            rep.inconc(R7, "output slice of the tile walk not found")
        else:
            p = poly(target, nv)
            if p is None:
                rep.inconc(R7, "tile-walk index is not polynomial")
            else:
                got = {}
                for m, c in p.items():
                    key = tuple(sorted(classify(a) for a in m))
                    got[key] = got.get(key, 0) + c
                want = {("X",): 4, ("TX",): 32, ("W", "Y"): 4, ("TY", "W"): 32}
                if got == want:
                    rep.ok(R7, {"fn": b.name, "index": "4*(8*tile_x + x + (8*tile_y + y)*width)"})
                elif any(a.startswith("?") for k in got for a in k):
                    rep.inconc(R7, "tile-walk index has terms that are not recognised: %s" % {"*".join(k) or "1": v for k, v in sorted(got.items())})
                else:
                    rep.violation(R7, b.name, "tile-index", "pixel (x,y) of tile (tile_x,tile_y) is stored at %s; the 8x8 tiled layout puts it at 4*(8*tile_x + x + (8*tile_y + y)*width)" % {"*".join(k) or "1": v for k, v in sorted(got.items())}, where)
    # ---- ETC1: 8x8 tiles of 2x2 blocks of 4x4 pixels -----------------------------------------------
    e = facts.body(ETC)
    if e is None:
        return
    where = "%s:%s" % (e.file, e.line)
    nv = e.named_view()
    loops = [lp for lp in for_loops(nv) if lp["kind"] == "for"]

    def depth_of(lp):
        return len([l2 for l2 in loops if lp["head"] in l2["blocks"]])
    Wp = ("param", 2, e.local_name(2))
    by_depth = sorted(loops, key=depth_of)
    roles = {}
    names = ["TY", "TX", "BY", "BX", "PY", "PX"]
    if len(by_depth) >= 6:
        for nme, lp in zip(names, by_depth[:6]):
            roles[lp.get("next_bb")] = nme

    def classify_e(a):
        if a == norm(Wp):
            return "W"
        term = a
        if a[0] == "local" and len(nv.defs().get(a[1], [])) == 1:
            term = nv.definition(a[1])
        for x in walk(term):
            if x[0] == "call" and x[1].endswith("::next") and len(x) > 3 and x[3] in roles:
                return roles[x[3]]
        # norm() drops block ids: fall back on the raw term of named locals only
        return "?" + fmt(a)[:30]
    tgt = None
    for bb, t in nv.calls():
        nm = callee_names(t)[1] or ""
        if "ops::IndexMut" in nm and t["args"] and len(enclosing_loops(loops, bb)) >= 6:
            ix = nv.term_of_operand(t["args"][1])
            if ix[0] == "local":
                tgt = ix
                break
    if tgt is None or len(roles) != 6:
        rep.inconc(R7, "ETC1 pixel position / six nested loops not recognised")
        return
    # keep block ids: build the polynomial from un-normed atoms by expanding manually
    def poly_raw(t, depth=0):
        from binser import poly as _p
        return _p(t, nv)
    p = poly_raw(tgt)
    if p is None:
        rep.inconc(R7, "ETC1 pixel position is not polynomial")
        return
    got = {}
    for m, c in p.items():
        key = tuple(sorted(classify_named(nv, a, roles, Wp) for a in m))
        got[key] = got.get(key, 0) + c
    want = {("PX",): 4, ("BX",): 16, ("TX",): 32, ("PY", "W"): 4, ("BY", "W"): 16, ("TY", "W"): 32}
    if got == want:
        rep.ok(R7, {"fn": e.name, "index": "4*((8*ty + 4*by + py)*width + 8*tx + 4*bx + px)"})
    else:
        rep.violation(R7, e.name, "etc-index", "ETC1 pixel position is %s; the layout is 4*((8*tile_y + 4*block_y + pixel_y)*width + 8*tile_x + 4*block_x + pixel_x)" % {"*".join(k) or "1": v for k, v in sorted(got.items())}, where)


def classify_named(nv, a, roles, Wp):
    if a == norm(Wp):
        return "W"
    if a[0] == "local":
        ds = nv.defs().get(a[1], [])
        if len(ds) == 1:
            # the loop counter local is defined in the block right after its loop's next() call
            bi = ds[0][0]
            d = nv.definition(a[1])
            for x in walk(d):
                if x[0] == "call" and x[1].endswith("::next") and len(x) > 3 and x[3] in roles:
                    return roles[x[3]]
    return "?" + fmt(a)[:30]


def etc_selection(facts, rep, R5):
    """Which sub-block a pixel of a 4x4 ETC1 block takes its base colour and its modifier table from, how the
    modifier is signed, and how the sum is clamped -- read off the *paths* of one iteration of the innermost
    pixel loop (layout independent: nested ifs, a hoisted boolean, tuples, helper functions all give the same
    table of (flip, x<2, y<2) -> (table, colour))."""
    b = facts.body(ETC)
    if b is None:
        rep.inconc(R5, "etc1::decode not found")
        return
    where = "%s:%s" % (b.file, b.line)
    from binser import for_loops
    loops = [lp for lp in for_loops(b) if lp["kind"] == "for"]
    if not loops:
        rep.inconc(R5, "no pixel loops found in etc1::decode")
        return
    depth = lambda lp: len([l2 for l2 in loops if lp["head"] in l2["blocks"]])
    inner = max(loops, key=depth)
    outer = [lp for lp in loops if inner["head"] in lp["blocks"] and lp is not inner]
    outer_y = max(outer, key=depth) if outer else None
    # the Some arm of the inner loop's next()
    nb = inner["next_bb"]
    sw = b.blocks[nb]["term"]["t"]
    swt = b.blocks[sw]["term"]
    if swt["k"] != "switch":
        rep.inconc(R5, "inner pixel loop: no switch after next()")
        return
    some = [tb for v, tb in swt["targets"] if v == 1]
    if not some:
        rep.inconc(R5, "inner pixel loop: Some arm not found")
        return
    env0 = {b.blocks[nb]["term"]["dest"]["l"]: ("call", "ETC::next_x", (), nb, "ETC::next_x")}
    try:
        paths = enum_paths(b, start=some[0], env0=env0, max_paths=3000)
    except PathLimit:
        rep.inconc(R5, "inner pixel loop has too many paths")
        return
    T1, T2 = ETC_OFFSETS["ETC_TABLE1_OFFSET"], ETC_OFFSETS["ETC_TABLE2_OFFSET"]
    C1 = {ETC_OFFSETS[k] for k in ETC_OFFSETS if "1_OFFSET" in k and "TABLE" not in k}
    C2 = {ETC_OFFSETS[k] for k in ETC_OFFSETS if "2_OFFSET" in k and "TABLE" not in k}
    FLIP = ETC_OFFSETS["ETC_ORIENTATION_BIT"]

    def expand(t, depth=0):
        """replace out-of-loop single-definition variables by their definitions"""
        if not isinstance(t, tuple) or not t or depth > 12:
            return t
        if t[0] == "var" and len(b.defs().get(t[1], [])) == 1 and not b.partial_writes().get(t[1]):
            d = b.term_of_local(t[1])
            return d if d[0] == "var" else expand(d, depth + 1)
        return tuple(expand(x, depth + 1) if isinstance(x, tuple) else x for x in t)

    def consts(t):
        return set(x[1] for x in walk(t) if x[0] == "const" and isinstance(x[1], int) and not isinstance(x[1], bool))

    foot_cache = {}
    nvw = b.named_view()

    def footprint(l, proj=None, depth=0):
        """ETC colour offsets the contents of colour container `l` are computed from."""
        key = (l, proj)
        if key in foot_cache:
            return foot_cache[key]
        foot_cache[key] = set()
        out = set()
        for (bi, si, kind, payload) in b.defs().get(l, []):
            if kind != "assign":
                out |= consts(expand(b.term_of_call(payload, bi)))
                continue
            rv = payload["rv"]
            if rv["k"] == "agg" and proj is not None and proj < len(rv["fields"]):
                out |= opfoot(rv["fields"][proj], depth)
            elif rv["k"] == "agg":
                for f in rv["fields"]:
                    out |= opfoot(f, depth)
            elif rv["k"] in ("use", "ref"):
                pl = rv.get("place") or rv["a"].get("c") or rv["a"].get("m")
                if pl is None:
                    continue
                out |= placefoot(pl, depth)
            else:
                out |= consts(expand(b.term_of_rvalue(rv)))
        for (bi, si, st) in b.partial_writes().get(l, []):
            if isinstance(st, dict) and st.get("k") == "assign":
                out |= consts(expand(b.term_of_rvalue(st["rv"])))
        # element stores through index_mut(&mut l, i)
        for bi, si, st in b.stmts():
            if st["k"] == "assign" and st["lhs"]["p"] == ["deref"]:
                tt = nvw.term_of_local(st["lhs"]["l"])
                if tt[0] == "call" and tt[1].endswith("index_mut") and tt[2]:
                    r = strip_refs(tt[2][0])
                    if r[0] in ("var", "local") and r[1] == l:
                        out |= consts(expand(b.term_of_rvalue(st["rv"])))
        foot_cache[key] = out
        return out

    def placefoot(pl, depth):
        if depth > 6:
            return set()
        pr = [e for e in pl["p"] if e != "deref"]
        if not pr:
            return footprint(pl["l"], None, depth + 1)
        if len(pr) == 1 and isinstance(pr[0], dict) and "f" in pr[0]:
            return footprint(pl["l"], pr[0]["f"], depth + 1)
        return footprint(pl["l"], None, depth + 1)

    def opfoot(op, depth):
        pl = op.get("c") or op.get("m")
        if pl is None:
            return set()
        return placefoot(pl, depth)

    def colour_id(t):
        """1 / 2 for a term denoting one of the two base-colour containers."""
        t = strip_refs(t)
        while t[0] in ("call",) and t[2] and t[1].rsplit("::", 1)[-1] in ("deref", "index", "as_slice", "borrow", "as_ref"):
            t = strip_refs(t[2][0])
        if t[0] == "var":
            f = footprint(t[1])
        elif t[0] == "field" and strip_refs(t[1])[0] == "var":
            f = footprint(strip_refs(t[1])[1], t[3])
        else:
            f = consts(expand(t))
        if f & C2:
            return 2
        if f & C1:
            return 1
        return None

    def table_id(t):
        ks = consts(expand(t)) & {T1, T2}
        if ks == {T1}:
            return 1
        if ks == {T2}:
            return 2
        return None

    def coord(t):
        t = expand(strip_refs(t))
        names = set()
        for x in walk(t):
            if x[0] == "call" and x[1] == "ETC::next_x":
                names.add("x")
            elif x[0] == "call" and x[1].endswith("::next") and len(x) > 3 and outer_y is not None and x[3] == outer_y.get("next_bb"):
                names.add("y")
            elif x[0] == "var" and outer_y is not None:
                # the y counter is assigned once per outer iteration from next()'s payload
                for (bi, si, kind, payload) in b.defs().get(x[1], []):
                    if kind == "assign":
                        d = b.term_of_rvalue(payload["rv"])
                        if any(y[0] == "call" and y[1].endswith("::next") and len(y) > 3 and y[3] == outer_y.get("next_bb") for y in walk(d)):
                            names.add("y")
        return names

    def classify_cond(term):
        """('flip'|'x<2'|'y<2'|'sign'|'bounds'|None, polarity flip)"""
        t = expand(term)
        while t[0] == "cast":
            t = t[1]
        if t[0] == "bin" and t[1] in ("Lt", "Ge", "Le", "Gt") and t[3][0] == "const" and isinstance(t[3][1], int):
            cs = coord(t[2])
            k = t[3][1]
            if len(cs) == 1 and not any(x[0] == "bin" and x[1].startswith(("Add", "Mul")) for x in walk(expand(strip_refs(t[2])))):
                c = next(iter(cs))
                if (t[1], k) == ("Lt", 2):
                    return (c + "<2", False)
                if (t[1], k) == ("Ge", 2):
                    return (c + "<2", True)
                if (t[1], k) == ("Le", 1):
                    return (c + "<2", False)
                if (t[1], k) == ("Gt", 1):
                    return (c + "<2", True)
                return ("other", False)
        ks = consts(t)
        shr = [x for x in walk(t) if x[0] == "bin" and x[1] == "Shr"]
        if FLIP in ks and shr and not coord(t):
            # (pixels >> 32) & 1 == 1  /  != 0
            if t[0] == "bin" and t[1] in ("Eq", "Ne") and t[3][0] == "const":
                pos = (t[1] == "Eq") == (t[3][1] == 1)
                return ("flip", not pos)
            return ("flip?", False)
        if shr and 16 in ks and coord(t):
            if t[0] == "bin" and t[1] in ("Eq", "Ne") and t[3][0] == "const":
                pos = (t[1] == "Eq") == (t[3][1] == 1)
                return ("sign", not pos)
            return ("sign?", False)
        return (None, False)

    rows = {}
    unknown = []
    n_iter = 0
    for p in paths:
        if p.end != "loop" or not (set(p.blocks) <= set(inner["blocks"])):
            continue
        stores = []
        for e in p.events:
            if e["k"] != "write":
                continue
            pl = e["place"]
            if pl[0] == "deref" and pl[1][0] == "call" and pl[1][1].endswith("index_mut"):
                stores.append((pl[1][2][1] if len(pl[1][2]) > 1 else None, e["val"]))
            elif pl[0] == "index":
                stores.append((pl[2], e["val"]))
        if len(stores) < 4:
            continue          # the `continue` path of out-of-image pixels
        n_iter += 1
        d = {}
        for (bb, term, vals, neg, dty) in p.conds:
            kind, flipped = classify_cond(term)
            if kind is None or kind == "other":
                continue
            if kind.endswith("?"):
                unknown.append("condition on %s not decoded: %s" % (kind[:-1], fmt(term)[:60]))
                continue
            # truth of the tested term on this arm
            if dty == "bool":
                truth = (vals == (0,) and neg) or (vals == (1,) and not neg)
            else:
                continue
            d[kind] = truth != flipped
        # the three colour channels: first three stores in address order
        for (addr, val) in stores[:3]:
            v = val
            while v[0] == "cast":
                v = v[1]
            tids = set()
            cids = set()
            negs = 0
            for x in walk(v):
                if x[0] == "call" and x[1].rsplit("::", 1)[-1] == "index" and x[2]:
                    ti = table_id(x)
                    if ti:
                        tids.add(ti)
                    else:
                        ci = colour_id(x[2][0])
                        if ci:
                            cids.add(ci)
                elif x[0] == "index":
                    ci = colour_id(x[1])
                    if ci:
                        cids.add(ci)
                if x[0] == "un" and x[1] == "Neg":
                    negs += 1
            key = (d.get("flip"), d.get("x<2"), d.get("y<2"), d.get("sign"))
            rows.setdefault(key, set()).add((tuple(sorted(tids)), tuple(sorted(cids)), negs))
    if unknown:
        rep.inconc(R5, unknown[0])
        return
    if n_iter == 0 or not rows:
        rep.inconc(R5, "no complete pixel iteration found among %d path(s)" % len(paths))
        return
    bad_sel, bad_agree, bad_sign, undecided = [], [], [], []
    for (flip, xl, yl, sign), vals in sorted(rows.items(), key=str):
        for (tids, cids, negs) in vals:
            if len(tids) != 1 or len(cids) != 1:
                undecided.append(((flip, xl, yl), tids, cids))
                continue
            if tids[0] != cids[0]:
                bad_agree.append(((flip, xl, yl), tids[0], cids[0]))
            if flip is None:
                undecided.append(((flip, xl, yl), tids, cids))
                continue
            dec = yl if flip else xl
            if dec is None:
                undecided.append(((flip, xl, yl), tids, cids))
                continue
            want = 1 if dec else 2
            if tids[0] != want:
                bad_sel.append(((flip, xl, yl), tids[0], want))
            if sign is None:
                undecided.append(("sign", negs))
            elif (negs > 0) != bool(sign):
                bad_sign.append((sign, negs))
    if bad_agree:
        rep.violation(R5, b.name, "selection", "modifier table and base colour come from different sub-blocks for (flip, x<2, y<2) = %s: table %s, colour %s" % bad_agree[0], where)
    elif bad_sel:
        rep.violation(R5, b.name, "halves", "sub-block split does not follow the ETC1 flip rule: (flip, x<2, y<2) = %s picks sub-block %s, specified %s" % bad_sel[0], where)
    elif undecided:
        rep.inconc(R5, "sub-block selection not decided on some path: %s" % (undecided[0],))
        return
    else:
        rep.ok(R5, {"selection_rows": sorted(str(k[:3]) for k in rows), "table_and_colour_agree": True})
        rep.ok(R5, {"rule": "flip set: rows 0-1 -> sub-block 1; flip clear: columns 0-1 -> sub-block 1"})
    if bad_sign:
        rep.violation(R5, b.name, "clamp", "modifier sign: sign bit %s gives %d negation(s) (specified: negated exactly when the bit is 1)" % bad_sign[0], where)
        return
    # clamp to [0,255]
    neg = any(s["k"] == "assign" and s["rv"]["k"] == "un" and s["rv"]["op"] == "Neg" for bi, si, s in b.stmts())
    # every clamping call in the body, as (lo, hi) bounds on an i32 value: min(c) caps, max(c) floors, clamp(lo, hi) both
    lo_b, hi_b, odd = [], [], []
    for bb, t in b.calls():
        nm = (callee_names(t)[1] or callee_names(t)[0] or "")
        last = nm.rsplit("::", 1)[-1]
        if not (nm.endswith("Ord::min") or nm.endswith("Ord::max") or nm.endswith("Ord::clamp")) and last not in ("min", "max", "clamp"):
            continue
        if b.local_ty(t["dest"]["l"]) != "i32" or t["dest"]["p"]:
            continue
        a = [b.term_of_operand(x) for x in t["args"]]
        ks = [x[1] if x[0] == "const" and isinstance(x[1], int) else None for x in a[1:]]
        if last == "min" and len(ks) == 1:
            (hi_b if ks[0] is not None else odd).append(ks[0])
        elif last == "max" and len(ks) == 1:
            (lo_b if ks[0] is not None else odd).append(ks[0])
        elif last == "clamp" and len(ks) == 2:
            if None in ks:
                odd.append(None)
            else:
                lo_b.append(ks[0])
                hi_b.append(ks[1])
    if neg and len(lo_b) >= 3 and len(hi_b) >= 3 and not odd and all(m == 255 for m in hi_b) and all(m == 0 for m in lo_b):
        rep.ok(R5, {"modifier": "negated on the sign bit; result clamped to [0, 255]"})
    elif odd or (not lo_b and not hi_b and any(t["k"] == "switch" for t in (blk["term"] for blk in b.blocks)) and neg and not any(
            s["k"] == "assign" and s["rv"]["k"] == "cast" and s["rv"].get("ty") == "u8" and s["rv"].get("from") == "i32" and
            b.term_of_operand(s["rv"]["a"])[0] in ("field", "bin") for bi, si, s in b.stmts())):
        rep.inconc(R5, "clamping of colour + modifier not recognised (lower %s upper %s)" % (lo_b, hi_b))
    else:
        rep.violation(R5, b.name, "clamp", "colour + modifier is not (negated by sign, clamped to 0..255): negated=%s lower bounds=%s upper bounds=%s" % (neg, lo_b, hi_b), where)


def coord_name(b, t):
    """'x' for the innermost 0..4 pixel loop counter, 'y' for the one enclosing it."""
    from binser import for_loops
    t = strip_refs(t)
    loops = [lp for lp in for_loops(b) if lp["kind"] == "for"]
    for x in walk(t):
        if x[0] == "call" and x[1].endswith("::next") and len(x) > 3:
            inner = [lp for lp in loops if lp.get("next_bb") == x[3]]
            if inner:
                depth = len([lp for lp in loops if inner[0]["head"] in lp["blocks"]])
                mx = max(len([l2 for l2 in loops if lp["head"] in l2["blocks"]]) for lp in loops)
                return "x" if depth == mx else "y"
    if t[0] == "var":
        nm = b.local_name(t[1]) or ""
        return "x" if nm.endswith("x") else ("y" if nm.endswith("y") else nm)
    return "?"


def which(b, src):
    """1 or 2: which of the two sub-block values a selection branch picks (by definition order)."""
    src = strip_refs(src)
    if src[0] == "var" or src[0] == "local":
        return None
    key = fmt(norm(src))
    # table1/table2 are Index results with different index operands; color1/color2 different vec allocations
    return key


# `which` above returns a textual identity; map the two distinct identities to 1/2 by first appearance
_orig_which = which


def which(b, src, _seen={}):
    k = (b.id, _orig_which(b, src))
    grp = _seen.setdefault((b.id, type(src)), [])
    if k[1] not in grp:
        grp.append(k[1])
    return grp.index(k[1]) % 2 + 1
