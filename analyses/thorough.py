"""Thorough tier: (1) compile-fail witnesses, (2) second cfg profile (overflow checks off) site comparison,
(3) seeded-fault self-tests: every rule must fire on a scratch copy with one instance broken and stay
silent on behaviour-preserving rewrites.  Nothing here executes mila code."""
import concurrent.futures
import importlib
import json
import os
import shutil
import tempfile

import extract
import mir
from common import Report, Inconclusive

VERIF = os.path.dirname(os.path.dirname(os.path.abspath(__file__)))


def load_selftests(pid):
    d = os.path.join(VERIF, "selftest", pid + ".json")
    if not os.path.exists(d):
        return []
    return json.load(open(d))


def run_one(pid, repo, st):
    """Apply one textual edit to a scratch copy and run the property's rules on it."""
    tmp = tempfile.mkdtemp(prefix="mila-st-")
    try:
        shutil.copytree(os.path.join(repo, "src"), os.path.join(tmp, "src"))
        for f in ("Cargo.toml", "Cargo.lock"):
            shutil.copy(os.path.join(repo, f), os.path.join(tmp, f))
        for ed in st["edits"]:
            p = os.path.join(tmp, ed["file"])
            s = open(p).read()
            if s.count(ed["old"]) < 1:
                return {"name": st["name"], "status": "not-applicable", "why": "pattern not found in %s (the code has changed)" % ed["file"]}
            s = s.replace(ed["old"], ed["new"], 1)
            open(p, "w").write(s)
        try:
            paths = extract.extract(tmp, "dev")
        except extract.ExtractError as e:
            return {"name": st["name"], "status": "not-applicable", "why": "variant does not compile: " + str(e)[-200:]}
        facts = mir.Facts(paths["mila"])
        rep = Report(pid)
        mod = importlib.import_module(pid.lower())
        try:
            mod.run(facts, rep, {"tier": "quick", "seed": 0, "repo": tmp, "verif": VERIF, "facts": facts, "verbose": False})
            rep.finish_floors()
        except Inconclusive as e:
            rep.inconc(e.rule, e.reason)
        known = json.load(open(os.path.join(VERIF, "known_findings.json")))
        kk = set(k["key"] for k in known.get("known", []))
        keys = [v["key"] for v in rep.violations if v["key"] not in kk]
        want = st.get("expect", "violation")
        if want == "violation":
            hit = [k for k in keys if k.startswith(st.get("rule", ""))]
            ok = bool(hit)
            return {"name": st["name"], "status": "fired" if ok else "MISSED", "keys": keys[:4], "inconclusive": [i["rule"] for i in rep.inconclusive][:3]}
        ok = not keys and not rep.inconclusive
        return {"name": st["name"], "status": "silent" if ok else "FALSE-ALARM", "keys": keys[:4], "inconclusive": [i["reason"][:80] for i in rep.inconclusive][:3]}
    finally:
        shutil.rmtree(tmp, ignore_errors=True)


def selftests(pid, repo, seed=0):
    sts = load_selftests(pid)
    if seed:
        import random
        random.Random(seed).shuffle(sts)
    res = []
    with concurrent.futures.ProcessPoolExecutor(max_workers=max(2, min(16, os.cpu_count() or 4))) as ex:
        futs = [ex.submit(run_one, pid, repo, st) for st in sts]
        for f in futs:
            try:
                res.append(f.result())
            except Exception as e:  # never a verdict
                res.append({"name": "?", "status": "error", "why": str(e)[:200]})
    return res


def _run_patch(pid, repo, patch):
    """(status, violation keys, inconclusive reasons) of pid's rules on a scratch copy with `patch` applied."""
    import subprocess
    tmp = tempfile.mkdtemp(prefix="mila-cp-")
    try:
        shutil.copytree(os.path.join(repo, "src"), os.path.join(tmp, "src"))
        for f in ("Cargo.toml", "Cargo.lock"):
            shutil.copy(os.path.join(repo, f), os.path.join(tmp, f))
        r = subprocess.run(["patch", "-p1", "-s", "-d", tmp, "-i", patch], stdout=subprocess.PIPE, stderr=subprocess.STDOUT)
        if r.returncode != 0:
            return "not-applicable", [], ["patch does not apply (the code has changed)"]
        try:
            paths = extract.extract(tmp, "dev")
        except extract.ExtractError as e:
            return "not-applicable", [], ["variant does not compile"]
        facts = mir.Facts(paths["mila"])
        rep = Report(pid)
        mod = importlib.import_module(pid.lower())
        try:
            mod.run(facts, rep, {"tier": "quick", "seed": 0, "repo": tmp, "verif": VERIF, "facts": facts, "verbose": False})
            rep.finish_floors()
        except Inconclusive as e:
            rep.inconc(e.rule, e.reason)
        except Exception as e:
            rep.inconc("internal", str(e)[:200])
        known = json.load(open(os.path.join(VERIF, "known_findings.json")))
        kk = set(k["key"] for k in known.get("known", []))
        keys = [v["key"] for v in rep.violations if v["key"] not in kk]
        return "ran", keys, [i["reason"][:100] for i in rep.inconclusive]
    finally:
        shutil.rmtree(tmp, ignore_errors=True)


def corpus(pid, repo):
    """The stored independent changes: every behaviour-preserving refactoring (refactors/*) must not raise a
    violation of `pid`; every seeded defect of `pid` (seeded/<pid>-*) must."""
    jobs = []
    rdir = os.path.join(VERIF, "refactors")
    for n in sorted(os.listdir(rdir)) if os.path.isdir(rdir) else []:
        jobs.append(("refactor", n, os.path.join(rdir, n, "patch.diff")))
    sdir = os.path.join(VERIF, "seeded")
    for n in sorted(os.listdir(sdir)) if os.path.isdir(sdir) else []:
        # a seed belongs to the property it breaks: normally the one in its name; meta.json's "breaks" overrides it
        # when the change its author produced turned out to violate a neighbouring property instead
        owner = n.split("-")[0]
        try:
            owner = json.load(open(os.path.join(sdir, n, "meta.json"))).get("breaks", owner)
        except Exception:
            pass
        if owner == pid:
            jobs.append(("seed", n, os.path.join(sdir, n, "patch.diff")))
    out = []
    workers = max(2, min(16, (os.cpu_count() or 4)))
    try:
        with concurrent.futures.ProcessPoolExecutor(max_workers=workers) as ex:
            for r in ex.map(_corpus_job, [(pid, repo) + j for j in jobs], chunksize=2):
                out.append(r)
    except (OSError, concurrent.futures.process.BrokenProcessPool):
        out = [_corpus_job((pid, repo) + j) for j in jobs]
    return out


def _corpus_job(job):
    pid, repo, kind, name, patch = job
    try:
        st, keys, inc = _run_patch(pid, repo, patch)
    except Exception as e:       # never a verdict
        return {"kind": kind, "name": name, "status": "not-applicable", "why": [str(e)[:120]]}
    if st != "ran":
        return {"kind": kind, "name": name, "status": st, "why": inc[:1]}
    if kind == "refactor":
        return {"kind": kind, "name": name, "status": "FALSE-ALARM" if keys else ("undecided" if inc else "silent"), "keys": keys[:3], "inconclusive": inc[:2]}
    if not keys:
        # a confirmed defect this check is documented not to decide (DESIGN 9.15): recorded in the evidence as an
        # open blind spot of the check, with its reason; it becomes "fired" the day a rule reaches it
        try:
            why = json.load(open(os.path.join(os.path.dirname(patch), "meta.json"))).get("open")
        except Exception:
            why = None
        if why:
            return {"kind": kind, "name": name, "status": "open", "why": [why], "inconclusive": inc[:2]}
    return {"kind": kind, "name": name, "status": "fired" if keys else "MISSED", "keys": keys[:3], "inconclusive": inc[:2]}


def profile_compare(repo):
    """Non-arithmetic panic sites and calls must be identical with overflow checks off: no code path
    depends on cfg(debug_assertions)."""
    a = mir.Facts(extract.extract(repo, "dev")["mila"])
    b = mir.Facts(extract.extract(repo, "nochecks")["mila"])

    def sig(F):
        out = {}
        for body in F.bodies.values():
            calls = sorted((mir.callee_names(t)[1] or mir.callee_names(t)[0] or "?") for bb, t in body.calls())
            asserts = sorted(t["msg"]["kind"] for bb, t in body.asserts() if t["msg"]["kind"] not in ("Overflow", "OverflowNeg", "Misaligned", "NullPtr"))
            out[body.name] = (calls, asserts)
        return out
    sa, sb = sig(a), sig(b)
    diff = [n for n in sa if sa[n] != sb.get(n)] + [n for n in sb if n not in sa]
    ov_a = sum(1 for body in a.bodies.values() for bb, t in body.asserts() if t["msg"]["kind"] == "Overflow")
    ov_b = sum(1 for body in b.bodies.values() for bb, t in body.asserts() if t["msg"]["kind"] == "Overflow")
    return {"bodies": len(sa), "bodies_differing": diff[:10], "overflow_asserts_checked": ov_a, "overflow_asserts_unchecked": ov_b}
