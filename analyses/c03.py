"""C03 — allocate / deallocate / truncate relocate every annotation consistently."""
import re
from mir import fmt, strip_refs, callee_names, walk
from flow import enum_paths, PathLimit
from summ import Evaluator, Ref, Adt, Unknown, Panic, MapVal, SeqVal, Closure, deref
from c04 import mutation_events, is_err_term, root_field, final_outcomes, ARCHIVE, MAX

EXPLANATION = ("Per-annotation decision tables of the element-wise relocation/filter transforms that allocate, "
               "deallocate and truncate apply to each address-bearing field of BinArchive (extracted from the MIR "
               "of the map-rebuild pipelines and closures), evaluated at every ordering class of the element "
               "address relative to the edited range; field coverage; validation-before-mutation; validation "
               "predicate tables; the data edit's range.")
ASSUMPTIONS = ["histories compose per-operation tables (each operation is decided for all states)",
               "HashMap/Vec iterator adaptors (iter/map/filter/collect/retain/splice/drain/truncate) behave element-wise as documented"]


def address_fields(facts):
    a = facts.adts.get(ARCHIVE)
    if not a:
        return None
    out = []
    for f in a["variants"][0]["fields"]:
        if "usize" in f["ty"]:
            out.append((f["name"], f["ty"]))
    return out


def field_kind(ty):
    """How addresses occur in a field type: ('key',), ('key','value') or ('elems',)"""
    m = re.match(r"std::collections::HashMap<(.*?), (.*)>$", ty)
    if not m:
        return None
    k, v = m.group(1), m.group(2)
    if k == "usize" and v == "usize":
        return "key+value"
    if k == "usize":
        return "key"
    if "usize" in v:
        return "value-elems"
    return None


def self_value(field_values, size):
    d = {"data": {"len": size}}
    d.update(field_values)
    return Ref(d)


def rep_map(kind, x, y=None):
    if kind == "key":
        return MapVal(((x, Adt("opaque", "V")),))
    if kind == "key+value":
        return MapVal(((x, y),))
    if kind == "value-elems":
        # a bucket with the cell under test and a second, far-away cell of the same string
        return MapVal(((Adt("opaque", "S"), SeqVal((x, FAR))),))
    raise AssertionError(kind)


FAR = 0  # a cell in front of every edited range: never shifted, never dropped


def read_result(kind, m):
    """Normalise the resulting map to None (dropped) or the new address(es)."""
    m = deref(m)
    if isinstance(m, SeqVal) and not m.items:
        return "far-cell-lost" if kind == "value-elems" else None  # an empty collection
    if not isinstance(m, MapVal):
        raise Unknown("result is not a map: %r" % (m,))
    if not m.pairs:
        return "far-cell-lost" if kind == "value-elems" else None
    if len(m.pairs) != 1:
        raise Unknown("element-wise transform changed the number of entries")
    k, v = m.pairs[0]
    k, v = deref(k), deref(v)
    if kind == "key":
        return k
    if kind == "key+value":
        return (k, v)
    if kind == "value-elems":
        if not isinstance(v, SeqVal):
            raise Unknown("bucket is not a sequence")
        items = [deref(i) for i in v.items]
        if FAR not in items:
            return "far-cell-lost"
        items.remove(FAR)
        if not items:
            return None
        if len(items) != 1:
            return "bucket-grew"
        return items[0]


def spec_shift_ge(x, a):          # text keys, pointer sources, c-string cells
    return x >= a


def spec_shift_gt(x, a, ge):      # label keys, pointer targets
    return x > a or (x == a and ge)


def spec_allocate(kind, x, y, a, n, ge, fname):
    if kind == "key":
        if fname_is_label(fname):
            return x + n if spec_shift_gt(x, a, ge) else x
        return x + n if spec_shift_ge(x, a) else x
    if kind == "value-elems":
        return x + n if spec_shift_ge(x, a) else x
    if kind == "key+value":
        return (x + n if spec_shift_ge(x, a) else x, y + n if spec_shift_gt(y, a, ge) else y)


def spec_deallocate(kind, x, y, a, n, ge, fname):
    inr = lambda v: a <= v < a + n
    if kind in ("key", "value-elems"):
        if inr(x):
            return None
        if kind == "key" and fname_is_label(fname):
            return x - n if spec_shift_gt(x, a, ge) else x
        return x - n if spec_shift_ge(x, a) else x
    if kind == "key+value":
        if inr(x) or inr(y):
            return None
        return (x - n if spec_shift_ge(x, a) else x, y - n if spec_shift_gt(y, a, ge) else y)


_LABEL_FIELDS = set()


def fname_is_label(f):
    return f in _LABEL_FIELDS


def ordered_search_rule(facts, rep, R1):
    """The cells and names kept in the annotation maps are in registration order (`write_c_string` / `write_label`
    push), not sorted: a `partition_point` / `binary_search*` over such a list in the relocation code finds the
    removed window only when the caller happened to register the cells in ascending order."""
    roots = [b.id for b in (facts.raw_body("%s::%s" % (ARCHIVE, op)) for op in ("allocate", "deallocate", "truncate")) if b is not None]
    ids, _ext = facts.reachable_from(roots)
    for i in sorted(ids):
        b = facts.bodies[i]
        sorts = any((callee_names(t)[1] or "").rsplit("::", 1)[-1].startswith("sort") for bb, t in b.calls())
        for bb, t in b.calls():
            nm = callee_names(t)[1] or callee_names(t)[0] or ""
            sh = nm.rsplit("::", 1)[-1]
            if sh in ("partition_point", "binary_search", "binary_search_by", "binary_search_by_key") and "slice" in nm and not sorts:
                recv_ty = b.local_ty((t["args"][0].get("m") or t["args"][0].get("c") or {"l": 0})["l"]) if t["args"] else ""
                if "usize" in recv_ty or "String" in recv_ty:
                    rep.violation(R1, b.name, "ordered-search:" + sh, "%s looks for the affected cells with %s over a list that is kept in registration order (nothing sorts it): cells registered out of ascending order are missed or wrongly dropped" % (
                        b.name.rsplit("::", 2)[-1] if "closure" not in b.name else b.name.rsplit("::", 2)[-2], sh), "%s:%s" % (b.file, t["line"]))


def run(facts, rep, ctx):
    E = Evaluator(facts)
    fields = address_fields(facts)
    R1 = rep.rule("R03.1", "decision tables: per field and operation the element transform equals the specified shift/drop table at every ordering class", floor=8)
    R2 = rep.rule("R03.2", "field coverage: every address-bearing field of BinArchive is rewritten by allocate, deallocate and truncate", floor=12)
    R3 = rep.rule("R03.3", "validation precedes mutation: no field of self is touched on any error path", floor=2)
    R4 = rep.rule("R03.4", "validation predicate tables (range, alignment, no overflow near usize::MAX)", floor=2)
    R5 = rep.rule("R03.5", "truncate keeps exactly the annotations located before the cut", floor=4)
    R6 = rep.rule("R03.6", "the data edit inserts n zero bytes at a / removes exactly [a, a+n) / cuts at a", floor=3)
    R7 = rep.rule("R03.7", "append (allocate_at_end) and the writer-side dispatch", floor=2)
    if not fields:
        rep.inconc(R2, "BinArchive ADT not found")
        return
    # which address field holds labels: the one whose value type is a list of names (Vec<String>) keyed by usize
    _LABEL_FIELDS.clear()
    for name, ty in fields:
        if re.match(r"std::collections::HashMap<usize, std::vec::Vec<std::string::String>>$", ty):
            _LABEL_FIELDS.add(name)
    kinds = {name: field_kind(ty) for name, ty in fields}
    for name, k in kinds.items():
        if k is None:
            rep.inconc(R2, "field %s has an address-bearing type %s this rule has no element model for" % (name, dict(fields)[name]))

    ordered_search_rule(facts, rep, R1)
    ops = {}
    for op in ("allocate", "deallocate", "truncate"):
        b = facts.body("%s::%s" % (ARCHIVE, op))
        if b is None or not b.pub:
            rep.inconc(R2, "anchor BinArchive::%s missing" % op)
            continue
        try:
            ops[op] = (b, enum_paths(b))
        except PathLimit:
            rep.inconc(R1, "BinArchive::%s has too many paths" % op)

    # ---- R03.2 / R03.3 --------------------------------------------------------------------
    for op, (b, paths) in ops.items():
        okp = [p for p in paths if is_err_term(p.ret) is False and p.end == "ret"]
        errp = [p for p in paths if is_err_term(p.ret) is True]
        if not okp:
            rep.inconc(R2, "%s: no success path recognised" % op)
            continue
        # the success path that does the work is the one with most events
        work = max(okp, key=lambda p: len(p.events))
        touched = set()
        for p in paths:
            if is_err_term(p.ret) is True:
                continue
            touched |= set(f for k, f, via in mutation_events(p))
        for name, ty in fields:
            if name in touched:
                rep.ok(R2, {"op": op, "field": name})
            else:
                rep.violation(R2, b.name, "field:" + name, "%s never rewrites field `%s` (%s): annotations stored there are not relocated/dropped" % (op, name, ty), "%s:%s" % (b.file, b.line))
        # ... and on *each* success path: one that changes the data (itself, or by handing `&mut self` to another
        # method that does) must rewrite every annotation field too
        for p in okp:
            mine = set(f for k, f, via in mutation_events(p))
            via_self = []
            for e in p.events:
                if e["k"] == "call" and e["callee"] and e["callee"].startswith(ARCHIVE + "::") and e["args"]:
                    a0 = e["args"][0]
                    if a0[0] == "ref" and a0[2] and strip_refs(a0)[0] == "param" and strip_refs(a0)[1] == 1:
                        cb = facts.body(e["callee"])
                        if cb is not None:
                            sub = set()
                            try:
                                for p2 in enum_paths(cb, max_paths=500):
                                    sub |= set(f for k, f, via in mutation_events(p2))
                            except PathLimit:
                                sub = {"?"}
                            if not sub:
                                # flow-insensitive fallback (bodies with loops): any `&mut self.field` handed to a call
                                for bb_, t_ in cb.calls():
                                    for a_ in t_["args"]:
                                        r_, f_, v_ = root_field(cb.term_of_operand(a_), False)
                                        if r_:
                                            sub.add(f_)
                            mine |= sub
                            via_self.append(e["callee"].rsplit("::", 1)[-1])
            if "data" in mine and "?" not in mine:
                missing = [name for name, ty in fields if name not in mine and kinds.get(name) is not None]
                tests_flag = op == "allocate" and any(any(x[0] == "param" and x[1] == 4 for x in walk(c_[1])) for c_ in p.conds)
                if missing and tests_flag:
                    # e.g. an append fast path for `address == size && !inclusive`, where nothing can need moving
                    rep.inconc(R2, "%s has a success path selected by the inclusive-shift flag that changes the data without rewriting %s; whether anything could need relocation there is not decided" % (op, ", ".join(missing)))
                elif missing:
                    rep.violation(R2, b.name, "path-skips:" + ",".join(missing),
                                  "%s has a success path that changes the data%s but leaves %s as they were: annotations at or after the edit are not relocated on that path" % (
                                      op, (" (through %s)" % ", ".join(via_self)) if via_self else "", ", ".join("`%s`" % m_ for m_ in missing)),
                                  "%s:%s" % (b.file, b.line))
                else:
                    rep.ok(R2, {"op": op, "path": "data edit with all annotation fields rewritten"})
        if op != "truncate":
            bad = None
            for p in errp:
                m = mutation_events(p)
                if m:
                    bad = m[0]
            if not errp:
                rep.inconc(R3, "%s: no error path found (validation removed?)" % op)
            elif bad:
                rep.violation(R3, b.name, "mutation-before-validation", "%s mutates field `%s` (%s) on a path that returns an error" % (op, bad[1], bad[0]), "%s:%s" % (b.file, b.line))
            else:
                rep.ok(R3, {"op": op, "error_paths": len(errp)})

    # ---- R03.4 validation tables ------------------------------------------------------------
    for op in ("allocate", "deallocate"):
        if op not in ops:
            continue
        b, paths = ops[op]
        bad = []
        undecided = set()
        rows = 0
        for S in (0, 4, 8, 12):
            for a in (0, 1, 2, 4, 5, 8, 9, 12, 13, 16, MAX - 3, MAX):
                for n in (0, 1, 3, 4, 8, 12, 16, MAX - 3, MAX - 7, MAX):
                    for ge in (False, True):
                        if op == "allocate":
                            valid = a <= S and a % 4 == 0 and n % 4 == 0
                        else:
                            valid = a < S and a + n <= S and a % 4 == 0 and n % 4 == 0
                        sv = self_value({f: MapVal(()) for f, _ in fields}, S)
                        try:
                            outs = final_outcomes(E, facts, b, [sv, a, n, ge])
                        except Unknown as u:
                            rep.inconc(R4, "%s: %s" % (op, u))
                            outs = None
                        if outs is None:
                            break
                        rows += 1
                        # only the validation prefix matters: a panic raised *after* all validations
                        # passed on a valid request would be in helper arithmetic
                        # (an `assert!`/`debug_assert!` whose condition the evaluator cannot decide is a stated
                        # invariant on a path it cannot refute, not a panic it has found)
                        pan = [o for o in outs if o["panic"] and "(assertion)" not in str(o["panic"]) and (o["definite"] or "explicit panic" not in str(o["panic"]))]
                        if [o for o in outs if o["panic"]] and not pan:
                            undecided.add("%s: an assertion on a path that could not be refuted at size=%s address=%s amount=%s" % (op, S, hx(a), hx(n)))
                            outs = [o for o in outs if not o["panic"]]
                        if pan:
                            bad.append(("panic", S, a, n, pan[0]["panic"]))
                            continue
                        errs = [o for o in outs if o["err"] is True]
                        oks = [o for o in outs if o["err"] is False]
                        if valid and (not oks or any(o["definite"] for o in errs)):
                            bad.append(("rejects-valid", S, a, n, ""))
                        if not valid and any(o["definite"] for o in oks):
                            bad.append(("accepts-invalid", S, a, n, ""))
                        elif not valid and oks:
                            undecided.add("%s: a success path could not be excluded at size=%s address=%s amount=%s (a condition on it is not evaluable)" % (op, S, hx(a), hx(n)))
        rep.count("validation_classes", rows)
        for u_ in sorted(undecided)[:1]:
            rep.inconc(R4, u_)
        if bad:
            for kd in sorted(set(x[0] for x in bad)):
                ex = [x for x in bad if x[0] == kd][0]
                rep.violation(R4, b.name, kd, "%s: %s at size=%s address=%s amount=%s %s (%d classes)" % (op, kd, ex[1], hx(ex[2]), hx(ex[3]), ex[4], len([x for x in bad if x[0] == kd])), "%s:%s" % (b.file, b.line))
        else:
            rep.ok(R4, {"op": op, "classes": rows})

    # ---- R03.1 decision tables ----------------------------------------------------------------
    for op in ("allocate", "deallocate"):
        if op not in ops:
            continue
        b, paths = ops[op]
        okp = [p for p in paths if is_err_term(p.ret) is False and p.end == "ret"]
        if not okp:
            continue
        work = max(okp, key=lambda p: len(p.events))
        stores = {}
        for e in work.events:
            if e["k"] == "write":
                root, fld, via = root_field(e["place"], True)
                if root and not via:
                    stores[fld] = e
        for name, ty in fields:
            kind = kinds[name]
            if kind is None:
                continue
            if name not in stores:
                if name in set(f for k, f, via in mutation_events(work)):
                    rep.inconc(R1, "%s updates `%s` in place; only whole-field rebuilds are understood" % (op, name))
                continue  # R03.2 reports the missing field
            val0 = stores[name]["val"]
            # the value was built and then edited in place before being stored (`for c in new.values_mut() { .. }`):
            # its term is only the value as first built
            from c04 import MUTATORS as _MUT
            touched = [e2["callee"].rsplit("::", 1)[-1] for e2 in work.events if e2["k"] == "call" and e2["callee"] and e2["args"]
                       and e2["callee"].rsplit("::", 1)[-1] in _MUT and e2["args"][0][0] == "ref" and e2["args"][0][2]
                       and strip_refs(e2["args"][0]) == strip_refs(val0) and strip_refs(val0)[0] == "call"]
            if touched:
                rep.inconc(R1, "%s builds the new `%s` and then edits it in place (%s) before storing it; only whole-value rebuilds are understood" % (op, name, touched[0]))
                continue
            # edits of the field *after* the rebuilt value was stored (`self.pointers.retain(..)` as a post-step):
            # a `retain` is applied to the evaluated table entry by entry, anything else is not understood
            from c04 import RESIZING as _RSZ
            si_ = work.events.index(stores[name])
            post = [e2 for e2 in work.events[si_ + 1:] if e2["k"] == "call" and e2["callee"] and e2["args"]
                    and e2["callee"].rsplit("::", 1)[-1] in tuple(_MUT) + tuple(_RSZ)
                    and root_field(e2["args"][0], False)[:2] == (True, name)
                    and e2["callee"].rsplit("::", 1)[-1] not in ("len", "get", "iter", "contains_key", "keys", "values")]
            if any(not e2["callee"].endswith("::retain") or len(e2["args"]) != 2 for e2 in post) or (post and kind == "value-elems"):
                rep.inconc(R1, "%s edits `%s` again after storing the rebuilt value (%s); only a `retain` post-step is understood" % (
                    op, name, post[0]["callee"].rsplit("::", 1)[-1]))
                continue
            late = after_edit_len_reads(work)
            S = 64
            mism = []
            rows = 0
            for a, n in ((16, 4), (16, 8), (0, 4)):      # (an edit at address 0: nothing lies below it)
                if a == 0 and kind == "value-elems":
                    continue    # the bucket representative needs a second cell in front of the edit

                val = subst_len(val0, late, S + n if op == "allocate" else S - n) if late else val0
                xs = sorted(x_ for x_ in set([0, 4, a - 4, a - 3, a - 1, a, a + 1, a + 3, a + 4, a + n - 1, a + n, a + n + 1, a + n + 4, a + 2 * n, S - 4, S]) if x_ >= 0)
                ys = xs if kind == "key+value" else [None]
                if not fname_is_label(name):
                    xs = [x for x in xs if x + 4 <= S]  # cells lie inside the data; labels/targets may equal the size
                for ge in (False, True):
                    for x in xs:
                        for y in ys:
                            fv = {f: MapVal(()) for f, _ in fields}
                            fv[name] = rep_map(kind, x, y)
                            env = {("p", 1): self_value(fv, S), ("p", 2): a, ("p", 3): n, ("p", 4): ge}
                            want = (spec_allocate if op == "allocate" else spec_deallocate)(kind, x, y, a, n, ge, name)
                            try:
                                mv = E.ev(val, env, b)
                                for e2 in post:
                                    mv = deref(mv)
                                    if isinstance(mv, SeqVal) and not mv.items:
                                        break       # nothing left to retain
                                    if not isinstance(mv, MapVal):
                                        raise Unknown("retain post-step on a value that is not a map: %r" % (mv,))
                                    c_ = e2["args"][1]
                                    clo = E.ev(subst_len(c_, late, S + n if op == "allocate" else S - n) if late else c_, env, b)
                                    mv = MapVal(tuple((k_, v_) for (k_, v_) in mv.pairs if E.call_closure(clo, [Ref(k_), Ref(v_)])))
                                got = read_result(kind, mv)
                            except Unknown as u:
                                rep.inconc(R1, "%s/%s: %s" % (op, name, u))
                                got = "?"
                            except Panic as pe:
                                got = "panic: " + pe.what
                            if got == "?":
                                break
                            rows += 1
                            if got != want:
                                mism.append({"a": a, "n": n, "ge": ge, "x": x, "y": y, "got": got, "want": want})
            rep.count("relocation_classes", rows)
            if mism:
                ex = mism[0]
                rep.violation(R1, b.name, "table:" + name,
                              "%s on `%s`: with a=%d n=%d ge=%s an entry at %s%s becomes %s, specified %s (%d of %d classes differ)" % (
                                  op, name, ex["a"], ex["n"], ex["ge"], ex["x"], ("->%s" % ex["y"]) if ex["y"] is not None else "",
                                  ex["got"], ex["want"], len(mism), rows),
                              "%s:%s" % (b.file, stores[name]["line"]))
            elif rows:
                rep.ok(R1, {"op": op, "field": name, "kind": kind, "classes": rows})

    # ---- R03.5 truncate ------------------------------------------------------------------------
    if "truncate" in ops:
        b, paths = ops["truncate"]
        okp = [p for p in paths if is_err_term(p.ret) is False and p.end == "ret"]
        loops = [p for p in paths if p.end == "loop"]
        work = max(okp, key=lambda p: len(p.events)) if okp else None
        if loops:
            # removal inside a loop: understood only for the `for i in range.step_by(k) { map.remove(&i) }` idiom
            step = None
            removed_fields = set()
            for p in loops:
                for e in p.events:
                    if e["k"] == "call" and e["callee"] and e["callee"].endswith("Iterator::step_by"):
                        st = e["args"][1]
                        if st[0] == "const":
                            step = st[1]
                    if e["k"] == "call" and e["callee"] and e["callee"].endswith("::remove") and e["args"]:
                        root, fld, via = root_field(e["args"][0], False)
                        if root:
                            removed_fields.add(fld)
            if step is None or not removed_fields:
                rep.inconc(R5, "truncate contains a loop this rule has no idiom for")
            elif step > 1:
                for name in sorted(removed_fields):
                    rep.violation(R5, b.name, "loop-removal:" + name, "truncate removes keys cut, cut+%d, cut+%d, ... below the old size only: annotations at other addresses beyond the cut (unaligned, or at the old end address) survive (field `%s`)" % (step, 2 * step, name), "%s:%s" % (b.file, b.line))
            else:
                rep.inconc(R5, "truncate removes keys in a unit-step loop; range end not decided")
        elif work is None:
            rep.inconc(R5, "truncate: no success path")
        else:
            S, cut = 64, 16
            for name, ty in fields:
                kind = kinds[name]
                if kind is None:
                    continue
                xs = [0, 4, cut - 4, cut - 1, cut, cut + 1, cut + 2, cut + 4, S - 4, S - 1, S]
                if not fname_is_label(name):
                    xs = [x for x in xs if x + 4 <= S]  # a 4-byte cell lies inside the data (write_* validation)
                mism = []
                rows = 0
                how = None
                for x in xs:
                    y = 0 if kind == "key+value" else None
                    fv = {f: MapVal(()) for f, _ in fields}
                    fv[name] = rep_map(kind, x, y)
                    env = {("p", 1): self_value(fv, S), ("p", 2): cut}
                    want = None if x >= cut else (x if kind != "key+value" else (x, y))
                    got = "?"
                    try:
                        # (a) whole-field store
                        st = [e for e in work.events if e["k"] == "write" and root_field(e["place"], True)[:2] == (True, name) and not root_field(e["place"], True)[2]]
                        rt = [e for e in work.events if e["k"] == "call" and e["callee"] and e["callee"].endswith("::retain") and e["args"] and root_field(e["args"][0], False)[:2] == (True, name)]
                        if st:
                            how = "rebuild"
                            late = after_edit_len_reads(work)
                            got = read_result(kind, E.ev(subst_len(st[-1]["val"], late, cut) if late else st[-1]["val"], env, b))
                        elif rt:
                            how = "retain"
                            clo = E.ev(rt[-1]["args"][1], env, b)
                            k, v = fv[name].pairs[0]
                            keep = E.call_closure(clo, [Ref(k), Ref(v)])
                            got = (x if kind != "key+value" else (x, y)) if keep else None
                            if kind == "value-elems":
                                # `retain` keeps or drops a whole bucket; unless the predicate edits the bucket itself
                                # (not modelled), a kept bucket keeps every cell it had
                                cb_ = facts.bodies.get(getattr(deref(clo), "body_id", None))
                                edits = cb_ is None or any((callee_names(t_)[1] or "").rsplit("::", 1)[-1] in ("retain", "drain", "remove", "truncate", "clear", "dedup", "swap_remove", "retain_mut")
                                                           for _, t_ in cb_.calls())
                                if edits:
                                    raise Unknown("retain over buckets whose predicate edits the bucket")
                                got = x if keep else None
                        else:
                            break
                    except Unknown as u:
                        rep.inconc(R5, "truncate/%s: %s" % (name, u))
                        break
                    except Panic as pe:
                        got = "panic: " + pe.what
                    rows += 1
                    if got != want:
                        mism.append((x, got, want))
                if mism:
                    x, got, want = mism[0]
                    rep.violation(R5, b.name, "keep:" + name, "truncate(cut=%d) on `%s`: entry at %s becomes %s, specified %s" % (cut, name, x, got, want), "%s:%s" % (b.file, b.line))
                elif rows:
                    rep.ok(R5, {"field": name, "how": how, "classes": rows})
                # (missing field is reported by R03.2)

    # ---- R03.6 data edit -------------------------------------------------------------------------
    data_edit(facts, rep, R6, ops, E, fields)
    # ---- R03.7 append and writer dispatch ----------------------------------------------------------
    append_rules(facts, rep, R7, E)


def hx(v):
    if v is None:
        return "-"
    if v > 1 << 32:
        return "usize::MAX-%d" % (MAX - v)
    return str(v)


DATA_EDITS = ("truncate", "drain", "splice", "resize", "extend_from_slice", "extend", "insert", "remove", "push", "clear", "split_off", "append")


def after_edit_len_reads(work):
    """bbs of the calls on the work path that read the data length (`self.data.len()`, `self.size()`) *after* the
    call that edits the data: their value is the new length, not the one the request was validated against."""
    seen_edit = False
    out = set()
    for e in work.events:
        if e["k"] != "call" or not e["callee"] or not e["args"]:
            continue
        sh = e["callee"].rsplit("::", 1)[-1]
        root, fld, via = root_field(e["args"][0], False)
        if root and fld == "data" and sh in DATA_EDITS:
            seen_edit = True
            continue
        if not seen_edit:
            continue
        a0 = strip_refs(e["args"][0])
        while a0[0] == "deref":
            a0 = strip_refs(a0[1])
        if (sh == "len" and a0[0] == "field" and a0[2] == "data") or (e["callee"].endswith("BinArchive::size") and a0[0] == "param" and a0[1] == 1):
            out.add(e["bb"])
    return out


def subst_len(t, bbs, new_len):
    """replace the length reads at blocks `bbs` by the constant post-edit length"""
    if not isinstance(t, tuple) or not t:
        return t
    if t[0] == "call" and len(t) > 3 and t[3] in bbs:
        return ("const", new_len, "usize")
    return tuple(subst_len(x, bbs, new_len) if isinstance(x, tuple) else x for x in t)


def data_edit(facts, rep, R6, ops, E, fields):
    for op, (b, paths) in ops.items():
        okp = [p for p in paths if is_err_term(p.ret) is False and p.end == "ret"]
        if not okp:
            continue
        work = max(okp, key=lambda p: len(p.events))
        a, n, S = 16, 8, 64
        env = {("p", 1): self_value({f: MapVal(()) for f, _ in fields}, S), ("p", 2): a, ("p", 3): n, ("p", 4): False}
        edits = []
        for e in work.events:
            if e["k"] == "call" and e["callee"] and e["args"]:
                root, fld, via = root_field(e["args"][0], False)
                if root and fld == "data":
                    edits.append(e)
        if not edits:
            rep.violation(R6, b.name, "data-edit-count", "%s never edits self.data on its success path" % op, "%s:%s" % (b.file, b.line))
            continue
        if len(edits) != 1:
            rep.inconc(R6, "%s edits self.data through %d calls (%s): the combined effect is not decided" % (op, len(edits), ", ".join(x["callee"].rsplit("::", 1)[-1] for x in edits)))
            continue
        e = edits[0]
        nm = e["callee"].rsplit("::", 1)[-1]
        try:
            if op == "allocate":
                good = False
                why = "unrecognised edit `%s`" % nm
                if nm == "splice":
                    r = deref(E.ev(e["args"][1], env, b))
                    lo, hi = r.fields
                    src = e["args"][2]
                    # the replacement must be `amount` zero bytes
                    zeros = None
                    from mir import walk
                    for t in walk(src):
                        if t[0] == "call" and t[1] and t[1].endswith("from_elem"):
                            zeros = (deref(E.ev(t[2][0], env, b)), deref(E.ev(t[2][1], env, b)))
                        elif t[0] == "call" and t[1] and t[1].endswith("Iterator::take") and len(t[2]) == 2:
                            # `repeat(0).take(n)` / `repeat_n(0, n)`
                            inner = strip_refs(t[2][0])
                            if inner[0] == "call" and inner[1].rsplit("::", 1)[-1] == "repeat" and inner[2]:
                                zeros = (deref(E.ev(inner[2][0], env, b)), deref(E.ev(t[2][1], env, b)))
                        elif t[0] == "call" and t[1] and t[1].rsplit("::", 1)[-1] == "repeat_n" and len(t[2]) == 2:
                            zeros = (deref(E.ev(t[2][0], env, b)), deref(E.ev(t[2][1], env, b)))
                    good = (lo, hi) == (a, a) and zeros == (0, n)
                    why = "splice range %s..%s with fill %s" % (lo, hi, zeros)
                    if zeros is None and (lo, hi) == (a, a):
                        why = "unrecognised edit `splice` (the replacement bytes are not recognised)"
            elif op == "deallocate":
                good = False
                why = "unrecognised edit `%s`" % nm
                if nm == "drain":
                    r = deref(E.ev(e["args"][1], env, b))
                    lo, hi = r.fields
                    good = (lo, hi) == (a, a + n)
                    why = "drain range %s..%s" % (lo, hi)
            else:
                good = False
                why = "unrecognised edit `%s`" % nm
                if nm == "truncate":
                    v = deref(E.ev(e["args"][1], env, b))
                    good = v == a
                    why = "truncate to %s" % v
                elif nm == "drain":
                    r = deref(E.ev(e["args"][1], env, b))
                    lo, hi = r.fields
                    good = (lo, hi) == (a, S)
                    why = "drain range %s..%s" % (lo, hi)
        except (Unknown, Panic, ValueError, AttributeError) as u:
            rep.inconc(R6, "%s: data edit not evaluable: %s" % (op, u))
            continue
        if good:
            rep.ok(R6, {"op": op, "edit": why})
        elif why.startswith("unrecognised edit"):
            rep.inconc(R6, "%s: %s on self.data" % (op, why))
        else:
            rep.violation(R6, b.name, "data-edit", "%s with a=%d n=%d size=%d performs %s" % (op, a, n, S, why), "%s:%s" % (b.file, e["line"]))


def append_rules(facts, rep, R7, E):
    # allocate_at_end(&mut self, n): infallible, touches only data, grows it by n zero bytes
    b = facts.body(ARCHIVE + "::allocate_at_end")
    if b is None:
        rep.inconc(R7, "allocate_at_end missing")
    else:
        ret = b.local_ty(0)
        if ret != "()":
            rep.violation(R7, b.name, "fallible", "allocate_at_end returns %s: appending must always be accepted" % ret, "%s:%s" % (b.file, b.line))
        else:
            # field effects (flow-insensitive: the body contains a loop)
            touched = set()
            pushes = []
            for bb, t in b.calls():
                n = callee_names(t)
                nm = (n[1] or n[0] or "")
                for a in t["args"]:
                    term = b.term_of_operand(a)
                    root, fld, via = root_field(term, False)
                    if root:
                        touched.add(fld)
                        pushes.append((nm.rsplit("::", 1)[-1], [fmt(b.term_of_operand(x)) for x in t["args"][1:]]))
            for bi, si, s in b.stmts():
                if s["k"] == "assign":
                    root, fld, via = root_field(b.term_of_place(s["lhs"]), True)
                    if root:
                        touched.add(fld)
            good_fill = all((nm == "push" and args == ["0"]) or (nm in ("resize",) and args[-1:] == ["0"]) or nm in ("extend", "reserve") for nm, args in pushes) and pushes
            if touched - {"data"}:
                rep.violation(R7, b.name, "fields", "allocate_at_end touches %s besides data" % sorted(touched - {"data"}), "%s:%s" % (b.file, b.line))
            elif not good_fill:
                rep.violation(R7, b.name, "fill", "allocate_at_end grows data with %s (expected zero bytes)" % pushes, "%s:%s" % (b.file, b.line))
            else:
                rep.ok(R7, {"fn": b.name, "ops": pushes})
    # writer dispatch: position == size -> allocate_at_end(amount); else allocate(position, amount, ge)
    w = facts.body("mila::bin_streams::BinArchiveWriter::<'a>::allocate")
    if w is None:
        rep.inconc(R7, "BinArchiveWriter::allocate missing")
        return
    try:
        paths = enum_paths(w)
    except PathLimit:
        rep.inconc(R7, "writer allocate: too many paths")
        return
    table = {}
    for eq in (True, False):
        pos = 8
        size = 8 if eq else 12
        selfv = Ref({"position": pos, "archive": Ref({"data": {"len": size}})})
        for o in E.outcomes(w, [selfv, 4, True]):
            calls = [(e["callee"].rsplit("::", 1)[-1], e["args"]) for e in o["path"].events if e["k"] == "call" and e["callee"] and e["callee"].startswith(ARCHIVE + "::allocate")]
            table.setdefault(eq, []).append((calls, o))
    bad = None
    for eq, lst in table.items():
        for calls, o in lst:
            names = [c[0] for c in calls]
            if eq and names != ["allocate_at_end"]:
                bad = "at the end address the writer calls %s" % names
            if not eq and names != ["allocate"]:
                bad = "inside the data the writer calls %s" % names
            for nm, args in calls:
                env = dict(o["env"])
                try:
                    vals = [deref(E.ev(a, env, w)) for a in args[1:]]
                except (Unknown, Panic) as u:
                    rep.inconc(R7, "writer allocate args: %s" % u)
                    continue
                if nm == "allocate" and vals != [8, 4, True]:
                    bad = "writer passes %s to allocate (expected position, amount, ge)" % vals
                if nm == "allocate_at_end" and vals != [4]:
                    bad = "writer passes %s to allocate_at_end" % vals
    if not table.get(True) or not table.get(False):
        rep.inconc(R7, "writer allocate: dispatch not evaluable")
    elif bad:
        rep.violation(R7, w.name, "dispatch", bad, "%s:%s" % (w.file, w.line))
    else:
        rep.ok(R7, {"fn": w.name, "table": "position==size -> allocate_at_end(amount); else allocate(position, amount, ge)"})
