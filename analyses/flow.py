"""Flow analyses over mir.Body: control dependence, guarded events, path enumeration with
path-sensitive term propagation (acyclic regions only).  Static: nothing is executed."""
from collections import defaultdict
from mir import (callee_names, call_target, op_place, const_value, fmt, walk, strip_casts,
                 strip_refs)

TRY_BRANCH = ("<std::result::Result<T, E> as std::ops::Try>::branch",
              "<std::option::Option<T> as std::ops::Try>::branch")
FROM_RESIDUAL_PREFIX = ("<std::result::Result<T, F> as std::ops::FromResidual",
                        "<std::option::Option<T> as std::ops::FromResidual")

STD_VARIANTS = {
    "Option": {0: "None", 1: "Some"},
    "Result": {0: "Ok", 1: "Err"},
    "ControlFlow": {0: "Continue", 1: "Break"},
    "Ordering": {-1: "Less", 0: "Equal", 1: "Greater", 255: "Less"},
    "Cow": {0: "Borrowed", 1: "Owned"},
}


def variant_name(facts, adt_ty, value):
    """Name of the variant of `adt_ty` (a type string) with discriminant `value`."""
    if adt_ty is None:
        return None
    base = adt_ty.split("<", 1)[0].lstrip("&").strip()
    last = base.rsplit("::", 1)[-1]
    if last in STD_VARIANTS and (base.startswith("std::") or base.startswith("core::")):
        return STD_VARIANTS[last].get(value)
    for key in (base, facts.crate + "::" + base):
        a = facts.adts.get(key)
        if a:
            for v in a["variants"]:
                if v["discr"] == value:
                    return v["name"]
    return None


# ---------------------------------------------------------------------------------------------
# control dependence

def exit_blocks(body):
    """Blocks that leave the function without a successor on the normal CFG (return, diverging
    call, unreachable, resume)."""
    out = []
    for i, b in enumerate(body.blocks):
        if b["cleanup"]:
            continue
        if not body.succs(i):
            out.append(i)
    return out


def postdom_tree(body):
    """ipdom over the normal CFG where *every* exit (return or divergence) flows to a virtual
    exit -1."""
    n = len(body.blocks)
    exits = set(exit_blocks(body))
    preds = body.preds()
    order = []
    seen = {-1}
    stack = [(-1, iter(sorted(exits)))]
    while stack:
        node, it = stack[-1]
        adv = False
        for nx in it:
            if nx not in seen:
                seen.add(nx)
                stack.append((nx, iter(preds.get(nx, []))))
                adv = True
                break
        if not adv:
            order.append(node)
            stack.pop()
    rpo = list(reversed(order))
    idx = {b: i for i, b in enumerate(rpo)}
    ipdom = {-1: -1}

    def rs(b):
        if b in exits:
            return [-1]
        return [s for s in body.succs(b) if s in idx]

    changed = True
    while changed:
        changed = False
        for b in rpo:
            if b == -1:
                continue
            new = None
            for s in rs(b):
                if s in ipdom:
                    if new is None:
                        new = s
                    else:
                        a, c = new, s
                        while a != c:
                            while idx[a] > idx[c]:
                                a = ipdom[a]
                            while idx[c] > idx[a]:
                                c = ipdom[c]
                        new = a
            if new is not None and ipdom.get(b) != new:
                ipdom[b] = new
                changed = True
    return ipdom


def control_deps(body):
    """block -> list of (branch_block, successor_taken) it is directly control dependent on."""
    ipdom = postdom_tree(body)
    cd = defaultdict(list)
    for a in range(len(body.blocks)):
        ss = body.succs(a)
        if len(ss) < 2 or a not in ipdom:
            continue
        stop = ipdom[a]
        for s in ss:
            if s not in ipdom:
                continue
            r = s
            while r != stop and r != -1:
                cd[r].append((a, s))
                r = ipdom[r]
    return cd


def branch_cond(body, a, s):
    """Condition under which branch block a goes to successor s: (term, values|None, negated)"""
    t = body.blocks[a]["term"]
    assert t["k"] == "switch"
    term = body.term_of_operand(t["d"])
    vals = [v for v, b in t["targets"] if b == s]
    if vals and t["otherwise"] != s:
        return (term, tuple(vals), False, t.get("dty"))
    if t["otherwise"] == s and not vals:
        return (term, tuple(v for v, b in t["targets"]), True, t.get("dty"))
    # both explicit and otherwise target the same block: unconditional-ish
    return (term, tuple(vals), False, t.get("dty"))


def is_try_cond(cond):
    """True if the condition tests the discriminant of a `?` (Try::branch) result."""
    t = cond[0]
    if t[0] == "discr":
        x = t[1]
        if x[0] == "call" and x[1] in TRY_BRANCH:
            return True
    return False


def guards(body, bb, cd=None, skip_try=True, _seen=None):
    """Transitive control-dependence guards of block bb as a list of
    (branch_block, cond) ordered outermost first.  Loop back-dependences are cut."""
    cd = cd or control_deps(body)
    out = []
    seen = set()
    work = [bb]
    while work:
        b = work.pop()
        for (a, s) in cd.get(b, []):
            if (a, s) in seen:
                continue
            seen.add((a, s))
            c = branch_cond(body, a, s)
            if not (skip_try and is_try_cond(c)):
                out.append((a, s, c))
            if a != bb:
                work.append(a)
    out.sort(key=lambda x: x[0])
    return out


def dom_guards(body, bb, cd=None, skip_try=True, _depth=0):
    """The guards of bb that hold on *every* execution reaching bb: branch edges (a -> s) whose target s
    dominates bb.  (`guards` also returns conditions inherited around loop back edges, in both polarities.)"""
    # (a back edge a -> s with s dominating a is excluded: its condition only held on a previous iteration)
    out = []
    for (a, s, c) in guards(body, bb, cd, False):
        if not (body.dominates(s, bb) and not body.dominates(s, a)):
            continue
        # the success arm of a test on a Result/Option that is built on several paths of an expanded helper and
        # is Ok/Some on exactly one of them: whatever guards that one definition also holds here
        term, vals, neg, dty = c
        if term[0] == "discr" and _depth < 4:
            x = term[1]
            via_try = x[0] == "call" and x[1] in TRY_BRANCH and len(x[2]) == 1
            v = x[2][0] if via_try else x
            while v[0] in ("ref", "deref"):
                v = v[1]
            if v[0] == "var" and hasattr(body, "sole_ok_block"):
                ok = body.sole_ok_block(v[1])
                if ok is not None:
                    want = 0 if via_try else ok[1]
                    sel = (vals == (want,) and not neg) or (neg and want not in vals and len(vals) == 1)
                    if sel and ok[0] != bb:
                        out.extend(g for g in dom_guards(body, ok[0], cd, skip_try, _depth + 1) if g not in out)
        if skip_try and is_try_cond(c):
            continue
        out.append((a, s, c))
    return out


def rpo(body):
    """Reverse post-order of non-cleanup blocks reachable from entry (normal edges)."""
    seen = set()
    order = []
    stack = [(0, iter(body.succs(0)))]
    seen.add(0)
    while stack:
        node, it = stack[-1]
        adv = False
        for nx in it:
            if nx not in seen:
                seen.add(nx)
                stack.append((nx, iter(body.succs(nx))))
                adv = True
                break
        if not adv:
            order.append(node)
            stack.pop()
    return list(reversed(order))


def fmt_cond(facts, c):
    term, vals, neg, dty = c
    if term[0] == "discr":
        names = [variant_name(facts, term[2], v) or str(v) for v in vals]
        s = "%s is %s" % (fmt(term[1]), "|".join(names))
        return ("not " if neg else "") + s
    if dty == "bool":
        truth = (vals == (0,)) == neg  # switch [0->else, otherwise then]
        return ("" if truth else "!") + fmt(term)
    return "%s %s %s" % (fmt(term), "not in" if neg else "in", list(vals))


def cond_truth(c):
    """For boolean conditions: returns (term, True/False) meaning term must be True/False."""
    term, vals, neg, dty = c
    if dty != "bool":
        return None
    if vals == (0,):
        return (term, neg)       # value 0 (false) taken when not negated
    if vals == (1,):
        return (term, not neg)
    return None


# ---------------------------------------------------------------------------------------------
# path enumeration with path-sensitive term propagation (for small, loop-free or
# once-unrolled functions)

class PathLimit(Exception):
    pass


class Path:
    __slots__ = ("conds", "events", "ret", "end", "blocks", "env", "loop_to")

    def __init__(self):
        self.conds = []   # list of (bb, term, vals, neg, dty)
        self.events = []  # list of dicts
        self.ret = None   # term of _0 at return
        self.end = None   # 'ret' | 'diverge' | 'loop' | 'unreachable'
        self.blocks = []
        self.env = None


def enum_paths(body, max_paths=4000, start=0, env0=None, unroll=False):
    """Enumerate the acyclic paths of `body` from `start`.  Along each path a local->term
    environment is propagated (assignments update it, calls yield ('call', …) terms and record
    an event).  A path that re-enters a block it has already visited stops with end='loop'.
    Returns a list of Path."""
    facts = body.facts
    out = []
    # loop-carried locals are made symbolic when a loop head is entered, so that the one iteration
    # explored stands for every iteration (not just the first)
    loop_assigned = {}
    for head, blocks in body.loops().items():
        ls = set()
        for bi in blocks:
            blk = body.blocks[bi]
            for s in blk["stmts"]:
                if s["k"] in ("assign", "setdiscr"):
                    ls.add(s["lhs"]["l"])
            t = blk["term"]
            if t["k"] == "call":
                ls.add(t["dest"]["l"])
                # locals mutably borrowed into calls inside the loop change too
        loop_assigned[head] = ls

    def term_place(env, p):
        l = p["l"]
        t = env.get(l)
        if t is None:
            if 1 <= l <= body.argc:
                t = ("param", l, body.local_name(l))
            else:
                t = ("var", l, body.local_name(l))
        for e in p["p"]:
            if e == "deref":
                t = t[1] if t[0] == "ref" else ("deref", t)
            elif isinstance(e, dict) and "f" in e:
                nm = e.get("name")
                if nm is None and e.get("adt") == "closure":
                    nm = body.upvars.get(e["f"])
                if t[0] == "agg" and t[1] in ("tuple", "adt", "closure") and e["f"] < len(t[4]):
                    t = t[4][e["f"]]
                elif t[0] == "downcast" and t[1][0] == "agg" and t[1][1] == "adt" and t[1][3] == t[2] and e["f"] < len(t[1][4]):
                    t = t[1][4][e["f"]]      # payload of a locally built enum value
                elif (t[0] == "downcast" and t[2] == "Continue" and e["f"] == 0 and t[1][0] == "call" and t[1][1].endswith("ops::Try>::branch")
                      and len(t[1][2]) == 1 and t[1][2][0][0] == "agg" and t[1][2][0][1] == "adt" and t[1][2][0][3] in ("Ok", "Some") and t[1][2][0][4]):
                    t = t[1][2][0][4][0]     # `Ok(x)?` is x
                else:
                    t = ("field", t, nm if nm is not None else e["f"], e["f"], e.get("adt"))
            elif isinstance(e, dict) and "idx" in e:
                t = ("index", t, term_place(env, {"l": e["idx"], "p": []}))
            elif isinstance(e, dict) and "cidx" in e:
                if t[0] == "agg" and t[1] == "array" and e["cidx"] < len(t[4]):
                    t = t[4][e["cidx"]]
                else:
                    t = ("index", t, ("const", e["cidx"], "usize"))
            elif isinstance(e, dict) and "dc" in e:
                t = ("downcast", t, e["dc"], e["vi"])
            elif isinstance(e, dict) and "sub" in e:
                t = ("subslice", t, tuple(e["sub"]), e["from_end"])
            else:
                t = ("proj", t, str(e))
        return t

    def term_op(env, op):
        if "k" in op:
            k = op["k"]
            if k.get("kind") == "fn":
                return ("fn", k.get("res") or k["def"], k["def"])
            v = const_value(k)
            if "item" in k:
                return ("const", v, k["ty"], k["item"])
            return ("const", v, k["ty"])
        if "rt" in op:
            return ("const", False, "bool")
        return term_place(env, op_place(op))

    def term_rv(env, rv):
        k = rv["k"]
        if k == "use":
            return term_op(env, rv["a"])
        if k == "bin":
            return ("bin", rv["op"], term_op(env, rv["a"]), term_op(env, rv["b"]), rv.get("aty"))
        if k == "un":
            return ("un", rv["op"], term_op(env, rv["a"]))
        if k == "cast":
            return ("cast", term_op(env, rv["a"]), rv["ty"], rv.get("from"), rv.get("ck"))
        if k in ("ref", "rawptr"):
            return ("ref", term_place(env, rv["place"]), rv.get("mut", False))
        if k == "discr":
            return ("discr", term_place(env, rv["place"]), rv.get("adt"))
        if k == "agg":
            return ("agg", rv.get("ak"), rv.get("def"), rv.get("variant"),
                    tuple(term_op(env, f) for f in rv["fields"]))
        if k == "repeat":
            return ("repeat", term_op(env, rv["a"]), rv.get("n"))
        return ("other", k)

    def assign(env, lhs, val, path, bb, line):
        if not lhs["p"]:
            env[lhs["l"]] = val
            return
        # write through a projection
        base = lhs["l"]
        cur = env.get(base)
        # whole-field update of a locally known aggregate
        if (cur is not None and cur[0] == "agg" and len(lhs["p"]) == 1 and isinstance(lhs["p"][0], dict)
                and "f" in lhs["p"][0] and lhs["p"][0]["f"] < len(cur[4])):
            fs = list(cur[4])
            fs[lhs["p"][0]["f"]] = val
            env[base] = (cur[0], cur[1], cur[2], cur[3], tuple(fs))
            return
        path.events.append({"k": "write", "place": term_place(env, lhs), "val": val, "bb": bb,
                            "line": line, "raw": lhs})

    def run(bb, env, path, visited):
        if len(out) > max_paths:
            raise PathLimit(body.name)
        while True:
            if bb in visited:
                path.end = "loop"
                path.loop_to = bb
                path.env = env
                out.append(path)
                return
            visited = visited | {bb}
            path.blocks.append(bb)
            if bb in loop_assigned:
                for l in loop_assigned[bb]:
                    # temporaries defined and used within one iteration are re-assigned before use;
                    # only locals live across the back edge matter, but havocking all is sound
                    if l in env and l > body.argc:
                        env[l] = ("var", l, body.local_name(l))
            blk = body.blocks[bb]
            for s in blk["stmts"]:
                if s["k"] == "assign":
                    assign(env, s["lhs"], term_rv(env, s["rv"]), path, bb, s["line"])
                elif s["k"] == "setdiscr":
                    path.events.append({"k": "setdiscr", "place": term_place(env, s["lhs"]), "vi": s["vi"], "bb": bb})
            t = blk["term"]
            k = t["k"]
            if k == "goto":
                bb = t["t"]
                continue
            if k == "ret":
                path.end = "ret"
                path.ret = env.get(0, ("var", 0, None))
                path.env = env
                out.append(path)
                return
            if k in ("unreachable", "resume", "terminate", "other"):
                path.end = "unreachable"
                path.env = env
                out.append(path)
                return
            if k == "drop":
                bb = t["t"]
                continue
            if k == "assert":
                m = t["msg"]
                ev = {"k": "assert", "kind": m["kind"], "op": m.get("op"), "bb": bb, "line": t["line"],
                      "cond": term_op(env, t["cond"]), "expected": t["expected"]}
                for key in ("a", "b", "len", "index"):
                    if key in m:
                        ev[key] = term_op(env, m[key])
                path.events.append(ev)
                bb = t["t"]
                continue
            if k == "call":
                names = callee_names(t)
                args = tuple(term_op(env, a) for a in t["args"])
                if names[0] is None:
                    val = ("callind", term_op(env, t["fn"]), args, bb)
                    nm = None
                else:
                    nm = names[1] or names[0]
                    val = ("call", nm, args, bb, names[0])
                path.events.append({"k": "call", "callee": nm, "written": names[0], "args": args,
                                    "bb": bb, "line": t["line"], "exp": t.get("exp"), "val": val,
                                    "gargs": (call_target(t) or {}).get("gargs")})
                # havoc locals mutably borrowed into the call
                for a in args:
                    if a[0] == "ref" and a[2]:
                        r = a[1]
                        while r[0] in ("field", "deref", "index", "downcast"):
                            r = r[1]
                        if r[0] == "var" and r[1] in env:
                            pass
                assign(env, t["dest"], val, path, bb, t["line"])
                if t["t"] is None:
                    path.end = "diverge"
                    path.env = env
                    out.append(path)
                    return
                bb = t["t"]
                continue
            if k == "switch":
                d = term_op(env, t["d"])
                # constant folding on known discriminants / constants
                taken = None
                dv = d
                if dv[0] == "const" and isinstance(dv[1], (int, bool)):
                    v = int(dv[1])
                    taken = t["otherwise"]
                    for val, tb in t["targets"]:
                        if val == v:
                            taken = tb
                elif dv[0] == "discr" and dv[1][0] == "agg" and dv[1][1] == "adt":
                    # discriminant of a locally built enum value
                    adt = facts.adts.get(dv[1][2])
                    vname = dv[1][3]
                    v = None
                    if adt:
                        for vv in adt["variants"]:
                            if vv["name"] == vname:
                                v = vv["discr"]
                    else:
                        last = (dv[1][2] or "").rsplit("::", 1)[-1]
                        for key, tab in STD_VARIANTS.items():
                            if last == key:
                                for dk, dn in tab.items():
                                    if dn == vname:
                                        v = dk
                    if v is not None:
                        taken = t["otherwise"]
                        for val, tb in t["targets"]:
                            if val == v:
                                taken = tb
                elif dv[0] == "discr" and dv[1][0] == "call" and dv[1][1] in TRY_BRANCH and len(dv[1][2]) == 1:
                    # `?` applied to a value whose variant is known on this path (an inlined helper's
                    # `Ok(..)` / early `Err(..)?`): Continue = 0, Break = 1
                    x = dv[1][2][0]
                    while x[0] in ("ref", "deref"):
                        x = x[1]
                    v = None
                    if x[0] == "agg" and x[1] == "adt" and x[3] in ("Ok", "Some"):
                        v = 0
                    elif x[0] == "agg" and x[1] == "adt" and x[3] in ("Err", "None"):
                        v = 1
                    elif x[0] == "call" and x[1].startswith(FROM_RESIDUAL_PREFIX):
                        v = 1
                    if v is not None:
                        taken = t["otherwise"]
                        for val, tb in t["targets"]:
                            if val == v:
                                taken = tb
                if taken is not None:
                    bb = taken
                    continue
                succs = []
                for val, tb in t["targets"]:
                    succs.append((tb, (val,), False))
                succs.append((t["otherwise"], tuple(v for v, _ in t["targets"]), True))
                # consistency with earlier decisions on the very same term (e.g. `match game` twice,
                # `a && x || !a && y`): infeasible combinations are not paths
                prev = [(c[2], c[3]) for c in path.conds if c[1] == d]
                if prev:
                    def feasible(vals, neg):
                        for pv, pn in prev:
                            if not pn and not neg:
                                if not (set(pv) & set(vals)):
                                    return False
                            elif not pn and neg:
                                if set(pv) <= set(vals):
                                    return False
                            elif pn and not neg:
                                if set(vals) <= set(pv):
                                    return False
                        return True
                    succs = [x for x in succs if feasible(x[1], x[2])]
                for tb, vals, neg in succs:
                    # skip unreachable arms
                    tblk = body.blocks[tb]
                    if tblk["term"]["k"] == "unreachable" and not tblk["stmts"]:
                        continue
                    p2 = Path()
                    p2.conds = path.conds + [(bb, d, vals, neg, t.get("dty"))]
                    p2.events = list(path.events)
                    p2.blocks = list(path.blocks)
                    run(tb, dict(env), p2, visited)
                return
            raise AssertionError("unknown terminator " + k)

    p = Path()
    run(start, dict(env0 or {}), p, frozenset())
    return out


def path_cond_str(facts, path, skip_try=False):
    out = []
    for (bb, term, vals, neg, dty) in path.conds:
        c = (term, vals, neg, dty)
        if skip_try and is_try_cond(c):
            continue
        out.append(fmt_cond(facts, c))
    return " && ".join(out)
