"""C12 — layered filesystem: top layer wins, writes stay on top, per-game codecs."""
import re
from mir import fmt, walk, strip_refs, callee_names, norm
from flow import enum_paths, PathLimit
from c04 import is_err_term
from summ import Evaluator, Ref, Unknown, Panic, deref

EXPLANATION = ("Top-down first-hit shape of the five lookups (iteration over Rev<slice::Iter> of self.layers, "
               "return on first successful probe, not-found only after the loop); who-may-call confinement of "
               "std::fs mutators to the last layer; exhaustive per-game configuration table of "
               "LayeredFilesystem::new; typed helpers are read/write composed with the configured codec; "
               "read/write agree on path mapping and compression predicate.")
ASSUMPTIONS = ["std::fs behaves as documented", "compression correctness is C08-C11's subject"]

LFS = "mila::layered_filesystem::LayeredFilesystem"
LAYER = "mila::layered_filesystem::FileSystemLayer"
FS_MUTATORS = re.compile(r"^std::fs::(write|create_dir|create_dir_all|remove_file|remove_dir|remove_dir_all|rename|copy|hard_link|soft_link|set_permissions)$|"
                         r"^std::fs::File::(create|create_new|set_len|options)|^std::fs::OpenOptions::|^std::os::unix::fs::symlink|"
                         r"^std::fs::DirBuilder::")


def item_of_next(t):
    """Is term t the item of an Iterator::next() call:  (next(..) as Some).0 ?  returns the next-call."""
    t = strip_refs(t)
    if t[0] == "field" and t[1][0] == "downcast" and t[1][2] == "Some":
        c = t[1][1]
        if c[0] == "call" and c[1].endswith("Iterator>::next"):
            return c
    return None


def iteration_source(next_call):
    """Summarise what a next() call iterates over: (set of adaptor names, root field name)."""
    adaptors = []
    root = None
    for s in walk(next_call):
        if s[0] == "call":
            sh = s[1].rsplit("::", 1)[-1]
            if sh not in ("next", "into_iter", "deref", "iter"):
                adaptors.append(sh)
        if s[0] == "field" and strip_refs(s[1])[0] == "param" and strip_refs(s[1])[1] == 1:
            root = s[2]
    return adaptors, root


def run(facts, rep, ctx):
    R1 = rep.rule("R12.1", "top-down first hit in read/exists/file_exists/directory_exists/resolve", floor=5)
    R2 = rep.rule("R12.2", "filesystem mutation is confined to FileSystemLayer::{write,create_dir} called on the last layer only", floor=5)
    R3 = rep.rule("R12.3", "per-game configuration table of LayeredFilesystem::new (7 games x 4 settings, NoLayers)", floor=8)
    R4 = rep.rule("R12.4", "typed helpers = byte-level read/write composed with the configured codec", floor=10)
    R5 = rep.rule("R12.5", "read and write agree: same path mapping, compression predicate on the caller's path, configured format", floor=2)
    lookups(facts, rep, R1)
    confinement(facts, rep, R2)
    config_table(facts, rep, R3)
    helpers(facts, rep, R4)
    symmetry(facts, rep, R5)
    # what is stored for a compressed path is the configured format's own stream, and a read expands it with the same
    # format: CompressionFormat::{compress, decompress, is_compressed_filename} are pure dispatch (shared with C11-R11.1)
    R7 = rep.rule("R12.7", "CompressionFormat methods hand the caller's bytes to the configured format's method and return its result unchanged", floor=6)
    import c11
    c11.dispatch(facts, rep, R7)
    R6 = rep.rule("R12.6", "a layer write creates or replaces the whole file with the caller's bytes", floor=2)
    write_replaces(facts, rep, R6)
    write_reaches_layer(facts, rep, R6)
    codec_round_trip(facts, rep, ctx)


def codec_round_trip(facts, rep, ctx):
    """Read-after-write through a compressed suffix is decompress(compress(bytes)) = bytes for the configured format.
    The structural conditions for that are C08's (LZ10) and C09's (LZ13) rule sets -- token layout against the
    decoder's, group accounting, and the shared match search reporting the displacement of the bytes it compared.
    They are evaluated here as part of this property: a change that breaks them breaks read-after-write for every
    payload long enough to reach the broken case."""
    R8 = rep.rule("R12.8", "the configured codecs round-trip: C08 (LZ10) and C09 (LZ13) structural conditions hold for the compressors the filesystem writes with", floor=2)
    from common import Report
    import c08
    import c09
    for mod, pid, what in ((c08, "C08", "LZ10 (FE9/FE10 .cms/.cmp)"), (c09, "C09", "LZ13 (FE13-FE15 .lz)")):
        sub = Report(pid)
        try:
            mod.run(facts, sub, ctx)
            sub.finish_floors()
        except Exception as ex:
            rep.inconc(R8, "%s rule set could not be evaluated: %s" % (pid, ex))
            continue
        for v in sub.violations:
            rep.violation(R8, v["fn"], "%s:%s" % (pid, v["key"].split("|", 1)[0] + "|" + v["key"].rsplit("|", 1)[-1]), "%s, %s: %s" % (what, v["rule"], v["msg"]), v["where"])
        for d in sub.inconclusive[:3]:
            rep.inconc(R8, "%s %s: %s" % (pid, d["rule"], d["reason"]))
        if not sub.violations and not sub.inconclusive:
            rep.ok(R8, {"codec": what, "rules": sorted(sub.rules), "instances": sum(r["instances"] for r in sub.rules.values())})


def lookups(facts, rep, R1):
    for name in ("read", "exists", "file_exists", "directory_exists", "resolve"):
        b = facts.body(LFS + "::" + name)
        if b is None or not b.pub:
            rep.inconc(R1, "anchor LayeredFilesystem::%s missing" % name)
            continue
        try:
            paths = enum_paths(b)
        except PathLimit:
            rep.inconc(R1, name + ": too many paths")
            continue
        bad = None
        seen = {"none": 0, "hit": 0, "miss": 0}
        for p in paths:
            nxt = None
            probe = None
            for (bb, term, vals, neg, dty) in p.conds:
                if term[0] == "discr" and term[1][0] == "call" and term[1][1].endswith("Iterator>::next"):
                    some = (vals == (1,)) != neg
                    nxt = (term[1], some)
                # probe: bool result of a layer method, or is-Some of layer.resolve
                t0 = term
                if t0[0] == "discr":
                    t0 = t0[1]
                if t0[0] == "call" and t0[1].startswith(LAYER + "::") and probe is None:
                    # the first test of a layer method decides whether the layer "has" the path
                    if term[0] == "discr":
                        truth = (vals == (1,)) != neg
                    else:
                        truth = (vals == (0,)) == neg
                    probe = (t0, truth)
            if nxt is None:
                continue  # error exit before the loop (localisation failed)
            ncall, some = nxt
            adaptors, root = iteration_source(ncall)
            if root != "layers":
                bad = "iterates over %s, not self.layers" % root
            elif adaptors != ["rev"]:
                bad = "iterates self.layers through %s (expected exactly one .rev(): last layer = highest priority first)" % (adaptors or "no adaptor")
            if not some:
                seen["none"] += 1
                if p.end != "ret":
                    bad = "the exhausted-iterator path does not return"
                else:
                    r = p.ret
                    nf = (is_err_term(r) is True) or (r[0] == "agg" and r[3] == "Ok" and r[4][0] == ("const", False, "bool")) or (r[0] == "agg" and r[3] == "None")
                    if not nf:
                        bad = "returns %s when no layer has the path" % fmt(r)[:80]
                continue
            if probe is None:
                bad = "a loop iteration does not probe the layer"
                continue
            pcall, truth = probe
            want_probe = {"read": "file_exists", "exists": "exists", "file_exists": "file_exists", "directory_exists": "directory_exists", "resolve": "resolve"}[name]
            if pcall[1].rsplit("::", 1)[-1] != want_probe:
                bad = "probes each layer with %s; a layer `contains` the path for this query only if %s holds (e.g. a directory of the same name in a higher layer must not shadow a file)" % (pcall[1].rsplit("::", 1)[-1], want_probe)
            recv = item_of_next(pcall[2][0])
            if recv is None:
                bad = "probes %s rather than the layer being iterated" % fmt(pcall[2][0])[:80]
            if truth:
                seen["hit"] += 1
                if p.end == "loop":
                    bad = "keeps searching lower-priority layers after a hit"
                elif p.end == "ret":
                    r = p.ret
                    found = (r[0] == "agg" and r[3] in ("Ok", "Some") and r[4][0] != ("const", False, "bool")) or is_err_term(r) is True
                    # `find_map`: the probe's own `Some(..)` is returned
                    if not found and norm(r) == norm(pcall) and name == "resolve":
                        found = True
                    # a forwarded call result (e.g. the decoder's Result) is not the "absent" answer either
                    if not found and r[0] in ("call", "var") and not (r[0] == "agg"):
                        found = True
                    if not found:
                        bad = "returns %s on a hit" % fmt(r)[:80]
                    # read: the bytes come from the same layer and the same path
                    for e in p.events:
                        if e["k"] == "call" and e["callee"] == LAYER + "::read":
                            if item_of_next(e["args"][0]) is None:
                                bad = "reads from %s rather than the layer that was probed" % fmt(e["args"][0])[:80]
                            if norm(e["args"][1]) != norm(pcall[2][1]):
                                bad = "probes one path and reads another"
            else:
                seen["miss"] += 1
                if p.end != "loop":
                    bad = "gives up (%s) after the first layer misses instead of trying the next" % p.end
        if not (seen["none"] and seen["hit"] and seen["miss"]):
            rep.inconc(R1, "%s: loop shape not recognised (%s)" % (name, seen))
        elif bad:
            rep.violation(R1, b.name, "shape", "%s: %s" % (name, bad), "%s:%s" % (b.file, b.line))
        else:
            rep.ok(R1, {"fn": b.name, "paths": seen})


def confinement(facts, rep, R2):
    sites = []
    for b in facts.bodies.values():
        for bb, t in b.calls():
            nm = callee_names(t)[1] or callee_names(t)[0] or ""
            if FS_MUTATORS.search(nm):
                sites.append((b, t, nm))
    allowed = {LAYER + "::write", LAYER + "::create_dir"}
    for b, t, nm in sites:
        if b.name in allowed:
            rep.ok(R2, {"fn": b.name, "fs_call": nm})
        else:
            rep.violation(R2, b.name, "fs:" + nm.rsplit("::", 1)[-1], "%s calls %s: the filesystem may only be modified by FileSystemLayer::{write,create_dir}" % (b.name, nm), "%s:%s" % (b.file, t["line"]))
    if len(sites) < 3:
        rep.inconc(R2, "only %d std::fs mutator call(s) visible; expected at least 3" % len(sites))
    # callers of the two layer mutators, and their receivers
    for target in sorted(allowed):
        tb = facts.body(target)
        if tb is None:
            rep.inconc(R2, target + " missing")
            continue
        callers = facts.callers_of(tb.id)
        for cb, bb in callers:
            t = cb.blocks[bb]["term"]
            short = target.rsplit("::", 1)[-1]
            if cb.name not in (LFS + "::write", LFS + "::create_dir"):
                rep.violation(R2, cb.name, "caller:" + short, "%s calls FileSystemLayer::%s" % (cb.name, short), "%s:%s" % (cb.file, t["line"]))
                continue
            recv = cb.term_of_operand(t["args"][0])
            how = last_layer(facts, recv)
            if how:
                rep.ok(R2, {"fn": cb.name, "receiver": how})
            else:
                rep.violation(R2, cb.name, "receiver:" + short, "%s writes through %s, which is not provably the last (highest-priority) layer" % (cb.name.rsplit("::", 1)[-1], fmt(recv)[:120]), "%s:%s" % (cb.file, t["line"]))
    # FileSystemLayer is public: its own mutators must not be reachable from any other pub fn of the crate
    # (covered by the caller check above).


def write_reaches_layer(facts, rep, R6):
    """Every path on which LayeredFilesystem::write reports success has handed the bytes to the top layer's write
    (must-pass-through): a success that wrote nothing breaks read-after-write on the top layer."""
    from c04 import is_err_term
    for name, target in (("write", LAYER + "::write"), ("create_dir", LAYER + "::create_dir")):
        b = facts.body(LFS + "::" + name)
        if b is None:
            continue
        try:
            paths = enum_paths(b, max_paths=6000)
        except PathLimit:
            rep.inconc(R6, "%s: too many paths" % b.name)
            continue
        bad = None
        n = 0
        for p in paths:
            if p.end != "ret":
                continue
            err = is_err_term(p.ret)
            if err is True:
                continue
            calls = [e for e in p.events if e["k"] == "call" and e["callee"] == target]
            if calls and (err is False or any(x == calls[-1]["val"] for x in walk(p.ret))):
                n += 1
                continue
            if err is False and not calls:
                bad = "; ".join(fmt(c[1])[:60] for c in p.conds[-2:])
        if bad is not None:
            rep.violation(R6, b.name, "success-without-write", "LayeredFilesystem::%s can return Ok without calling FileSystemLayer::%s (under [%s]): nothing is created in the top layer" % (name, target.rsplit("::", 1)[-1], bad), "%s:%s" % (b.file, b.line))
        elif n:
            rep.ok(R6, {"fn": b.name, "success_paths_through_layer_write": n})
        else:
            rep.inconc(R6, "%s: no success path through FileSystemLayer::%s recognised" % (b.name, target.rsplit("::", 1)[-1]))


def write_replaces(facts, rep, R6):
    """FileSystemLayer::write creates or *replaces* the file: std::fs::write / File::create, or an
    OpenOptions chain with create(true) and truncate(true) and without append(true)."""
    b = facts.body(LAYER + "::write")
    if b is None:
        rep.inconc(R6, "FileSystemLayer::write missing")
        return
    where = "%s:%s" % (b.file, b.line)
    names = []
    opts = {}
    for bb, t in b.calls():
        nm = callee_names(t)[1] or callee_names(t)[0] or ""
        names.append(nm)
        if nm.startswith("std::fs::OpenOptions::") and len(t["args"]) == 2:
            a = b.term_of_operand(t["args"][1])
            if a[0] == "const":
                opts[nm.rsplit("::", 1)[-1]] = a[1]
    if any(n == "std::fs::write" or n.startswith("std::fs::File::create") for n in names):
        rep.ok(R6, {"fn": b.name, "how": "std::fs::write / File::create (truncating)"})
    elif any(n.startswith("std::fs::OpenOptions::") for n in names):
        if opts.get("create") is True and opts.get("truncate") is True and not opts.get("append"):
            rep.ok(R6, {"fn": b.name, "how": "OpenOptions create+truncate"})
        else:
            rep.violation(R6, b.name, "no-truncate", "FileSystemLayer::write opens the file with %s: an existing longer file keeps its tail, so a read after the write does not return exactly the written bytes" % opts, where)
    else:
        rep.inconc(R6, "FileSystemLayer::write: no file-writing call recognised")
    # the written bytes and the path are the caller's
    ok_args = False
    for bb, t in b.calls():
        nm = callee_names(t)[1] or ""
        if nm == "std::fs::write" or nm.endswith("Write::write_all") or nm.endswith("io::Write>::write_all"):
            a = b.term_of_operand(t["args"][-1])
            if any(x[0] == "param" and x[1] == 3 for x in walk(a)):
                ok_args = True
    if ok_args:
        rep.ok(R6, {"fn": b.name, "payload": "caller's bytes"})
    else:
        rep.violation(R6, b.name, "payload", "FileSystemLayer::write does not write the caller's bytes", where)


def last_layer(facts, recv, depth=0):
    """Is `recv` the last element of self.layers?  Accepted: layers.last() (through ok_or/?), or a local
    accessor whose body returns &self.layers[self.layers.len() - 1]."""
    for s in walk(recv):
        if s[0] == "call" and s[1].endswith("<impl [T]>::last"):
            base = [x for x in walk(s[2][0]) if x[0] == "field" and x[2] == "layers"]
            if base:
                return "self.layers.last()"
        if s[0] == "call" and s[1].startswith(LFS + "::") and depth < 2:
            ab = facts.body(s[1])
            if ab is not None:
                try:
                    ps = enum_paths(ab)
                except PathLimit:
                    return None
                rets_ = [p_ for p_ in ps if p_.end == "ret"]
                if rets_ and all(any(x[0] == "call" and x[1].endswith("<impl [T]>::last") and any(y[0] == "field" and y[2] == "layers" for y in walk(x[2][0]))
                                     for x in walk(p_.ret)) for p_ in rets_):
                    return "%s() = self.layers.last()" % s[1].rsplit("::", 1)[-1]
                if len(ps) == 1 and ps[0].end == "ret":
                    E = Evaluator(facts)
                    # evaluate the index expression with a representative length
                    for e in ps[0].events:
                        if e["k"] == "call" and e["callee"] and "ops::Index" in e["callee"]:
                            base = [x for x in walk(e["args"][0]) if x[0] == "field" and x[2] == "layers"]
                            try:
                                idx = deref(E.ev(e["args"][1], {("p", 1): Ref({"layers": {"len": 5}})}, ab))
                            except (Unknown, Panic):
                                return None
                            if base and idx == 4:
                                return "%s() = self.layers[len-1]" % s[1].rsplit("::", 1)[-1]
    return None


CONFIG = {
    "FE9": ("LZ10", "FE9", "Big", "ShiftJIS"),
    "FE10": ("LZ10", "FE10", "Big", "ShiftJIS"),
    "FE13": ("LZ13", "FE13", "Little", "Unicode"),
    "FE14": ("LZ13", "FE14", "Little", "Unicode"),
    "FE15": ("LZ13", "FE15", "Little", "Unicode"),
    "FE11": "UnsupportedGame",
    "FE12": "UnsupportedGame",
}


def config_table(facts, rep, R3):
    b = facts.ibody(LFS + "::new", combinators=True)
    if b is None or not b.pub:
        rep.inconc(R3, "anchor LayeredFilesystem::new missing")
        return
    gadt = facts.adts.get("mila::game::Game")
    if not gadt:
        rep.inconc(R3, "Game ADT missing")
        return
    gv = {v["discr"]: v["name"] for v in gadt["variants"]}
    gparam = None
    for i in range(1, b.argc + 1):
        if b.local_ty(i) == "game::Game":
            gparam = i
    try:
        paths = enum_paths(b)
    except PathLimit:
        rep.inconc(R3, "new: too many paths")
        return
    rows = {}
    nolayers = None
    for p in paths:
        games = set(gv.values())
        empty = None
        for (bb, term, vals, neg, dty) in p.conds:
            if term[0] == "discr" and term[1] == ("param", gparam, b.local_name(gparam)):
                names = set(gv[v] for v in vals if v in gv)
                games = games - names if neg else games & names
            if term[0] == "call" and term[1].endswith("::is_empty"):
                empty = (vals == (0,)) == neg
        if p.end != "ret":
            continue
        r = p.ret
        if empty:
            nolayers = r
            continue
        if is_err_term(r) is True and r[0] == "call":
            # a locally built error unwrapped with `?` (e.g. `profile.ok_or(UnsupportedGame)?`) ...
            known = [x[3] for x in walk(r) if x[0] == "agg" and x[1] == "adt" and (x[2] or "").endswith("LayeredFilesystemError")]
            if len(known) == 1:
                for g in games:
                    rows.setdefault(g, set()).add(known[0])
            continue  # ... otherwise a propagated normalisation error
        if r[0] == "agg" and r[3] == "Err":
            inner = r[4][0]
            val = inner[3] if inner[0] == "agg" else fmt(inner)
        elif r[0] == "agg" and r[3] == "Ok":
            st = r[4][0]
            if st[0] != "agg" or st[2] != LFS:
                val = "?" + fmt(st)[:60]
            else:
                names = None
                # field order from the ADT
                adt = facts.adts.get(LFS)
                names = [f["name"] for f in adt["variants"][0]["fields"]]
                d = dict(zip(names, st[4]))

                def variant(x):
                    return x[3] if x[0] == "agg" else "?" + fmt(x)[:40]
                val = (variant(d["compression_format"]), variant(d["path_localizer"]), variant(d["endian"]), variant(d["text_archive_format"]))
                # game and language must be stored as given
                if d["game"][0] != "param" or d["language"][0] != "param":
                    val = ("?game/language not stored",) + val
        else:
            val = "?" + fmt(r)[:60]
        for g in games:
            rows.setdefault(g, set()).add(val)
    for g in sorted(CONFIG):
        got = rows.get(g, set())
        if got == {CONFIG[g]}:
            rep.ok(R3, {"game": g, "config": CONFIG[g]})
        else:
            rep.violation(R3, b.name, "game:" + g, "LayeredFilesystem::new(%s) configures %s, specified %s" % (g, sorted(map(str, got)) or "nothing", CONFIG[g]), "%s:%s" % (b.file, b.line))
    for g in rows:
        if g not in CONFIG:
            rep.violation(R3, b.name, "game:" + g, "game %s has no row in the specification" % g, "%s:%s" % (b.file, b.line))
    if nolayers is not None and nolayers[0] == "agg" and nolayers[3] == "Err" and nolayers[4][0][0] == "agg" and nolayers[4][0][3] == "NoLayers":
        rep.ok(R3, {"layers": "empty", "result": "Err(NoLayers)"})
    else:
        rep.violation(R3, b.name, "nolayers", "an empty layer list yields %s, specified Err(NoLayers)" % (fmt(nolayers) if nolayers else "no dedicated result"), "%s:%s" % (b.file, b.line))


HELPERS = {
    # name: (kind, codec callee, config args expected among the codec's arguments)
    "read_archive": ("read", "mila::bin_archive::BinArchive::from_bytes", ["endian"]),
    "read_text_archive": ("read", "mila::text_archive::TextArchive::from_bytes", ["text_archive_format", "endian"]),
    "read_fe9_arc": ("read", "mila::fe9_arc::parse", []),
    "read_arc": ("read", "mila::arc::from_bytes", []),
    "read_tpl_textures": ("read", "mila::tpl::Tpl::extract_textures", []),
    "read_bch_textures": ("read", "mila::bch::read", []),
    "read_ctpk_textures": ("read", "mila::ctpk::read", []),
    "read_cgfx_textures": ("read", "mila::cgfx::read", []),
    "write_archive": ("write", "mila::bin_archive::BinArchive::serialize", []),
    "write_text_archive": ("write", "mila::text_archive::TextArchive::serialize", []),
}


def helpers(facts, rep, R4):
    for name, (kind, codec, cfg) in sorted(HELPERS.items()):
        b = facts.body(LFS + "::" + name)
        if b is None or not b.pub:
            rep.inconc(R4, "helper %s missing" % name)
            continue
        try:
            paths = enum_paths(b)
        except PathLimit:
            rep.inconc(R4, name + ": too many paths")
            continue
        okp = [p for p in paths if p.end == "ret" and is_err_term(p.ret) is not True]
        if not okp:
            rep.inconc(R4, name + ": no success path")
            continue
        bad = None
        for p in okp:
            io = [e for e in p.events if e["k"] == "call" and e["callee"] in (LFS + "::read", LFS + "::write")]
            cd = [e for e in p.events if e["k"] == "call" and e["callee"] == codec]
            if len(io) != 1 or io[0]["callee"] != LFS + "::" + kind:
                bad = "does not perform exactly one self.%s" % kind
                continue
            if len(cd) != 1:
                bad = "does not call %s exactly once" % codec
                continue
            ioe, cde = io[0], cd[0]
            # path and localized forwarded unchanged
            a = [strip_refs(x) for x in ioe["args"]]
            if not (a[0][0] == "param" and a[0][1] == 1 and a[1][0] == "param" and a[1][1] == 2 and a[-1][0] == "param"):
                bad = "calls self.%s(%s)" % (kind, ", ".join(fmt(x)[:40] for x in ioe["args"]))
            if kind == "read":
                # the codec consumes the bytes returned by read, configured from self fields
                if not any(x == ioe["val"] for x in walk(cde["args"][0])):
                    bad = "%s parses %s, not the bytes that were read" % (name, fmt(cde["args"][0])[:60])
                got = []
                for x in cde["args"][1:]:
                    x = strip_refs(x)
                    if x[0] == "field" and strip_refs(x[1])[0] == "param":
                        got.append(x[2])
                    else:
                        got.append("const:" + fmt(x)[:30])
                if got != cfg:
                    bad = "%s configures the parser with %s, specified self.%s" % (name, got, cfg)
                if not any(x == cde["val"] for x in walk(p.ret)):
                    bad = "does not return the parsed value"
            else:
                if not any(x == cde["val"] for x in walk(ioe["args"][2])):
                    bad = "%s writes %s, not the serialized value" % (name, fmt(ioe["args"][2])[:60])
                src = strip_refs(cde["args"][0])
                if not (src[0] == "param" and src[1] == 3):
                    bad = "serializes %s instead of the caller's value" % fmt(cde["args"][0])
        if bad:
            rep.violation(R4, b.name, "compose", "%s: %s" % (name, bad), "%s:%s" % (b.file, b.line))
        else:
            rep.ok(R4, {"fn": b.name, "codec": codec, "config": cfg})


def symmetry(facts, rep, R5):
    info = {}
    for name in ("read", "write"):
        b = facts.body(LFS + "::" + name)
        if b is None:
            rep.inconc(R5, name + " missing")
            return
        try:
            paths = enum_paths(b)
        except PathLimit:
            rep.inconc(R5, name + ": too many paths")
            return
        bad = None
        pred_seen = 0
        for p in paths:
            pred = None
            for (bb, term, vals, neg, dty) in p.conds:
                if term[0] == "call" and term[1].endswith("::is_compressed_filename"):
                    pred = (term, (vals == (0,)) == neg)
            codec = [e for e in p.events if e["k"] == "call" and e["callee"] in
                     ("mila::compression_format::CompressionFormat::compress", "mila::compression_format::CompressionFormat::decompress")]
            lay = [e for e in p.events if e["k"] == "call" and e["callee"] == LAYER + "::" + name]
            if pred is None:
                if codec:
                    bad = "(de)compresses without consulting the file-name predicate"
                continue
            pred_seen += 1
            term, truth = pred
            fmt_arg = strip_refs(term[2][0])
            name_arg = strip_refs(term[2][1])
            if not (fmt_arg[0] == "field" and fmt_arg[2] == "compression_format"):
                bad = "predicate evaluated on %s, not self.compression_format" % fmt(term[2][0])
            if name_arg[0] == "param" and name_arg[1] == 2:
                info.setdefault(name, set()).add("raw")
            elif any(x[0] == "param" and x[1] == 2 for x in walk(term[2][1])):
                info.setdefault(name, set()).add("mapped")
            else:
                bad = "predicate evaluated on %s, which is not derived from the caller's path" % fmt(term[2][1])[:60]
            want = "decompress" if name == "read" else "compress"
            if truth:
                if len(codec) != 1 or not codec[0]["callee"].endswith("::" + want):
                    bad = "compressed file name but %s" % ([c["callee"].rsplit("::", 1)[-1] for c in codec] or "no codec call")
                else:
                    ca = strip_refs(codec[0]["args"][0])
                    if not (ca[0] == "field" and ca[2] == "compression_format"):
                        bad = "uses %s instead of the configured format" % fmt(codec[0]["args"][0])
                    if name == "read":
                        if lay and not any(x == lay[0]["val"] for x in walk(codec[0]["args"][1])):
                            bad = "decompresses %s, not the bytes read from the layer" % fmt(codec[0]["args"][1])[:60]
                    else:
                        if strip_refs(codec[0]["args"][1]) != ("param", 3, "bytes") and strip_refs(codec[0]["args"][1])[0] != "param":
                            bad = "compresses %s, not the caller's bytes" % fmt(codec[0]["args"][1])[:60]
                        if lay and not any(x == codec[0]["val"] for x in walk(lay[0]["args"][2])):
                            bad = "stores %s, not the compressed bytes" % fmt(lay[0]["args"][2])[:60]
            else:
                if codec:
                    bad = "plain file name but calls %s" % codec[0]["callee"].rsplit("::", 1)[-1]
                if name == "write" and lay:
                    if not any(x[0] == "param" and x[1] == 3 for x in walk(lay[0]["args"][2])):
                        bad = "stores %s, not the caller's bytes" % fmt(lay[0]["args"][2])[:60]
        if pred_seen == 0:
            rep.inconc(R5, "%s: compression predicate not found" % name)
        elif bad:
            rep.violation(R5, b.name, "symmetry", "%s: %s" % (name, bad), "%s:%s" % (b.file, b.line))
        else:
            rep.ok(R5, {"fn": b.name, "predicate_paths": pred_seen})
    if info.get("read") and info.get("write") and info["read"] != info["write"]:
        b = facts.body(LFS + "::write")
        rep.violation(R5, b.name, "predicate-argument", "read evaluates the compression predicate on the %s path but write on the %s path: a written file may be read back with the other decision" % (sorted(info["read"]), sorted(info["write"])), "%s:%s" % (b.file, b.line))
    # suffix table (reported)
    for fmtname, want in (("lz10::LZ10CompressionFormat", [".cms", ".cmp"]), ("lz13::LZ13CompressionFormat", [".lz"])):
        b = facts.body("mila::%s::is_compressed_filename" % fmtname)
        if b is None:
            continue
        sufs = []
        for bb, t in b.calls():
            nm = callee_names(t)[1] or ""
            if nm.endswith("<impl str>::ends_with"):
                a = strip_refs(b.term_of_operand(t["args"][1]))
                if a[0] == "const":
                    sufs.append(a[1])
        rep.note("%s suffixes: %s" % (fmtname, sufs))
        if sorted(sufs) != sorted(want):
            rep.violation(R5, b.name, "suffixes", "%s recognises %s, specified %s" % (fmtname, sufs, want), "%s:%s" % (b.file, b.line))
